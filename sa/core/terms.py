"""
Helpers over the symbolic terms produced by defuse.Expander.
"""
from .defuse import term_alts, term_contains, fmt_term  # noqa: F401


def subterms(t):
    """all sub-terms (pre-order), descending into phi sets"""
    stack = [t]
    while stack:
        x = stack.pop()
        if isinstance(x, frozenset):
            stack.extend(x)
            continue
        if not isinstance(x, tuple):
            continue
        if x and isinstance(x[0], str):
            yield x
        for y in x:
            if isinstance(y, (tuple, frozenset)):
                stack.append(y)


def call_name(t):
    """name of the callee of a ('call', f, args, kws) term: the bare
    function name or the attribute name of a method / module function"""
    if not (isinstance(t, tuple) and t and t[0] == 'call'):
        return None
    f = t[1]
    if f[0] == 'name':
        return f[1]
    if f[0] == 'attr':
        return f[2]
    if f[0] == 'param':
        return f[1]
    return None


def call_receiver(t):
    f = t[1]
    if f[0] == 'attr':
        return f[1]
    return None


def calls(t, name):
    """all call sub-terms whose callee is called `name`"""
    return [x for x in subterms(t) if call_name(x) == name]


def has_call(t, name):
    return any(True for _ in (x for x in subterms(t)
                              if call_name(x) == name))


def call_arg(t, pos=None, kw=None):
    """argument of a call term by position or keyword"""
    if kw is not None:
        for (k, v) in t[3]:
            if k == kw:
                return v
    if pos is not None and pos < len(t[2]):
        return t[2][pos]
    return None


def params_in(t):
    return {x[1] for x in subterms(t) if x[0] == 'param'}


def contains(t, sub):
    return any(x == sub for x in subterms(t))


def is_const(t, value=None):
    if not (isinstance(t, tuple) and t and t[0] == 'const'):
        return False
    if value is None:
        return True
    return t[1] == repr(value)


def strip_wrappers(t, names=('list', 'tuple', 'array', 'asarray', 'Path',
                             'str', 'deepcopy', 'copy')):
    """peel value-preserving wrappers: list(x), np.array(x), ..."""
    while isinstance(t, tuple) and t and t[0] == 'call' \
            and call_name(t) in names and t[2]:
        t = t[2][0]
    return t


def lt_form(t):
    """orientation-free reading of an ordering test:
    ('Lt' | 'LtE', small, big) for  small < big / small <= big, however
    it is spelled (a > b, not (a <= b), ...); None for anything else"""
    neg = False
    while isinstance(t, tuple) and t and t[0] == 'unop' and t[1] == 'Not':
        neg = not neg
        t = t[2]
    if not (isinstance(t, tuple) and t and t[0] == 'cmp'
            and len(t[1]) == 1 and len(t[3]) == 1):
        return None
    op, a, b = t[1][0], t[2], t[3][0]
    if op == 'Lt':
        r = ('Lt', a, b)
    elif op == 'LtE':
        r = ('LtE', a, b)
    elif op == 'Gt':
        r = ('Lt', b, a)
    elif op == 'GtE':
        r = ('LtE', b, a)
    else:
        return None
    if neg:
        # not (x < y)  ==  y <= x
        r = ('LtE' if r[0] == 'Lt' else 'Lt', r[2], r[1])
    return r
