"""
Polynomial normal form of symbolic terms.

Arithmetic relations in the statistics code ("the k-th smallest p-value is
multiplied by m - k + 1", "the degrees of freedom divide by n^2 (n - 1)")
can be written in many equivalent ways; comparing source text or term
shape would make a rule fire on a rewrite that changes nothing.  Here a
term built from + - * ** (constant exponent) and unary minus over
arbitrary other sub-terms (atoms) is brought to a canonical polynomial

    { monomial: coefficient }      monomial = sorted tuple of (atom, power)

so that two expressions are compared as polynomials.  Division is kept
symbolic (`('quot', num, den)` atoms are produced by `quotient`), a `phi`
of alternatives is polynomial only when all alternatives agree.

`np.arange(lo, hi)` is modelled as  lo + IOTA(hi - lo)  where IOTA(n) is
the atom standing for 0, 1, ..., n-1; `np.arange(n)` as IOTA(n).
"""
from fractions import Fraction

IOTA = 'IOTA'


class NotPolynomial(Exception):
    pass


def _const(t):
    if t[0] != 'const':
        return None
    try:
        v = Fraction(t[1])
    except (ValueError, ZeroDivisionError):
        try:
            v = Fraction(float(t[1])).limit_denominator(10**9)
        except (ValueError, OverflowError):
            return None
    return v


def _add(a, b, sign=1):
    out = dict(a)
    for m, c in b.items():
        out[m] = out.get(m, 0) + sign * c
        if out[m] == 0:
            del out[m]
    return out


def _mul(a, b):
    out = dict()
    for m1, c1 in a.items():
        for m2, c2 in b.items():
            d = dict(m1)
            for at, p in m2:
                d[at] = d.get(at, 0) + p
            m = tuple(sorted(d.items(), key=repr))
            out[m] = out.get(m, 0) + c1 * c2
            if out[m] == 0:
                del out[m]
    return out


def atom(t):
    return {((t, 1),): Fraction(1)}


def const(v):
    return {(): Fraction(v)} if v != 0 else {}


def poly(t, atoms=None):
    """polynomial of a term; `atoms(t)` may return a replacement
    polynomial for a sub-term (e.g. len(x) -> N) or None"""
    if atoms is not None:
        r = atoms(t)
        if r is not None:
            return r
    if not isinstance(t, tuple) or not t:
        raise NotPolynomial(repr(t))
    k = t[0]
    if k == 'const':
        v = _const(t)
        if v is None:
            return atom(t)
        return const(v)
    if k == 'binop':
        op = t[1]
        if op in ('Add', 'Sub'):
            return _add(poly(t[2], atoms), poly(t[3], atoms),
                        1 if op == 'Add' else -1)
        if op == 'Mult':
            return _mul(poly(t[2], atoms), poly(t[3], atoms))
        if op == 'Pow':
            e = _const(t[3]) if t[3][0] == 'const' else None
            if e is not None and e.denominator == 1 and 0 <= e <= 6:
                out = const(1)
                base = poly(t[2], atoms)
                for _ in range(int(e)):
                    out = _mul(out, base)
                return out
            return atom(t)
        return atom(t)
    if k == 'unop' and t[1] == 'USub':
        return _mul(const(-1), poly(t[2], atoms))
    if k == 'phi':
        alts = [poly(a, atoms) for a in t[1]]
        if all(a == alts[0] for a in alts):
            return alts[0]
        return atom(t)
    if k == 'call':
        f = t[1]
        nm = f[2] if f[0] == 'attr' else (f[1] if f[0] == 'name' else None)
        if nm == 'arange':
            args = [a for a in t[2]]
            if len(args) == 1:
                return atom((IOTA, _freeze(poly(args[0], atoms))))
            if len(args) == 2:
                lo = poly(args[0], atoms)
                n = _add(poly(args[1], atoms), lo, -1)
                return _add(lo, atom((IOTA, _freeze(n))))
        if nm in ('float', 'int') and len(t[2]) == 1:
            return poly(t[2][0], atoms)
        # value-preserving wrappers: np.copy(x), np.array(x), x.copy(),
        # x.astype(float)
        if nm in ('copy', 'array', 'asarray', 'deepcopy', 'astype',
                  'ascontiguousarray'):
            is_lib = f[0] == 'attr' and f[1][0] == 'name' and f[1][1] in (
                'np', 'numpy', 'torch', 'copy')
            if (is_lib or f[0] == 'name') and len(t[2]) >= 1:
                return poly(t[2][0], atoms)
            if f[0] == 'attr' and not is_lib:
                return poly(f[1], atoms)
    return atom(t)


def _freeze(p):
    return tuple(sorted(p.items(), key=repr))


def coeff(p, *atoms_):
    """coefficient of the monomial made of the given atoms (power 1
    each); () for the constant"""
    m = tuple(sorted(((a, 1) for a in atoms_), key=repr))
    return p.get(m, Fraction(0))


def iota_atoms(p):
    out = []
    for m in p:
        for (a, _pw) in m:
            if isinstance(a, tuple) and a and a[0] == IOTA:
                out.append(a)
    return out


def fmt(p):
    if not p:
        return '0'
    parts = []
    for m, c in sorted(p.items(), key=repr):
        mon = '*'.join(
            (('IOTA' if (isinstance(a, tuple) and a and a[0] == IOTA)
              else _short(a)) + (f'^{pw}' if pw != 1 else ''))
            for a, pw in m)
        parts.append(f'{c}' + (f'*{mon}' if mon else ''))
    return ' + '.join(parts)


def _short(a):
    from .defuse import fmt_term
    try:
        return fmt_term(a)[:30]
    except Exception:
        return repr(a)[:30]


def strip_guard(t):
    """`np.where(x > 0, x, c)` (a denominator protected against zero) is x
    wherever it matters; other terms are returned unchanged"""
    if isinstance(t, tuple) and t and t[0] == 'call':
        f = t[1]
        nm = f[2] if f[0] == 'attr' else (f[1] if f[0] == 'name' else None)
        if nm == 'where' and len(t[2]) == 3:
            c, a, b = t[2]
            if c[0] == 'cmp' and c[1] in (('Gt',), ('NotEq',)) \
                    and c[2] == a and b[0] == 'const':
                return a
            # np.where(x == 0, c, x)
            if c[0] == 'cmp' and c[1] == ('Eq',) and c[2] == b \
                    and a[0] == 'const':
                return b
        if nm in ('maximum', 'max') and len(t[2]) == 2:
            consts = [x for x in t[2] if x[0] == 'const']
            other = [x for x in t[2] if x[0] != 'const']
            if len(consts) == 1 and len(other) == 1:
                return other[0]
    return t


def ratio(t, atoms=None):
    """(numerator, denominator) polynomials of a term built with + - * /
    ** over atoms; zero-guards around denominators are looked through"""
    t = strip_guard(t)
    if isinstance(t, tuple) and t and t[0] == 'binop':
        op = t[1]
        if op == 'Div':
            n1, d1 = ratio(t[2], atoms)
            n2, d2 = ratio(t[3], atoms)
            return _mul(n1, d2), _mul(d1, n2)
        if op in ('Add', 'Sub'):
            n1, d1 = ratio(t[2], atoms)
            n2, d2 = ratio(t[3], atoms)
            if d1 == d2:
                return _add(n1, n2, 1 if op == 'Add' else -1), d1
            return (_add(_mul(n1, d2), _mul(n2, d1),
                         1 if op == 'Add' else -1), _mul(d1, d2))
        if op == 'Mult':
            n1, d1 = ratio(t[2], atoms)
            n2, d2 = ratio(t[3], atoms)
            return _mul(n1, n2), _mul(d1, d2)
        if op == 'Pow' and t[3][0] == 'const':
            e = _const(t[3])
            if e is not None and e.denominator == 1 and 0 <= e <= 6:
                n1, d1 = ratio(t[2], atoms)
                n, d = const(1), const(1)
                for _ in range(int(e)):
                    n, d = _mul(n, n1), _mul(d, d1)
                return n, d
    if isinstance(t, tuple) and t and t[0] == 'unop' and t[1] == 'USub':
        n1, d1 = ratio(t[2], atoms)
        return _mul(const(-1), n1), d1
    return poly(t, atoms), const(1)


def same_ratio(a, b):
    """a = (n1, d1), b = (n2, d2): equal as rational functions"""
    return _mul(a[0], b[1]) == _mul(b[0], a[1])
