"""
Facts that hold when a statement is reached.

Rules about guards ("this store happens only where the value is None",
"this raise is decided by a census of the index") must not depend on how
the guard is written:

    if x is None:              if x is not None:         if not (x is None):
        store                      continue                  continue
                               store                     store

`facts_at(cfg, rd, nid)` returns, for a CFG node, the list of
(test expression, truth value) pairs such that the node is dominated by
that outcome of the test: the target of the labelled edge is the node
itself or dominates it.  Negations are stripped (flipping the truth
value), `is not` / `!=` / `not in` are reported as the positive operator
with the opposite truth value.
"""
import ast


def _core(test, truth):
    while isinstance(test, ast.UnaryOp) and isinstance(test.op, ast.Not):
        test, truth = test.operand, not truth
    if isinstance(test, ast.Compare) and len(test.ops) == 1:
        op = test.ops[0]
        flip = {ast.IsNot: ast.Is, ast.NotEq: ast.Eq, ast.NotIn: ast.In}
        if type(op) in flip:
            new = ast.Compare(left=test.left, ops=[flip[type(op)]()],
                              comparators=test.comparators)
            ast.copy_location(new, test)
            new._parent = getattr(test, '_parent', None)
            new._orig = test
            return new, not truth
    return test, truth


def facts_at(cfg, rd, nid):
    out = []
    for g in cfg.nodes:
        if g.kind not in ('if', 'while') or g.id not in rd.live:
            continue
        for (t, lab) in cfg.succ[g.id]:
            if lab not in ('true', 'false'):
                continue
            if t == nid or cfg.dominates(t, nid):
                # the other edge must not also lead here without passing
                # the test again (it cannot, t dominates nid)
                test, truth = _core(g.ast.test, lab == 'true')
                out.append((g, test, truth))
                # a conjunction that holds: every conjunct holds; a
                # disjunction that fails: every disjunct fails
                if isinstance(test, ast.BoolOp):
                    if (isinstance(test.op, ast.And) and truth) or (
                            isinstance(test.op, ast.Or) and not truth):
                        for v in test.values:
                            tv, tr = _core(v, truth)
                            out.append((g, tv, tr))
    return out


def none_facts(cfg, rd, nid):
    """expressions known to be None / known not to be None at the node:
    ([is-None exprs], [not-None exprs])"""
    yes, no = [], []
    for (_g, test, truth) in facts_at(cfg, rd, nid):
        if isinstance(test, ast.Compare) and isinstance(
                test.ops[0], ast.Is) and isinstance(
                    test.comparators[0], ast.Constant) \
                and test.comparators[0].value is None:
            (yes if truth else no).append(test.left)
    return yes, no
