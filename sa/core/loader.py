"""
E-A, part 1: program database.

Parses every module of the analysed package (source only -- nothing is
imported or executed) and builds tables of modules, classes, functions and
imports.  All later engines work on this resolved program, never on text.
"""
import ast
import hashlib
import os
import pathlib

PKG = 'cell_type_mapper'

# sub-packages that are not pipeline code (DESIGN.md section 3, "Scope")
OUT_OF_SCOPE_DIRS = ('data', 'test_utils', 'visualization', 'evaluation')


class AnalysisError(Exception):
    """The analysis itself cannot run (exit code 2)."""


class FunctionInfo(object):
    __slots__ = ('module', 'cls', 'name', 'node', 'qual', 'params',
                 'defaults', '_cfg', '_rd', 'nested_in')

    def __init__(self, module, cls, name, node, nested_in=None):
        self.module = module
        self.cls = cls
        self.name = name
        self.node = node
        self.nested_in = nested_in
        if cls is not None:
            self.qual = f'{module.short}:{cls.name}.{name}'
        else:
            self.qual = f'{module.short}:{name}'
        a = node.args
        self.params = ([p.arg for p in a.posonlyargs]
                       + [p.arg for p in a.args]
                       + [p.arg for p in a.kwonlyargs])
        self.defaults = dict()
        pos = a.posonlyargs + a.args
        for p, d in zip(pos[len(pos)-len(a.defaults):], a.defaults):
            self.defaults[p.arg] = d
        for p, d in zip(a.kwonlyargs, a.kw_defaults):
            if d is not None:
                self.defaults[p.arg] = d
        self._cfg = None
        self._rd = None

    @property
    def is_method(self):
        return self.cls is not None

    @property
    def lineno(self):
        return self.node.lineno

    def loc(self, node=None):
        n = node if node is not None else self.node
        return f'{self.module.relpath}:{getattr(n, "lineno", 0)}'

    def __repr__(self):
        return f'<fn {self.qual}>'


class ClassInfo(object):
    __slots__ = ('module', 'name', 'node', 'methods', 'base_exprs', 'qual',
                 'class_attrs')

    def __init__(self, module, name, node):
        self.module = module
        self.name = name
        self.node = node
        self.methods = dict()
        self.base_exprs = list(node.bases)
        self.qual = f'{module.short}:{name}'
        self.class_attrs = dict()

    def __repr__(self):
        return f'<class {self.qual}>'


class ModuleInfo(object):
    def __init__(self, name, path, relpath, tree, source):
        self.name = name                # cell_type_mapper.utils.utils
        self.short = name[len(PKG)+1:] if name != PKG else ''
        self.path = path
        self.relpath = relpath          # src/cell_type_mapper/utils/utils.py
        self.tree = tree
        self.source = source
        self.functions = dict()         # top-level name -> FunctionInfo
        self.classes = dict()           # name -> ClassInfo
        self.imports = dict()           # local name -> ('module', full) |
        #                                 ('symbol', module_full, attr)
        self.globals = dict()           # NAME -> ast value (simple assigns)
        self.all_functions = []         # incl. methods and nested

    def __repr__(self):
        return f'<module {self.name}>'


_FLIP_OPS = {ast.Lt: ast.Gt, ast.Gt: ast.Lt, ast.LtE: ast.GtE,
             ast.GtE: ast.LtE, ast.Eq: ast.Eq, ast.NotEq: ast.NotEq}


def _is_literal(e):
    if isinstance(e, ast.Constant):
        return True
    if isinstance(e, ast.UnaryOp) and isinstance(
            e.op, (ast.USub, ast.UAdd)) and isinstance(
                e.operand, ast.Constant):
        return True
    return False


def _canonical_compares(tree):
    """`1 == x`, `0 < n`, `'raw' != s` are rewritten with the literal on
    the right (`x == 1`, `n > 0`, `s != 'raw'`): the rules recognise
    conditions in one orientation only.  Positions are kept."""
    for n in ast.walk(tree):
        if isinstance(n, ast.Compare) and len(n.ops) == 1 \
                and type(n.ops[0]) in _FLIP_OPS \
                and _is_literal(n.left) \
                and not _is_literal(n.comparators[0]):
            n.left, n.comparators = n.comparators[0], [n.left]
            n.ops = [_FLIP_OPS[type(n.ops[0])]()]


def _inline_return_temps(tree):
    """`t = expr; return t` (adjacent statements, t a plain local: the value
    assigned cannot be read anywhere but in that return) is rewritten to `return expr`: the
    rules that judge what a function returns then see the expression
    whether or not it was parked in a temporary first.  The `return`
    keeps its own position; the expression keeps the position it had in
    the assignment."""
    for fn in ast.walk(tree):
        if not isinstance(fn, (ast.FunctionDef, ast.AsyncFunctionDef)):
            continue
        # names that live beyond the function body or are read by a
        # nested function are left alone
        shared = set()
        for x in ast.walk(fn):
            if isinstance(x, (ast.Global, ast.Nonlocal)):
                shared |= set(x.names)
            elif x is not fn and isinstance(
                    x, (ast.FunctionDef, ast.AsyncFunctionDef, ast.Lambda)):
                shared |= {y.id for y in ast.walk(x)
                           if isinstance(y, ast.Name)}
        for node in ast.walk(fn):
            for field in ('body', 'orelse', 'finalbody'):
                stmts = getattr(node, field, None)
                if not (isinstance(stmts, list) and stmts
                        and isinstance(stmts[0], ast.stmt)):
                    continue
                i = 0
                while i + 1 < len(stmts):
                    a, b = stmts[i], stmts[i + 1]
                    if isinstance(a, ast.Assign) and len(a.targets) == 1 \
                            and isinstance(a.targets[0], ast.Name) \
                            and isinstance(b, ast.Return) \
                            and isinstance(b.value, ast.Name) \
                            and b.value.id == a.targets[0].id \
                            and b.value.id not in shared:
                        b.value = a.value
                        del stmts[i]
                        continue
                    i += 1


def _inline_condition_temps(tree):
    """`c = expr; if c:` / `if not c:` (adjacent statements, c a plain
    local that is read nowhere else) is rewritten to `if expr:` /
    `if not expr:`: the rules that recognise guards then see the test
    whether or not it was given a name first."""
    for fn in ast.walk(tree):
        if not isinstance(fn, (ast.FunctionDef, ast.AsyncFunctionDef)):
            continue
        loads, stores, shared = {}, {}, set()
        for x in ast.walk(fn):
            if isinstance(x, ast.Name):
                d = loads if isinstance(x.ctx, ast.Load) else stores
                d[x.id] = d.get(x.id, 0) + 1
            elif isinstance(x, (ast.Global, ast.Nonlocal)):
                shared |= set(x.names)
            elif x is not fn and isinstance(
                    x, (ast.FunctionDef, ast.AsyncFunctionDef, ast.Lambda)):
                shared |= {y.id for y in ast.walk(x)
                           if isinstance(y, ast.Name)}
        for node in ast.walk(fn):
            for field in ('body', 'orelse', 'finalbody'):
                stmts = getattr(node, field, None)
                if not (isinstance(stmts, list) and stmts
                        and isinstance(stmts[0], ast.stmt)):
                    continue
                i = 0
                while i + 1 < len(stmts):
                    a, b = stmts[i], stmts[i + 1]
                    if isinstance(a, ast.Assign) and len(a.targets) == 1 \
                            and isinstance(a.targets[0], ast.Name) \
                            and isinstance(b, ast.If):
                        t = a.targets[0].id
                        holder, attr = b, 'test'
                        tst = b.test
                        if isinstance(tst, ast.UnaryOp) and isinstance(
                                tst.op, ast.Not):
                            holder, attr, tst = tst, 'operand', tst.operand
                        if isinstance(tst, ast.Name) and tst.id == t \
                                and loads.get(t, 0) == 1 \
                                and stores.get(t, 0) == 1 \
                                and t not in shared:
                            setattr(holder, attr, a.value)
                            del stmts[i]
                            continue
                    i += 1


def _split_auto_fields(text):
    """pieces of a str.format template that uses only `{}` fields (doubled
    braces are literal); None for anything else"""
    pieces = ['']
    i = 0
    while i < len(text):
        ch = text[i]
        if ch == '{':
            if text[i:i + 2] == '{{':
                pieces[-1] += '{'
                i += 2
                continue
            if text[i:i + 2] == '{}':
                pieces.append('')
                i += 2
                continue
            return None
        if ch == '}':
            if text[i:i + 2] == '}}':
                pieces[-1] += '}'
                i += 2
                continue
            return None
        pieces[-1] += ch
        i += 1
    return pieces


class _FormatToFString(ast.NodeTransformer):
    """`"a {} b {}".format(x, y)` and `"a %s b %s" % (x, y)` are the
    f-string f"a {x} b {y}": rules that read interpolations (dataset
    names, column names, messages with paths) see one form"""

    def _joined(self, pieces, args, node):
        vals = []
        for k, piece in enumerate(pieces):
            if piece:
                vals.append(ast.Constant(value=piece))
            if k < len(args):
                vals.append(ast.FormattedValue(
                    value=args[k], conversion=-1, format_spec=None))
        new = ast.JoinedStr(values=vals)
        ast.copy_location(new, node)
        for v in vals:
            ast.copy_location(v, node)
        return new

    def visit_Call(self, node):
        self.generic_visit(node)
        f = node.func
        if isinstance(f, ast.Attribute) and f.attr == 'format' \
                and isinstance(f.value, ast.Constant) and isinstance(
                    f.value.value, str) and not node.keywords \
                and node.args and not any(
                    isinstance(a, ast.Starred) for a in node.args):
            pieces = _split_auto_fields(f.value.value)
            if pieces is not None and len(pieces) == len(node.args) + 1:
                return self._joined(pieces, node.args, node)
        return node

    def visit_BinOp(self, node):
        self.generic_visit(node)
        if isinstance(node.op, ast.Mod) and isinstance(
                node.left, ast.Constant) and isinstance(
                    node.left.value, str):
            text = node.left.value
            if '%' in text.replace('%s', ''):
                return node
            pieces = text.split('%s')
            args = list(node.right.elts) if isinstance(
                node.right, ast.Tuple) else [node.right]
            if len(pieces) == len(args) + 1 and not any(
                    isinstance(a, ast.Starred) for a in args) \
                    and not isinstance(node.right, (ast.Dict, ast.Name)):
                return self._joined(pieces, args, node)
        return node


def _merge_nested_ifs(tree):
    """`if a:` whose whole body is `if b: X` (neither has an else) is
    `if a and b: X`"""
    for node in ast.walk(tree):
        if isinstance(node, ast.If):
            while not node.orelse and len(node.body) == 1 and isinstance(
                    node.body[0], ast.If) and not node.body[0].orelse:
                inner = node.body[0]
                vals = []
                for t in (node.test, inner.test):
                    if isinstance(t, ast.BoolOp) and isinstance(
                            t.op, ast.And):
                        vals += t.values
                    else:
                        vals.append(t)
                new = ast.BoolOp(op=ast.And(), values=vals)
                ast.copy_location(new, node.test)
                node.test = new
                node.body = inner.body


def _merge_unpack_temps(tree):
    """`t = f(..); a = t[0]; b = t[1]` (adjacent statements, t a plain
    local used nowhere else, the subscripts 0..n-1 in order) is
    `a, b = f(..)`"""
    for fn in ast.walk(tree):
        if not isinstance(fn, (ast.FunctionDef, ast.AsyncFunctionDef)):
            continue
        counts = {}
        for x in ast.walk(fn):
            if isinstance(x, ast.Name):
                counts[x.id] = counts.get(x.id, 0) + 1
        for node in ast.walk(fn):
            for field in ('body', 'orelse', 'finalbody'):
                stmts = getattr(node, field, None)
                if not (isinstance(stmts, list) and stmts
                        and isinstance(stmts[0], ast.stmt)):
                    continue
                i = 0
                while i < len(stmts):
                    a = stmts[i]
                    if not (isinstance(a, ast.Assign) and len(
                            a.targets) == 1 and isinstance(
                                a.targets[0], ast.Name) and isinstance(
                                    a.value, ast.Call)):
                        i += 1
                        continue
                    t = a.targets[0].id
                    names = []
                    j = i + 1
                    while j < len(stmts):
                        b = stmts[j]
                        if isinstance(b, ast.Assign) and len(
                                b.targets) == 1 and isinstance(
                                    b.targets[0], ast.Name) \
                                and isinstance(b.value, ast.Subscript) \
                                and isinstance(b.value.value, ast.Name) \
                                and b.value.value.id == t and isinstance(
                                    b.value.slice, ast.Constant) \
                                and b.value.slice.value == len(names):
                            names.append(b.targets[0].id)
                            j += 1
                        else:
                            break
                    if len(names) >= 2 and counts.get(t, 0) == len(
                            names) + 1 and t not in names:
                        new = ast.Assign(
                            targets=[ast.Tuple(
                                elts=[ast.Name(id=n_, ctx=ast.Store())
                                      for n_ in names], ctx=ast.Store())],
                            value=a.value)
                        ast.copy_location(new, a)
                        ast.fix_missing_locations(new)
                        stmts[i:j] = [new]
                    i += 1


def _loops_to_comprehensions(tree):
    """`x = []` followed at once by a loop whose whole body is
    `x.append(e)` (possibly under `if c:` without else), or `x = dict()` /
    `{}` followed by a loop whose whole body is `x[k] = v`, is the
    comprehension `[e for t in it if c]` / `{k: v for t in it if c}`.  The
    loop is rewritten to the comprehension when its variables are used
    nowhere else in the function and x is not read inside the loop, so
    that rules see one form whichever way the list was built."""
    for fn in ast.walk(tree):
        if not isinstance(fn, (ast.FunctionDef, ast.AsyncFunctionDef)):
            continue
        counts = {}
        shared = set()
        for x in ast.walk(fn):
            if isinstance(x, ast.Name):
                counts[x.id] = counts.get(x.id, 0) + 1
            elif isinstance(x, ast.arg):
                counts[x.arg] = counts.get(x.arg, 0) + 1
            elif isinstance(x, (ast.Global, ast.Nonlocal)):
                shared |= set(x.names)
        for node in ast.walk(fn):
            for field in ('body', 'orelse', 'finalbody'):
                stmts = getattr(node, field, None)
                if not (isinstance(stmts, list) and stmts
                        and isinstance(stmts[0], ast.stmt)):
                    continue
                i = 0
                while i + 1 < len(stmts):
                    a, b = stmts[i], stmts[i + 1]
                    comp = _as_comprehension(a, b, counts, shared)
                    if comp is not None:
                        new = ast.Assign(targets=a.targets, value=comp)
                        ast.copy_location(new, b)
                        ast.copy_location(comp, b)
                        ast.fix_missing_locations(new)
                        stmts[i:i + 2] = [new]
                        continue
                    i += 1


def _as_comprehension(a, b, counts, shared):
    if not (isinstance(a, ast.Assign) and len(a.targets) == 1
            and isinstance(a.targets[0], ast.Name)
            and isinstance(b, ast.For) and not b.orelse):
        return None
    name = a.targets[0].id
    if name in shared:
        return None
    v = a.value
    is_list = (isinstance(v, ast.List) and not v.elts) or (
        isinstance(v, ast.Call) and isinstance(v.func, ast.Name)
        and v.func.id == 'list' and not v.args and not v.keywords)
    is_dict = (isinstance(v, ast.Dict) and not v.keys) or (
        isinstance(v, ast.Call) and isinstance(v.func, ast.Name)
        and v.func.id == 'dict' and not v.args and not v.keywords)
    if not (is_list or is_dict):
        return None
    ifs = []
    body = b.body
    while len(body) == 1 and isinstance(body[0], ast.If) \
            and not body[0].orelse:
        ifs.append(body[0].test)
        body = body[0].body
    if len(body) != 1:
        return None
    st = body[0]
    elt = key = val = None
    if is_list and isinstance(st, ast.Expr) and isinstance(
            st.value, ast.Call) and isinstance(
                st.value.func, ast.Attribute) \
            and st.value.func.attr == 'append' and isinstance(
                st.value.func.value, ast.Name) \
            and st.value.func.value.id == name \
            and len(st.value.args) == 1 and not st.value.keywords:
        elt = st.value.args[0]
    elif is_dict and isinstance(st, ast.Assign) and len(
            st.targets) == 1 and isinstance(
                st.targets[0], ast.Subscript) and isinstance(
                    st.targets[0].value, ast.Name) \
            and st.targets[0].value.id == name:
        key, val = st.targets[0].slice, st.value
    else:
        return None
    inner = [x for x in (elt, key, val, b.iter) + tuple(ifs)
             if x is not None]
    used = {}
    for e in inner + [b.target]:
        for x in ast.walk(e):
            if isinstance(x, ast.Name):
                used[x.id] = used.get(x.id, 0) + 1
            if isinstance(x, (ast.Yield, ast.YieldFrom, ast.Await,
                              ast.NamedExpr)):
                return None
    if name in used:
        return None
    tnames = {x.id for x in ast.walk(b.target) if isinstance(x, ast.Name)}
    if not tnames or any(not isinstance(x, (ast.Name, ast.Tuple, ast.List))
                         for x in ast.walk(b.target)
                         if not isinstance(x, ast.expr_context)):
        return None
    if any(counts.get(t, 0) != used.get(t, 0) or t in shared
           for t in tnames):
        return None
    gen = ast.comprehension(target=b.target, iter=b.iter, ifs=ifs,
                            is_async=0)
    for x in ast.walk(b.target):
        if isinstance(x, (ast.Name, ast.Tuple, ast.List)):
            x.ctx = ast.Store()
    if is_list:
        return ast.ListComp(elt=elt, generators=[gen])
    return ast.DictComp(key=key, value=val, generators=[gen])


def _set_parents(tree):
    for node in ast.walk(tree):
        for child in ast.iter_child_nodes(node):
            child._parent = node
    tree._parent = None


def parent(node):
    return getattr(node, '_parent', None)


def enclosing(node, types):
    n = parent(node)
    while n is not None and not isinstance(n, types):
        n = parent(n)
    return n


class ProgramDB(object):

    def __init__(self, repo_root):
        self.repo_root = pathlib.Path(repo_root)
        self.src_root = self.repo_root / 'src'
        self.pkg_root = self.src_root / PKG
        if not self.pkg_root.is_dir():
            raise AnalysisError(f'package not found at {self.pkg_root}')
        self.modules = dict()
        self.functions = dict()      # qual -> FunctionInfo
        self.classes = dict()        # qual -> ClassInfo
        self.parse_failures = []
        self._load()

    # ------------------------------------------------------------------
    def _load(self):
        for dirpath, dirnames, filenames in os.walk(self.pkg_root):
            rel = pathlib.Path(dirpath).relative_to(self.pkg_root)
            parts = rel.parts
            if parts and parts[0] in OUT_OF_SCOPE_DIRS:
                dirnames[:] = []
                continue
            dirnames.sort()
            for fn in sorted(filenames):
                if not fn.endswith('.py'):
                    continue
                path = pathlib.Path(dirpath) / fn
                self._load_module(path)
        for m in self.modules.values():
            self._index_module(m)

    def _load_module(self, path):
        rel = path.relative_to(self.src_root)
        parts = list(rel.with_suffix('').parts)
        if parts[-1] == '__init__':
            parts = parts[:-1]
        name = '.'.join(parts)
        source = path.read_text()
        try:
            tree = ast.parse(source, filename=str(path))
        except SyntaxError as e:
            self.parse_failures.append((str(path), str(e)))
            raise AnalysisError(f'cannot parse {path}: {e}')
        _canonical_compares(tree)
        _inline_return_temps(tree)
        _inline_condition_temps(tree)
        _loops_to_comprehensions(tree)
        _merge_nested_ifs(tree)
        _merge_unpack_temps(tree)
        tree = _FormatToFString().visit(tree)
        ast.fix_missing_locations(tree)
        _canonical_compares(tree)
        _set_parents(tree)
        relpath = str(path.relative_to(self.repo_root))
        self.modules[name] = ModuleInfo(name, path, relpath, tree, source)

    def _index_module(self, m):
        for node in ast.walk(m.tree):
            if isinstance(node, ast.Import):
                for a in node.names:
                    if a.asname:
                        m.imports[a.asname] = ('module', a.name)
                    else:
                        top = a.name.split('.')[0]
                        m.imports[top] = ('module', top)
            elif isinstance(node, ast.ImportFrom):
                if node.level:
                    base = m.name.split('.')
                    base = base[:len(base)-node.level]
                    mod = '.'.join(base + ([node.module] if node.module
                                           else []))
                else:
                    mod = node.module
                for a in node.names:
                    local = a.asname or a.name
                    full = f'{mod}.{a.name}'
                    if full in self.modules:
                        m.imports[local] = ('module', full)
                    else:
                        m.imports[local] = ('symbol', mod, a.name)
        self._index_body(m, m.tree.body, None, None)

    def _index_body(self, m, body, cls, nested_in):
        for node in body:
            if isinstance(node, (ast.FunctionDef, ast.AsyncFunctionDef)):
                fi = FunctionInfo(m, cls, node.name, node, nested_in)
                m.all_functions.append(fi)
                if cls is not None:
                    cls.methods[node.name] = fi
                elif nested_in is None:
                    m.functions[node.name] = fi
                if nested_in is None:
                    self.functions[fi.qual] = fi
                node._fi = fi
                # nested functions
                for sub in ast.walk(node):
                    if sub is node:
                        continue
                    if isinstance(sub, (ast.FunctionDef,
                                        ast.AsyncFunctionDef)):
                        if enclosing(sub, (ast.FunctionDef,
                                           ast.AsyncFunctionDef)) is node:
                            nfi = FunctionInfo(m, None, sub.name, sub, fi)
                            m.all_functions.append(nfi)
                            sub._fi = nfi
            elif isinstance(node, ast.ClassDef):
                if cls is None and nested_in is None:
                    ci = ClassInfo(m, node.name, node)
                    m.classes[node.name] = ci
                    self.classes[ci.qual] = ci
                    for sub in node.body:
                        if isinstance(sub, ast.Assign):
                            for t in sub.targets:
                                if isinstance(t, ast.Name):
                                    ci.class_attrs[t.id] = sub.value
                    self._index_body(m, node.body, ci, None)
            elif isinstance(node, ast.Assign) and cls is None:
                for t in node.targets:
                    if isinstance(t, ast.Name):
                        m.globals[t.id] = node.value
            elif isinstance(node, (ast.If, ast.Try)) and cls is None:
                # module-level conditional definitions (torch guards)
                for sub in ast.iter_child_nodes(node):
                    if isinstance(sub, list):
                        continue
                bodies = []
                if isinstance(node, ast.If):
                    bodies = [node.body, node.orelse]
                else:
                    bodies = [node.body, node.orelse, node.finalbody]
                    for h in node.handlers:
                        bodies.append(h.body)
                for b in bodies:
                    self._index_body(m, b, cls, nested_in)

    # ------------------------------------------------------------------
    def module(self, short):
        """module by short name ('utils.utils')"""
        full = f'{PKG}.{short}' if short else PKG
        return self.modules.get(full)

    def fn(self, qual, required=True):
        """function by 'mod.sub:func' or 'mod.sub:Class.method'"""
        f = self.functions.get(qual)
        if f is None and required:
            raise AnalysisError(f'anchor definition not found: {qual}')
        return f

    def cls(self, qual, required=True):
        c = self.classes.get(qual)
        if c is None and required:
            raise AnalysisError(f'anchor class not found: {qual}')
        return c

    def mro(self, ci):
        """linearised list of repo classes (approximate: DFS, left first)"""
        from .resolve import resolve_name_in_module
        out = []
        seen = set()

        def rec(c):
            if c.qual in seen:
                return
            seen.add(c.qual)
            out.append(c)
            for b in c.base_exprs:
                t = None
                if isinstance(b, ast.Name):
                    t = resolve_name_in_module(self, c.module, b.id)
                elif isinstance(b, ast.Attribute):
                    from .resolve import resolve_attr_chain
                    t = resolve_attr_chain(self, c.module, b)
                if isinstance(t, ClassInfo):
                    rec(t)
        rec(ci)
        return out

    def external_bases(self, ci):
        """dotted names of bases that are not repo classes"""
        from .resolve import dotted_external
        out = []
        for c in self.mro(ci):
            for b in c.base_exprs:
                d = dotted_external(self, c.module, b)
                if d:
                    out.append(d)
        return out

    def find_method(self, ci, name):
        for c in self.mro(ci):
            if name in c.methods:
                return c.methods[name]
        return None

    def iter_functions(self, in_scope=None):
        for m in self.modules.values():
            if in_scope is not None and not in_scope(m):
                continue
            for f in m.all_functions:
                yield f

    def digest(self):
        h = hashlib.sha256()
        for name in sorted(self.modules):
            h.update(name.encode())
            h.update(self.modules[name].source.encode())
        return h.hexdigest()[:16]

    def census(self):
        n_calls = 0
        for m in self.modules.values():
            for n in ast.walk(m.tree):
                if isinstance(n, ast.Call):
                    n_calls += 1
        return {
            'modules': len(self.modules),
            'functions': sum(len(m.all_functions)
                             for m in self.modules.values()),
            'classes': len(self.classes),
            'call_sites': n_calls,
            'source_digest': self.digest()}


def unparse(node):
    try:
        return ast.unparse(node)
    except Exception:
        return '<unparse failed>'
