"""
E-B: statement-level control-flow graph with NORMAL and EXC exits.

Nodes are simple statements and the headers of compound statements.  A
`finally` body is copied once per way of leaving the protected region
(normal, exception, return, break, continue), so that path queries are exact
about what runs on which exit.

Edges carry a label:
  'next' 'true' 'false' 'iter' 'exhausted' 'return' 'break' 'continue'
  'exc'      the statement may raise (any call / subscript / explicit raise)
  'dispatch' from a try's exception-dispatch node to one of its handlers
  'reraise'  from a dispatch node (no catch-all handler) or the end of an
             exception copy of a finally body to the enclosing target
"""
import ast

from .loader import unparse

CATCH_ALL = ('Exception', 'BaseException')


class Node(object):
    __slots__ = ('id', 'kind', 'ast', 'exprs', 'defs', 'copy_of', 'tag')

    def __init__(self, id, kind, astnode=None, exprs=None, tag=None):
        self.id = id
        self.kind = kind
        self.ast = astnode
        # expressions evaluated at this node (for def/use and call scans)
        self.exprs = exprs if exprs is not None else []
        self.defs = []       # list of (name, target_ast, value_ast, path)
        self.copy_of = None
        self.tag = tag

    @property
    def lineno(self):
        return getattr(self.ast, 'lineno', 0)

    def text(self):
        if self.ast is None:
            return f'<{self.kind}>'
        if self.kind in ('if', 'while'):
            return f'{self.kind} {unparse(self.ast.test)}'
        if self.kind == 'for':
            return (f'for {unparse(self.ast.target)} in '
                    f'{unparse(self.ast.iter)}')
        if self.kind == 'with':
            return 'with ' + ', '.join(unparse(i) for i in self.ast.items)
        if self.kind == 'handler':
            t = unparse(self.ast.type) if self.ast.type is not None else ''
            return f'except {t}'
        if self.kind in ('dispatch', 'join', 'try', 'with_exit'):
            return f'<{self.kind}@{self.lineno}>'
        return unparse(self.ast)

    def __repr__(self):
        return f'<N{self.id} {self.kind} L{self.lineno}>'


class _Ctx(object):
    __slots__ = ('exc', 'ret', 'brk', 'cont')

    def __init__(self, exc, ret, brk=None, cont=None):
        self.exc = exc
        self.ret = ret
        self.brk = brk
        self.cont = cont

    def replace(self, **kw):
        c = _Ctx(self.exc, self.ret, self.brk, self.cont)
        for k, v in kw.items():
            setattr(c, k, v)
        return c


def _may_raise_exprs(exprs):
    """does evaluating these expressions involve a call / subscript?"""
    for e in exprs:
        if e is None:
            continue
        for n in ast.walk(e):
            if isinstance(n, (ast.Call, ast.Subscript, ast.Await)):
                return True
            if isinstance(n, ast.BinOp) and isinstance(n.op, (ast.Div,
                                                               ast.FloorDiv,
                                                               ast.Mod)):
                return True
            if isinstance(n, (ast.Lambda, ast.FunctionDef)):
                pass
    return False


class CFG(object):

    def __init__(self, fnode):
        self.fnode = fnode
        self.nodes = []
        self.succ = dict()
        self.pred = dict()
        self.ast_to_nodes = dict()     # id(ast stmt) -> [node ids]
        self.entry = self._new('entry', fnode)
        self.exit = self._new('exit', None)
        self.exc_exit = self._new('exc_exit', None)
        ctx = _Ctx(exc=self.exc_exit, ret=self.exit)
        outs = self._block(fnode.body, [(self.entry, 'next')], ctx)
        for (n, lab) in outs:
            self._edge(n, self.exit, lab if lab != 'next' else 'fallthrough')
        self._dom = None

    # ---- construction ------------------------------------------------
    def _new(self, kind, astnode=None, exprs=None, tag=None):
        n = Node(len(self.nodes), kind, astnode, exprs, tag)
        self.nodes.append(n)
        self.succ[n.id] = []
        self.pred[n.id] = []
        if astnode is not None:
            self.ast_to_nodes.setdefault(id(astnode), []).append(n.id)
        return n.id

    def _edge(self, a, b, label):
        for (t, l) in self.succ[a]:
            if t == b and l == label:
                return
        self.succ[a].append((b, label))
        self.pred[b].append((a, label))

    def _connect(self, preds, target):
        for (p, lab) in preds:
            self._edge(p, target, lab)

    def _block(self, stmts, preds, ctx):
        """returns dangling (node, label) list"""
        cur = preds
        for s in stmts:
            if not cur:
                # unreachable code: still build it (detached) so that
                # every statement has a node
                cur = []
            cur = self._stmt(s, cur, ctx)
        return cur

    def _simple(self, s, preds, ctx, kind='stmt', exprs=None):
        if exprs is None:
            exprs = [s]
        n = self._new(kind, s, exprs)
        self._connect(preds, n)
        if _may_raise_exprs(exprs):
            self._edge(n, ctx.exc, 'exc')
        return n

    def _stmt(self, s, preds, ctx):
        if isinstance(s, ast.If):
            n = self._simple(s, preds, ctx, 'if', [s.test])
            t_out = self._block(s.body, [(n, 'true')], ctx)
            if s.orelse:
                f_out = self._block(s.orelse, [(n, 'false')], ctx)
            else:
                f_out = [(n, 'false')]
            return t_out + f_out

        if isinstance(s, (ast.For, ast.AsyncFor)):
            n = self._simple(s, preds, ctx, 'for', [s.iter])
            # iterating may raise regardless
            self._edge(n, ctx.exc, 'exc')
            after = self._new('join', s, [], tag='loop_exit')
            body_ctx = ctx.replace(brk=after, cont=n)
            b_out = self._block(s.body, [(n, 'iter')], body_ctx)
            for (p, lab) in b_out:
                # a dangling branch edge keeps its label: the false edge
                # of an `if` that ends the body is still a false edge
                self._edge(p, n, lab if lab in ('true', 'false')
                           else 'loop')
            if s.orelse:
                e_out = self._block(s.orelse, [(n, 'exhausted')], ctx)
                self._connect(e_out, after)
            else:
                self._edge(n, after, 'exhausted')
            return [(after, 'next')]

        if isinstance(s, ast.While):
            n = self._simple(s, preds, ctx, 'while', [s.test])
            after = self._new('join', s, [], tag='loop_exit')
            body_ctx = ctx.replace(brk=after, cont=n)
            b_out = self._block(s.body, [(n, 'true')], body_ctx)
            for (p, lab) in b_out:
                self._edge(p, n, lab if lab in ('true', 'false')
                           else 'loop')
            const_true = (isinstance(s.test, ast.Constant)
                          and bool(s.test.value))
            if not const_true:
                if s.orelse:
                    e_out = self._block(s.orelse, [(n, 'false')], ctx)
                    self._connect(e_out, after)
                else:
                    self._edge(n, after, 'false')
            return [(after, 'next')]

        if isinstance(s, (ast.With, ast.AsyncWith)):
            exprs = [it.context_expr for it in s.items]
            n = self._simple(s, preds, ctx, 'with', exprs)
            self._edge(n, ctx.exc, 'exc')
            b_out = self._block(s.body, [(n, 'next')], ctx)
            x = self._new('with_exit', s, [])
            self._connect(b_out, x)
            return [(x, 'next')]

        if isinstance(s, ast.Try) or s.__class__.__name__ == 'TryStar':
            return self._try(s, preds, ctx)

        if isinstance(s, ast.Return):
            n = self._simple(s, preds, ctx, 'return',
                             [s.value] if s.value is not None else [])
            self._edge(n, ctx.ret, 'return')
            return []

        if isinstance(s, ast.Raise):
            n = self._new('raise', s, [x for x in (s.exc, s.cause)
                                       if x is not None])
            self._connect(preds, n)
            self._edge(n, ctx.exc, 'exc')
            return []

        if isinstance(s, ast.Break):
            n = self._new('break', s, [])
            self._connect(preds, n)
            if ctx.brk is not None:
                self._edge(n, ctx.brk, 'break')
            return []

        if isinstance(s, ast.Continue):
            n = self._new('continue', s, [])
            self._connect(preds, n)
            if ctx.cont is not None:
                self._edge(n, ctx.cont, 'continue')
            return []

        if isinstance(s, ast.Assert):
            n = self._new('assert', s, [s.test])
            self._connect(preds, n)
            self._edge(n, ctx.exc, 'exc')
            return [(n, 'next')]

        if isinstance(s, (ast.FunctionDef, ast.AsyncFunctionDef,
                          ast.ClassDef)):
            n = self._new('def', s, [])
            self._connect(preds, n)
            return [(n, 'next')]

        if s.__class__.__name__ == 'Match':
            n = self._simple(s, preds, ctx, 'match', [s.subject])
            outs = [(n, 'nomatch')]
            for c in s.cases:
                outs += self._block(c.body, [(n, 'case')], ctx)
            return outs

        # simple statement
        n = self._simple(s, preds, ctx, 'stmt', [s])
        return [(n, 'next')]

    def _try(self, s, preds, ctx0):
        tnode = self._new('try', s, [])
        self._connect(preds, tnode)
        has_finally = bool(s.finalbody)

        if has_finally:
            # lazily built copies of the finally body, one per continuation
            copies = dict()

            def fin_entry(kind, target):
                key = (kind, target)
                if key in copies:
                    return copies[key]
                entry = self._new('join', s, [], tag=f'finally[{kind}]')
                copies[key] = entry
                outs = self._block(s.finalbody, [(entry, 'next')], ctx0)
                lab = {'normal': 'next', 'exc': 'reraise', 'ret': 'return',
                       'brk': 'break', 'cont': 'continue'}[kind]
                for (p, _l) in outs:
                    self._edge(p, target, lab)
                return entry

            after = self._new('join', s, [], tag='try_exit')
            ctx1 = _Ctx(
                exc=fin_entry('exc', ctx0.exc),
                ret=fin_entry('ret', ctx0.ret),
                brk=(fin_entry('brk', ctx0.brk)
                     if ctx0.brk is not None else None),
                cont=(fin_entry('cont', ctx0.cont)
                      if ctx0.cont is not None else None))
            normal_target = fin_entry('normal', after)
        else:
            ctx1 = ctx0
            after = self._new('join', s, [], tag='try_exit')
            normal_target = after

        if s.handlers:
            disp = self._new('dispatch', s, [])
            ctx2 = ctx1.replace(exc=disp)
        else:
            disp = None
            ctx2 = ctx1

        b_out = self._block(s.body, [(tnode, 'next')], ctx2)
        if s.orelse:
            b_out = self._block(s.orelse, b_out, ctx1)
        self._connect(b_out, normal_target)

        if disp is not None:
            catch_all = False
            for h in s.handlers:
                hn = self._new('handler', h, [])
                self._edge(disp, hn, 'dispatch')
                if h.type is None:
                    catch_all = True
                else:
                    names = []
                    if isinstance(h.type, ast.Tuple):
                        names = [unparse(e) for e in h.type.elts]
                    else:
                        names = [unparse(h.type)]
                    if any(nm in CATCH_ALL for nm in names):
                        catch_all = True
                h_out = self._block(h.body, [(hn, 'next')], ctx1)
                self._connect(h_out, normal_target)
            if not catch_all:
                self._edge(disp, ctx1.exc, 'reraise')
        return [(after, 'next')]

    # ---- queries -----------------------------------------------------
    def nodes_of(self, astnode):
        return [self.nodes[i] for i in self.ast_to_nodes.get(id(astnode), [])]

    def node_of_expr(self, e):
        """CFG nodes in which the expression `e` is evaluated"""
        n = e
        while n is not None:
            ids = self.ast_to_nodes.get(id(n))
            if ids:
                # for compound statements the header node evaluates only
                # the header expressions
                return [self.nodes[i] for i in ids
                        if self._evaluates(self.nodes[i], e)]
            n = getattr(n, '_parent', None)
        return []

    def _evaluates(self, node, e):
        if node.kind in ('join', 'try', 'dispatch', 'with_exit', 'def',
                         'entry'):
            return False
        for root in node.exprs:
            for sub in ast.walk(root):
                if sub is e:
                    return True
        if node.ast is e:
            return True
        # targets of for / with / handler
        if node.kind == 'for':
            for sub in ast.walk(node.ast.target):
                if sub is e:
                    return True
        if node.kind == 'with':
            for it in node.ast.items:
                if it.optional_vars is not None:
                    for sub in ast.walk(it.optional_vars):
                        if sub is e:
                            return True
        return False

    def reachable(self, src, avoid=None, edge_ok=None):
        """set of node ids reachable from src (list or id)"""
        if isinstance(src, int):
            src = [src]
        seen = set()
        stack = list(src)
        while stack:
            n = stack.pop()
            if n in seen:
                continue
            seen.add(n)
            for (t, lab) in self.succ[n]:
                if edge_ok is not None and not edge_ok(n, t, lab):
                    continue
                if avoid is not None and avoid(self.nodes[t]):
                    continue
                stack.append(t)
        return seen

    def path(self, src, dst_set, avoid=None, edge_ok=None):
        """shortest path (list of node ids) from src to any node in dst_set
        not passing through nodes satisfying avoid; None if none"""
        from collections import deque
        if isinstance(dst_set, int):
            dst_set = {dst_set}
        q = deque([src])
        prev = {src: None}
        while q:
            n = q.popleft()
            if n in dst_set and n != src:
                out = []
                while n is not None:
                    out.append(n)
                    n = prev[n]
                return list(reversed(out))
            for (t, lab) in self.succ[n]:
                if t in prev:
                    continue
                if edge_ok is not None and not edge_ok(n, t, lab):
                    continue
                if avoid is not None and t not in dst_set \
                        and avoid(self.nodes[t]):
                    continue
                prev[t] = n
                q.append(t)
        return None

    def must_pass(self, src, exits, pred, edge_ok=None):
        """True iff every path from src to any exit passes through a node
        satisfying pred (src itself does not count).  Returns (ok, witness)
        where witness is an offending path"""
        if isinstance(exits, int):
            exits = {exits}
        p = self.path(src, set(exits), avoid=pred, edge_ok=edge_ok)
        return (p is None), p

    def dominators(self):
        if self._dom is not None:
            return self._dom
        # iterative dominator sets; graphs are small
        all_ids = set(self.reachable(self.entry))
        dom = {n: set(all_ids) for n in all_ids}
        dom[self.entry] = {self.entry}
        order = sorted(all_ids)
        changed = True
        while changed:
            changed = False
            for n in order:
                if n == self.entry:
                    continue
                ps = [p for (p, _l) in self.pred[n] if p in all_ids]
                if not ps:
                    continue
                new = set(all_ids)
                for p in ps:
                    new &= dom[p]
                new.add(n)
                if new != dom[n]:
                    dom[n] = new
                    changed = True
        self._dom = dom
        return dom

    def dominates(self, a, b):
        """node id a dominates node id b"""
        d = self.dominators()
        return b in d and a in d[b]

    def fmt_path(self, path, relpath=''):
        out = []
        for i in path:
            n = self.nodes[i]
            if n.kind in ('join', 'try', 'with_exit'):
                continue
            if n.kind == 'exit':
                out.append('NORMAL-EXIT')
            elif n.kind == 'exc_exit':
                out.append('EXC-EXIT')
            elif n.kind == 'entry':
                out.append('ENTRY')
            else:
                t = n.text().replace('\n', ' ')
                if len(t) > 70:
                    t = t[:67] + '...'
                out.append(f'L{n.lineno}:{t}')
        return out

    def calls_in(self, node):
        """ast.Call nodes evaluated at CFG node (not inside lambdas/defs)"""
        out = []
        for root in node.exprs:
            if root is None:
                continue
            stack = [root]
            while stack:
                x = stack.pop()
                if isinstance(x, (ast.Lambda, ast.FunctionDef,
                                  ast.AsyncFunctionDef, ast.ClassDef)) \
                        and x is not root:
                    continue
                if isinstance(x, ast.Call):
                    out.append(x)
                stack.extend(ast.iter_child_nodes(x))
        return out


def cfg_of(fi):
    if fi._cfg is None:
        fi._cfg = CFG(fi.node)
    return fi._cfg
