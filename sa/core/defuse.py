"""
Reaching definitions over the CFG and symbolic expansion of expressions
("light SSA").  expand(expr) rewrites an expression into a term over
parameters, constants, calls and loop elements by following unique reaching
definitions; two uses are "the same value" when their terms are equal.
"""
import ast

from .cfg import cfg_of
from .loader import unparse


class Def(object):
    __slots__ = ('id', 'name', 'node', 'kind', 'value', 'path', 'target',
                 'stmt')

    def __init__(self, id, name, node, kind, value=None, path=(),
                 target=None, stmt=None):
        self.id = id
        self.name = name
        self.node = node        # cfg node id
        self.kind = kind        # param assign aug for with handler import
        #                         def walrus del
        self.value = value      # ast expr (assign/aug/for iter/with ctx)
        self.path = path        # unpacking path
        self.target = target
        self.stmt = stmt

    def __repr__(self):
        return f'<Def {self.name}@{self.node} {self.kind}>'


def _flatten_target(t, path=()):
    """yield (target_node, path) for Name/Attribute/Subscript leaves"""
    if isinstance(t, (ast.Tuple, ast.List)):
        for i, e in enumerate(t.elts):
            if isinstance(e, ast.Starred):
                yield from _flatten_target(e.value, path + (('star', i),))
            else:
                yield from _flatten_target(e, path + (i,))
    else:
        yield t, path


MUTATING_METHODS = {
    'append', 'extend', 'insert', 'pop', 'remove', 'clear', 'sort',
    'reverse', 'update', 'add', 'discard', 'setdefault', 'popitem',
    'fill', 'resize', 'put', 'itemset', 'shuffle'}


IMPURE_CALLS = {
    'choice', 'permutation', 'integers', 'randint', 'random', 'shuffle',
    'normal', 'uniform', 'sample', 'choices', 'mkdtemp', 'mkstemp',
    'mkstemp_clean', 'time', 'now', 'get_timestamp', 'getpid', 'urandom',
    'uuid4', 'perf_counter'}


class ReachingDefs(object):

    def __init__(self, fi):
        self.fi = fi
        self.cfg = cfg_of(fi)
        self.defs = []
        self.node_defs = dict()    # cfg node id -> [Def]
        self.muts = dict()         # name -> [(cfg node id, ast, how)]
        self._collect()
        self._solve()

    def _add(self, nid, name, kind, value=None, path=(), target=None,
             stmt=None):
        d = Def(len(self.defs), name, nid, kind, value, path, target, stmt)
        self.defs.append(d)
        self.node_defs.setdefault(nid, []).append(d)
        return d

    def _mut(self, nid, name, astnode, how):
        self.muts.setdefault(name, []).append((nid, astnode, how))

    def _collect(self):
        cfg = self.cfg
        live = cfg.reachable(cfg.entry)
        self.live = live
        for n in cfg.nodes:
            if n.kind == 'entry':
                a = self.fi.node.args
                for p in (a.posonlyargs + a.args + a.kwonlyargs):
                    self._add(n.id, p.arg, 'param')
                if a.vararg:
                    self._add(n.id, a.vararg.arg, 'param')
                if a.kwarg:
                    self._add(n.id, a.kwarg.arg, 'param')
                continue
            s = n.ast
            if n.kind == 'stmt':
                if isinstance(s, ast.Assign):
                    for t in s.targets:
                        for leaf, path in _flatten_target(t):
                            self._target(n.id, leaf, 'assign', s.value,
                                         path, s)
                elif isinstance(s, ast.AnnAssign):
                    if s.value is not None:
                        for leaf, path in _flatten_target(s.target):
                            self._target(n.id, leaf, 'assign', s.value,
                                         path, s)
                elif isinstance(s, ast.AugAssign):
                    for leaf, path in _flatten_target(s.target):
                        self._target(n.id, leaf, 'aug', s.value, path, s)
                elif isinstance(s, (ast.Import, ast.ImportFrom)):
                    for a in s.names:
                        nm = (a.asname or a.name).split('.')[0]
                        self._add(n.id, nm, 'import', stmt=s)
                elif isinstance(s, ast.Delete):
                    for t in s.targets:
                        if isinstance(t, ast.Name):
                            self._add(n.id, t.id, 'del', stmt=s)
                        elif isinstance(t, ast.Subscript):
                            b = _base_name(t)
                            if b:
                                self._mut(n.id, b, s, 'del-item')
            elif n.kind == 'for':
                for leaf, path in _flatten_target(s.target):
                    self._target(n.id, leaf, 'for', s.iter, path, s)
            elif n.kind == 'with':
                for it in s.items:
                    if it.optional_vars is not None:
                        for leaf, path in _flatten_target(it.optional_vars):
                            self._target(n.id, leaf, 'with',
                                         it.context_expr, path, s)
            elif n.kind == 'handler':
                if s.name:
                    self._add(n.id, s.name, 'handler', stmt=s)
            elif n.kind == 'def':
                self._add(n.id, s.name, 'def', stmt=s)
            # walrus and mutating method calls anywhere in the node
            for root in n.exprs:
                if root is None:
                    continue
                for sub in ast.walk(root):
                    if isinstance(sub, ast.NamedExpr):
                        self._add(n.id, sub.target.id, 'walrus', sub.value,
                                  stmt=s)
                    elif isinstance(sub, ast.Call) and isinstance(
                            sub.func, ast.Attribute):
                        if sub.func.attr in MUTATING_METHODS:
                            b = _base_name(sub.func.value)
                            if b and b not in self.fi.module.imports:
                                self._mut(n.id, b, sub, sub.func.attr)

    def _target(self, nid, leaf, kind, value, path, stmt):
        if isinstance(leaf, ast.Name):
            self._add(nid, leaf.id, kind, value, path, leaf, stmt)
        elif isinstance(leaf, (ast.Subscript, ast.Attribute)):
            b = _base_name(leaf)
            if b:
                how = ('store-item' if isinstance(leaf, ast.Subscript)
                       else 'store-attr')
                self._mut(nid, b, stmt, how)

    def _solve(self):
        cfg = self.cfg
        ids = sorted(self.live)
        IN = {i: dict() for i in ids}
        OUT = {i: dict() for i in ids}
        work = list(ids)
        inwork = set(work)
        while work:
            n = work.pop(0)
            inwork.discard(n)
            # join
            new_in = dict()
            for (p, _lab) in cfg.pred[n]:
                if p not in OUT:
                    continue
                for name, ds in OUT[p].items():
                    if name in new_in:
                        if new_in[name] is not ds:
                            new_in[name] = new_in[name] | ds
                    else:
                        new_in[name] = ds
            IN[n] = new_in
            out = dict(new_in)
            # exceptional edges leave before the assignment takes effect,
            # but joining both is conservative enough for our uses
            for d in self.node_defs.get(n, []):
                out[d.name] = frozenset([d.id])
            if out != OUT[n]:
                OUT[n] = out
                for (t, _lab) in cfg.succ[n]:
                    if t in IN and t not in inwork:
                        work.append(t)
                        inwork.add(t)
        self.IN = IN
        self.OUT = OUT

    # ------------------------------------------------------------------
    def reaching(self, name, nid):
        """Defs of `name` reaching the *start* of cfg node nid"""
        ds = self.IN.get(nid, {}).get(name, frozenset())
        return [self.defs[i] for i in sorted(ds)]

    def reaching_at_expr(self, name_node):
        """Defs reaching a Name load (all cfg copies joined)"""
        out = dict()
        for n in self.cfg.node_of_expr(name_node):
            if n.id not in self.live:
                continue
            for d in self.reaching(name_node.id, n.id):
                out[d.id] = d
        return [out[k] for k in sorted(out)]

    def uses_of(self, d):
        """Name-load ast nodes that `d` reaches"""
        out = []
        for n in self.cfg.nodes:
            if n.id not in self.live:
                continue
            ds = self.IN[n.id].get(d.name)
            if not ds or d.id not in ds:
                continue
            for root in _node_use_roots(n):
                for sub in ast.walk(root):
                    if isinstance(sub, ast.Name) and sub.id == d.name \
                            and isinstance(sub.ctx, ast.Load):
                        out.append((n, sub))
        return out

    def mutations(self, name):
        return [m for m in self.muts.get(name, []) if m[0] in self.live]


def _node_use_roots(n):
    roots = list(n.exprs)
    return [r for r in roots if r is not None]


def _base_name(e):
    while isinstance(e, (ast.Subscript, ast.Attribute)):
        e = e.value
    if isinstance(e, ast.Name):
        return e.id
    return None


def rd_of(fi):
    if fi._rd is None:
        fi._rd = ReachingDefs(fi)
    return fi._rd


# ----------------------------------------------------------------------
# symbolic expansion
# ----------------------------------------------------------------------

class Expander(object):
    """
    expand(expr, at) -> hashable term.  `at` is a cfg node id; if None the
    cfg nodes evaluating the expression are used (terms of all copies must
    agree, else a phi is produced).
    """

    def __init__(self, fi, max_depth=12):
        self.fi = fi
        self.rd = rd_of(fi)
        self.cfg = self.rd.cfg
        self.max_depth = max_depth
        self._comp_bound = None

    def expand(self, e, at=None, depth=0, _stack=()):
        if e is None:
            return ('const', 'None')
        if at is None:
            nodes = [n.id for n in self.cfg.node_of_expr(e)
                     if n.id in self.rd.live]
            if not nodes:
                return ('opaque', unparse(e))
            terms = {self._exp(e, a, depth, _stack) for a in nodes}
            if len(terms) == 1:
                return next(iter(terms))
            return ('phi', frozenset(terms))
        return self._exp(e, at, depth, _stack)

    def _exp(self, e, at, depth, stack):
        X = lambda x: self._exp(x, at, depth, stack)   # noqa: E731
        if e is None:
            return ('const', 'None')
        if isinstance(e, ast.Constant):
            return ('const', repr(e.value))
        if isinstance(e, ast.Name):
            return self._name(e, at, depth, stack)
        if isinstance(e, ast.Attribute):
            return ('attr', X(e.value), e.attr)
        if isinstance(e, ast.Subscript):
            st = self._dict_store_lookup(e.value, e.slice, at, depth, stack)
            if st is not None:
                return st
            return _norm_sub(X(e.value), X(e.slice))
        if isinstance(e, ast.Slice):
            return ('slice', X(e.lower), X(e.upper), X(e.step))
        if isinstance(e, ast.Tuple):
            return ('tuple', tuple(X(x) for x in e.elts))
        if isinstance(e, ast.List):
            return ('list', tuple(X(x) for x in e.elts))
        if isinstance(e, ast.Set):
            return ('set', tuple(X(x) for x in e.elts))
        if isinstance(e, ast.Dict):
            return ('dict', tuple(
                (X(k) if k is not None else ('const', '**'), X(v))
                for k, v in zip(e.keys, e.values)))
        if isinstance(e, ast.Call):
            if isinstance(e.func, ast.Attribute) and e.func.attr == 'get' \
                    and len(e.args) == 1 and not e.keywords:
                st = self._dict_store_lookup(e.func.value, e.args[0], at,
                                             depth, stack)
                if st is not None:
                    return st
            kws = tuple(sorted((kw.arg or '**', X(kw.value))
                               for kw in e.keywords))
            fn = e.func
            nm = fn.attr if isinstance(fn, ast.Attribute) else (
                fn.id if isinstance(fn, ast.Name) else None)
            if nm in IMPURE_CALLS:
                # two calls of a sampler / clock / temp-name generator are
                # not the same value: the term carries its call site
                kws = kws + (('@site', ('const', f'{e.lineno}:'
                                        f'{e.col_offset}')),)
            return ('call', X(e.func),
                    tuple(X(a) for a in e.args), kws)
        if isinstance(e, ast.BinOp):
            return ('binop', type(e.op).__name__, X(e.left), X(e.right))
        if isinstance(e, ast.UnaryOp):
            return ('unop', type(e.op).__name__, X(e.operand))
        if isinstance(e, ast.BoolOp):
            return ('boolop', type(e.op).__name__,
                    tuple(X(v) for v in e.values))
        if isinstance(e, ast.Compare):
            return ('cmp', tuple(type(o).__name__ for o in e.ops),
                    X(e.left), tuple(X(c) for c in e.comparators))
        if isinstance(e, ast.IfExp):
            return ('ifexp', X(e.test), X(e.body), X(e.orelse))
        if isinstance(e, ast.Starred):
            return ('star', X(e.value))
        if isinstance(e, ast.JoinedStr):
            return ('fstr', tuple(X(v) for v in e.values))
        if isinstance(e, ast.FormattedValue):
            return ('fmt', X(e.value))
        if isinstance(e, (ast.ListComp, ast.SetComp, ast.GeneratorExp,
                          ast.DictComp)):
            return self._comp(e, at, depth, stack)
        if isinstance(e, ast.NamedExpr):
            return X(e.value)
        if isinstance(e, ast.Lambda):
            return ('lambda', unparse(e))
        return ('opaque', unparse(e))

    def _dict_store_lookup(self, base, key, at, depth, stack):
        """X['k'] where X is a local dict filled by `X['k'] = v` stores:
        the value(s) stored under that constant key"""
        if not (isinstance(base, ast.Name) and isinstance(key, ast.Constant)
                and isinstance(key.value, str)):
            return None
        if depth >= self.max_depth:
            return None
        ds = self.rd.reaching(base.id, at)
        if not ds or any(d.kind != 'assign' for d in ds):
            return None
        for d in ds:
            v = d.value
            is_dict = isinstance(v, ast.Dict) or (
                isinstance(v, ast.Call) and isinstance(v.func, ast.Name)
                and v.func.id == 'dict' and not v.args)
            if not is_dict or d.path:
                return None
        terms = set()
        def_nodes = {d.node for d in ds}
        for (nid, astn, how) in self.rd.mutations(base.id):
            if how != 'store-item' or not isinstance(astn, ast.Assign):
                continue
            for t in astn.targets:
                if isinstance(t, ast.Subscript) and isinstance(
                        t.value, ast.Name) and t.value.id == base.id \
                        and isinstance(t.slice, ast.Constant) \
                        and t.slice.value == key.value:
                    # the store must happen after the dict was created
                    if any(dn in self.cfg.reachable(nid) and dn != nid
                           and not self.cfg.dominates(dn, nid)
                           for dn in def_nodes):
                        pass
                    terms.add(self._exp(astn.value, nid, depth+1, stack))
        for d in ds:
            v = d.value
            if isinstance(v, ast.Dict):
                for k, val in zip(v.keys, v.values):
                    if isinstance(k, ast.Constant) and k.value == key.value:
                        terms.add(self._exp(val, d.node, depth+1, stack))
            elif isinstance(v, ast.Call):
                for kw in v.keywords:
                    if kw.arg == key.value:
                        terms.add(self._exp(kw.value, d.node, depth+1,
                                            stack))
        if not terms:
            return None
        if len(terms) == 1:
            return next(iter(terms))
        return ('phi', frozenset(terms))

    def _comp(self, e, at, depth, stack):
        # comprehension variables are bound locally: expand with a marker
        bound = set()
        for g in e.generators:
            for leaf, _p in _flatten_target(g.target):
                if isinstance(leaf, ast.Name):
                    bound.add(leaf.id)
        old = self._comp_bound
        self._comp_bound = (old or set()) | bound
        try:
            gens = tuple(
                (unparse(g.target), self._exp(g.iter, at, depth, stack),
                 tuple(self._exp(c, at, depth, stack) for c in g.ifs))
                for g in e.generators)
            if isinstance(e, ast.DictComp):
                body = (self._exp(e.key, at, depth, stack),
                        self._exp(e.value, at, depth, stack))
            else:
                body = self._exp(e.elt, at, depth, stack)
        finally:
            self._comp_bound = old
        return ('comp', type(e).__name__, body, gens)

    def _name(self, e, at, depth, stack):
        name = e.id
        if self._comp_bound and name in self._comp_bound:
            return ('compvar', name)
        ds = self.rd.reaching(name, at)
        # a definition made by this very node does not reach its own uses
        if not ds:
            return ('name', name)
        if depth >= self.max_depth:
            return ('var', name, tuple(d.id for d in ds))
        terms = set()
        for d in ds:
            terms.add(self._def_term(d, depth, stack))
        if len(terms) == 1:
            return next(iter(terms))
        return ('phi', frozenset(terms))

    def _def_term(self, d, depth, stack):
        if d.kind == 'param':
            return ('param', d.name)
        if d.id in stack:
            return ('rec', d.name)
        st = stack + (d.id,)
        if d.kind in ('assign', 'walrus'):
            v = self._exp(d.value, d.node, depth+1, st)
            return _apply_path(v, d.path)
        if d.kind == 'aug':
            # old value (+op) new
            old = self._name(ast.Name(id=d.name, ctx=ast.Load()), d.node,
                             depth+1, st)
            v = self._exp(d.value, d.node, depth+1, st)
            return ('aug', type(d.stmt.op).__name__, old, v)
        if d.kind == 'for':
            it = self._exp(d.value, d.node, depth+1, st)
            return _apply_path(('iterelem', it), d.path)
        if d.kind == 'with':
            c = self._exp(d.value, d.node, depth+1, st)
            return _apply_path(('ctx', c), d.path)
        if d.kind == 'import':
            return ('name', d.name)
        if d.kind == 'def':
            return ('name', d.name)
        if d.kind == 'del':
            return ('deleted', d.name)
        return ('opaque', f'{d.kind}:{d.name}')


def _apply_path(term, path):
    for p in path:
        if isinstance(p, tuple):      # starred
            term = ('starsub', term, p[1])
        else:
            term = _norm_sub(term, ('const', repr(p)))
    return term


def _norm_sub(base, idx):
    if base[0] in ('tuple', 'list') and idx[0] == 'const':
        try:
            i = int(idx[1])
            elts = base[1]
            if -len(elts) <= i < len(elts):
                return elts[i]
        except ValueError:
            pass
    if base[0] == 'dict' and idx[0] == 'const':
        for k, v in base[1]:
            if k == idx:
                return v
    return ('sub', base, idx)


def term_contains(term, pred):
    """does any sub-term satisfy pred?"""
    if pred(term):
        return True
    if isinstance(term, tuple):
        for x in term:
            if isinstance(x, (tuple, frozenset)) and term_contains(x, pred):
                return True
    elif isinstance(term, frozenset):
        for x in term:
            if term_contains(x, pred):
                return True
    return False


def term_alts(term):
    """alternatives of a phi (a single-element list otherwise)"""
    if isinstance(term, tuple) and term and term[0] == 'phi':
        out = []
        for t in term[1]:
            out.extend(term_alts(t))
        return out
    return [term]


def fmt_term(t, depth=0):
    if depth > 6:
        return '...'
    if isinstance(t, frozenset):
        return '{' + ' | '.join(sorted(fmt_term(x, depth+1)
                                        for x in t)) + '}'
    if not isinstance(t, tuple) or not t:
        return str(t)
    k = t[0]
    F = lambda x: fmt_term(x, depth+1)   # noqa: E731
    if not isinstance(k, str):
        return '(' + ', '.join(F(x) for x in t) + ')'
    if k == 'comp':
        gens = '; '.join(f'for {g[0]} in {F(g[1])}' for g in t[3])
        return f'[{F(t[2])} {gens}]'
    if k == 'param':
        return f'<param {t[1]}>'
    if k == 'const':
        return t[1]
    if k == 'name':
        return t[1]
    if k == 'compvar':
        return t[1]
    if k == 'attr':
        return f'{F(t[1])}.{t[2]}'
    if k == 'sub':
        return f'{F(t[1])}[{F(t[2])}]'
    if k == 'slice':
        return ':'.join('' if x == ('const', 'None') else F(x)
                        for x in t[1:])
    if k == 'call':
        args = [F(a) for a in t[2]] + [f'{kw}={F(v)}' for kw, v in t[3]]
        return f'{F(t[1])}({", ".join(args)})'
    if k == 'iterelem':
        return f'elem({F(t[1])})'
    if k == 'ctx':
        return f'ctx({F(t[1])})'
    if k == 'phi':
        return 'phi{' + ' | '.join(sorted(F(x) for x in t[1])) + '}'
    if k in ('tuple', 'list', 'set'):
        return k + '(' + ', '.join(F(x) for x in t[1]) + ')'
    if k == 'binop':
        return f'({F(t[2])} {t[1]} {F(t[3])})'
    if k == 'rec':
        return f'<rec {t[1]}>'
    if k == 'var':
        return f'<var {t[1]}>'
    return k + '(' + ', '.join(
        F(x) if isinstance(x, (tuple, frozenset)) else str(x)
        for x in t[1:]) + ')'
