"""
E-A, part 2: name and call resolution over the program database.

A call resolves to one of
  FunctionInfo            a function / method defined in the package
  ClassInfo               a constructor call of a package class
  ('ext', 'numpy.sort')   a known external, by dotted name
  ('builtin', 'len')
  ('method', 'append')    a method call on a receiver we do not type
  None                    unresolved
"""
import ast
import builtins
import json
import pathlib

from .loader import (ClassInfo, FunctionInfo, ModuleInfo, PKG, parent,
                     enclosing, AnalysisError)

_BUILTINS = set(dir(builtins))

_SPEC_DIR = pathlib.Path(__file__).resolve().parent.parent / 'specs'


def _load_param_classes():
    p = _SPEC_DIR / 'param_classes.json'
    if p.is_file():
        return json.loads(p.read_text())
    return {}


PARAM_CLASSES = _load_param_classes()


def resolve_name_in_module(db, m, name):
    """what does a bare name denote at module scope of m?"""
    if name in m.functions:
        return m.functions[name]
    if name in m.classes:
        return m.classes[name]
    imp = m.imports.get(name)
    if imp is None:
        return None
    if imp[0] == 'module':
        full = imp[1]
        if full in db.modules:
            return db.modules[full]
        return ('extmod', full)
    _, mod, attr = imp
    if mod in db.modules:
        tm = db.modules[mod]
        if attr in tm.functions:
            return tm.functions[attr]
        if attr in tm.classes:
            return tm.classes[attr]
        # re-exported symbol
        sub = resolve_name_in_module(db, tm, attr)
        if sub is not None:
            return sub
        if attr in tm.globals:
            return ('global', tm, attr)
        return None
    return ('ext', f'{mod}.{attr}')


def resolve_attr_chain(db, m, node):
    """resolve a.b.c where a is a module alias"""
    parts = []
    n = node
    while isinstance(n, ast.Attribute):
        parts.append(n.attr)
        n = n.value
    if not isinstance(n, ast.Name):
        return None
    parts.reverse()
    base = resolve_name_in_module(db, m, n.id)
    cur = base
    for i, p in enumerate(parts):
        if isinstance(cur, ModuleInfo):
            full = f'{cur.name}.{p}'
            if full in db.modules:
                cur = db.modules[full]
                continue
            nxt = resolve_name_in_module(db, cur, p)
            cur = nxt
        elif isinstance(cur, tuple) and cur[0] == 'extmod':
            cur = ('extmod', f'{cur[1]}.{p}')
        elif isinstance(cur, tuple) and cur[0] == 'ext':
            cur = ('ext', f'{cur[1]}.{p}')
        elif isinstance(cur, ClassInfo):
            meth = db.find_method(cur, p)
            if meth is not None:
                cur = meth
            elif p in cur.class_attrs:
                cur = ('classattr', cur, p)
            else:
                return None
        else:
            return None
    if isinstance(cur, tuple) and cur[0] == 'extmod':
        return ('ext', cur[1])
    return cur


def dotted_external(db, m, node):
    t = None
    if isinstance(node, ast.Name):
        t = resolve_name_in_module(db, m, node.id)
    elif isinstance(node, ast.Attribute):
        t = resolve_attr_chain(db, m, node)
    if isinstance(t, tuple) and t[0] in ('ext', 'extmod'):
        return t[1]
    return None


def dotted(node):
    parts = []
    n = node
    while isinstance(n, ast.Attribute):
        parts.append(n.attr)
        n = n.value
    if isinstance(n, ast.Name):
        parts.append(n.id)
        return '.'.join(reversed(parts))
    return None


class LocalTypes(object):
    """
    Very small local type inference: variable -> ClassInfo, from constructor
    assignments, factory calls with a return-class summary, the repo's
    parameter naming convention and attributes set in __init__.
    Flow-insensitive; a variable bound to two different classes is untyped.
    """

    def __init__(self, db, fi):
        self.db = db
        self.fi = fi
        self.types = dict()
        self._conflict = set()
        for p in fi.params:
            c = self._param_class(p)
            if c is not None:
                self._bind(p, c)
        for node in ast.walk(fi.node):
            if isinstance(node, ast.Assign) and len(node.targets) == 1:
                t = node.targets[0]
                if isinstance(t, ast.Name):
                    c = self.class_of_expr(node.value)
                    if c is not None:
                        self._bind(t.id, c)
            elif isinstance(node, ast.With):
                for it in node.items:
                    if isinstance(it.optional_vars, ast.Name):
                        c = self.class_of_expr(it.context_expr)
                        if c is not None:
                            self._bind(it.optional_vars.id, c)

    def _param_class(self, p):
        q = PARAM_CLASSES.get(p)
        if q is None:
            return None
        return self.db.classes.get(q)

    def _bind(self, name, c):
        if name in self._conflict:
            return
        if name in self.types and self.types[name] is not c:
            # param convention gives way to nothing: conflict -> untyped
            del self.types[name]
            self._conflict.add(name)
            return
        self.types[name] = c

    def class_of_expr(self, e):
        db = self.db
        if isinstance(e, ast.Name):
            if e.id == 'self' and self.fi.cls is not None:
                return self.fi.cls
            return self.types.get(e.id)
        if isinstance(e, ast.Call):
            t = resolve_callee(db, self.fi, e, self)
            if isinstance(t, ClassInfo):
                return t
            if isinstance(t, FunctionInfo):
                return return_class(db, t)
            return None
        if isinstance(e, ast.Attribute):
            if isinstance(e.value, ast.Name) and e.value.id == 'self' \
                    and self.fi.cls is not None:
                return self_attr_class(db, self.fi.cls, e.attr)
            base = self.class_of_expr(e.value)
            if base is not None:
                return self_attr_class(db, base, e.attr)
        if isinstance(e, ast.Subscript):
            # dict of known objects: config-like containers are untyped
            return None
        return None


_RETURN_CLASS_CACHE = dict()
_SELF_ATTR_CACHE = dict()
_LT_CACHE = dict()


_EXTRA_CACHES = []


def register_cache(d):
    """module-level caches of rule modules: cleared before every analysis,
    so that nothing computed on one tree leaks into the analysis of
    another (the self-test analyses many trees in one process)"""
    _EXTRA_CACHES.append(d)
    return d


def clear_caches():
    _RETURN_CLASS_CACHE.clear()
    _SELF_ATTR_CACHE.clear()
    _LT_CACHE.clear()
    for d in _EXTRA_CACHES:
        d.clear()


def local_types(db, fi):
    key = id(fi)
    lt = _LT_CACHE.get(key)
    if lt is None:
        # guard against recursion: install a placeholder first
        _LT_CACHE[key] = _EmptyLT()
        lt = LocalTypes(db, fi)
        _LT_CACHE[key] = lt
    return lt


class _EmptyLT(object):
    types = {}

    def class_of_expr(self, e):
        return None


def return_class(db, fi):
    """ClassInfo if every `return` of fi returns an instance of one class"""
    key = id(fi)
    if key in _RETURN_CLASS_CACHE:
        return _RETURN_CLASS_CACHE[key]
    _RETURN_CLASS_CACHE[key] = None
    found = set()
    ok = True
    lt = local_types(db, fi)
    for node in ast.walk(fi.node):
        if isinstance(node, ast.Return) and node.value is not None:
            if enclosing(node, (ast.FunctionDef, ast.AsyncFunctionDef)) \
                    is not fi.node:
                continue
            v = node.value
            c = None
            if isinstance(v, ast.Call) and isinstance(v.func, ast.Name) \
                    and v.func.id == 'cls' and fi.cls is not None:
                c = fi.cls
            else:
                c = lt.class_of_expr(v)
            if c is None:
                ok = False
            else:
                found.add(c)
    res = None
    if ok and len(found) == 1:
        res = next(iter(found))
    _RETURN_CLASS_CACHE[key] = res
    return res


def self_attr_class(db, ci, attr):
    key = (ci.qual, attr)
    if key in _SELF_ATTR_CACHE:
        return _SELF_ATTR_CACHE[key]
    _SELF_ATTR_CACHE[key] = None
    res = None
    for c in db.mro(ci):
        for meth in c.methods.values():
            for node in ast.walk(meth.node):
                if isinstance(node, ast.Assign):
                    for t in node.targets:
                        if (isinstance(t, ast.Attribute)
                                and isinstance(t.value, ast.Name)
                                and t.value.id == 'self'
                                and t.attr == attr):
                            lt = local_types(db, meth)
                            cc = lt.class_of_expr(node.value)
                            if cc is not None:
                                res = cc
        # property returning a typed attr
        if attr in c.methods:
            m = c.methods[attr]
            if any(isinstance(d, ast.Name) and d.id == 'property'
                   for d in m.node.decorator_list):
                rc = return_class(db, m)
                if rc is not None:
                    res = rc
    _SELF_ATTR_CACHE[key] = res
    return res


def resolve_callee(db, fi, call, lt=None):
    """resolve the callee of `call` occurring in function (or module) fi"""
    if isinstance(fi, ModuleInfo):
        m = fi
        fn = None
    else:
        m = fi.module
        fn = fi
    f = call.func
    if isinstance(f, ast.Name):
        name = f.id
        # nested function defined in enclosing function?
        if fn is not None:
            for sub in m.all_functions:
                if sub.nested_in is fn and sub.name == name:
                    return sub
            if fn.nested_in is not None:
                for sub in m.all_functions:
                    if sub.nested_in is fn.nested_in and sub.name == name:
                        return sub
            if name == 'cls' and fn.cls is not None:
                return fn.cls
        t = resolve_name_in_module(db, m, name)
        if isinstance(t, (FunctionInfo, ClassInfo)):
            return t
        if isinstance(t, tuple) and t[0] == 'ext':
            return t
        if t is None and name in _BUILTINS:
            return ('builtin', name)
        return None
    if isinstance(f, ast.Attribute):
        # super().m()
        if (isinstance(f.value, ast.Call)
                and isinstance(f.value.func, ast.Name)
                and f.value.func.id == 'super' and fn is not None
                and fn.cls is not None):
            mro = db.mro(fn.cls)[1:]
            for c in mro:
                if f.attr in c.methods:
                    return c.methods[f.attr]
            return ('method', f.attr)
        # cls.method(...) inside a classmethod
        if isinstance(f.value, ast.Name) and f.value.id == 'cls' \
                and fn is not None and fn.cls is not None:
            meth = db.find_method(fn.cls, f.attr)
            if meth is not None:
                return meth
        # module alias / class attribute chains
        t = resolve_attr_chain(db, m, f)
        if isinstance(t, (FunctionInfo, ClassInfo)):
            return t
        if isinstance(t, tuple) and t[0] == 'ext':
            return t
        # typed receiver
        if fn is not None:
            if lt is None:
                lt = local_types(db, fn)
            c = lt.class_of_expr(f.value)
            if c is not None:
                meth = db.find_method(c, f.attr)
                if meth is not None:
                    return meth
                return ('method', f.attr)
        return ('method', f.attr)
    return None


def ext_name(target):
    if isinstance(target, tuple) and target[0] in ('ext', 'builtin'):
        return target[1]
    return None


def call_name(call):
    """last component of the callee name, for cheap matching"""
    f = call.func
    if isinstance(f, ast.Name):
        return f.id
    if isinstance(f, ast.Attribute):
        return f.attr
    return None


def bind_args(fi, call, skip_self=None):
    """
    map parameter name -> argument expression for a call to fi.
    Returns (mapping, exact) ; exact False if *args/**kwargs were used.
    """
    params = list(fi.params)
    if skip_self is None:
        skip_self = (fi.cls is not None and params
                     and params[0] in ('self', 'cls')
                     and not _is_staticmethod(fi))
    if skip_self and params:
        params = params[1:]
    mapping = dict()
    exact = True
    pos = 0
    for a in call.args:
        if isinstance(a, ast.Starred):
            exact = False
            continue
        if pos < len(params):
            mapping[params[pos]] = a
        pos += 1
    for kw in call.keywords:
        if kw.arg is None:
            exact = False
            continue
        mapping[kw.arg] = kw.value
    return mapping, exact


def _is_staticmethod(fi):
    for d in fi.node.decorator_list:
        if isinstance(d, ast.Name) and d.id == 'staticmethod':
            return True
    return False


def is_classmethod(fi):
    for d in fi.node.decorator_list:
        if isinstance(d, ast.Name) and d.id == 'classmethod':
            return True
    return False


def process_target(db, fi, call):
    """
    If `call` is multiprocessing.Process(target=f, kwargs={...}) return
    (FunctionInfo or None, kwargs mapping name->expr or None, args list)
    else None.
    """
    t = resolve_callee(db, fi, call)
    name = ext_name(t)
    if name not in ('multiprocessing.Process',
                    'multiprocessing.context.Process'):
        # also accept ctx.Process(...) forms
        if not (isinstance(call.func, ast.Attribute)
                and call.func.attr == 'Process'):
            return None
    target = None
    kwargs = None
    args = None
    for kw in call.keywords:
        if kw.arg == 'target':
            tv = kw.value
            if isinstance(tv, ast.Name):
                r = resolve_name_in_module(db, fi.module, tv.id)
                if isinstance(r, FunctionInfo):
                    target = r
            elif isinstance(tv, ast.Attribute):
                r = resolve_attr_chain(db, fi.module, tv)
                if isinstance(r, FunctionInfo):
                    target = r
        elif kw.arg == 'kwargs':
            if isinstance(kw.value, ast.Dict):
                kwargs = dict()
                for k, v in zip(kw.value.keys, kw.value.values):
                    if isinstance(k, ast.Constant) and isinstance(k.value,
                                                                  str):
                        kwargs[k.value] = v
            elif isinstance(kw.value, ast.Name):
                kwargs = ('var', kw.value.id)
        elif kw.arg == 'args':
            args = kw.value
    return target, kwargs, args


class CallGraph(object):
    """whole-package call graph over resolved callees"""

    def __init__(self, db):
        self.db = db
        self.edges = dict()      # qual -> set of quals
        self.sites = dict()      # qual -> list of (call, target)
        self.n_calls = 0
        self.n_repo = 0
        self.n_ext = 0
        self.n_method = 0
        self.n_unres = 0
        for m in db.modules.values():
            for fi in m.all_functions:
                self._scan(fi)

    def _own_nodes(self, fi):
        """ast nodes belonging to fi, not to nested defs"""
        stack = list(ast.iter_child_nodes(fi.node))
        while stack:
            n = stack.pop()
            if isinstance(n, (ast.FunctionDef, ast.AsyncFunctionDef,
                              ast.ClassDef)):
                continue
            yield n
            stack.extend(ast.iter_child_nodes(n))

    def _scan(self, fi):
        db = self.db
        out = set()
        sites = []
        lt = local_types(db, fi)
        for n in self._own_nodes(fi):
            if not isinstance(n, ast.Call):
                continue
            self.n_calls += 1
            t = resolve_callee(db, fi, n, lt)
            pt = process_target(db, fi, n)
            if pt is not None and pt[0] is not None:
                out.add(pt[0].qual)
                sites.append((n, pt[0]))
            if isinstance(t, FunctionInfo):
                self.n_repo += 1
                out.add(_q(t))
                sites.append((n, t))
            elif isinstance(t, ClassInfo):
                self.n_repo += 1
                init = db.find_method(t, '__init__')
                if init is not None:
                    out.add(init.qual)
                    sites.append((n, init))
            elif isinstance(t, tuple) and t[0] in ('ext', 'builtin'):
                self.n_ext += 1
            elif isinstance(t, tuple) and t[0] == 'method':
                self.n_method += 1
                # argschema runner chaining: X(args=[], input_data=..).run()
                if t[1] == 'run' and isinstance(n.func, ast.Attribute):
                    c = lt.class_of_expr(n.func.value)
                    if c is not None:
                        r = db.find_method(c, 'run')
                        if r is not None:
                            out.add(r.qual)
                            sites.append((n, r))
            else:
                self.n_unres += 1
        self.edges[_q(fi)] = out
        self.sites[_q(fi)] = sites

    def reachable(self, roots, max_depth=None):
        seen = dict()
        frontier = [(r, 0) for r in roots]
        while frontier:
            q, d = frontier.pop()
            if q in seen and seen[q] <= d:
                continue
            seen[q] = d
            if max_depth is not None and d >= max_depth:
                continue
            for t in self.edges.get(q, ()):
                frontier.append((t, d+1))
        return seen

    def callers(self, qual):
        out = []
        for q, sites in self.sites.items():
            for call, t in sites:
                if _q(t) == qual:
                    out.append((q, call))
        return out

    def stats(self):
        tot = max(1, self.n_calls)
        return {
            'call_sites': self.n_calls,
            'resolved_repo': self.n_repo,
            'resolved_external': self.n_ext,
            'method_on_untyped_receiver': self.n_method,
            'unresolved': self.n_unres,
            'resolution_rate': round(
                (self.n_repo + self.n_ext + self.n_method) / tot, 4)}


def _q(fi):
    if fi.nested_in is not None:
        return f'{fi.nested_in.qual}.<locals>.{fi.name}'
    return fi.qual
