"""
Conditional constant propagation over the CFG under assumptions.

feasible(fi, assume) returns the set of CFG nodes (and edges) that are
reachable when some expressions are assumed to have fixed values (e.g.
"'results' in output_blob" is False, or the string compared against
'csr_matrix' is 'array').  Used for dispatch folding (R-EXH), guard rules
and "under the cloud_safe flag" rules.  Exceptional edges are always
followed, so "unreachable" is a sound verdict under the assumption.
"""
import ast

from .cfg import cfg_of
from .loader import unparse

UNKNOWN = object()
TOP = UNKNOWN


class Env(dict):
    pass


def _join(a, b):
    out = Env()
    for k in set(a) | set(b):
        if k in a and k in b and _same(a[k], b[k]):
            out[k] = a[k]
        else:
            out[k] = TOP
    return out


def _same(x, y):
    if x is TOP or y is TOP:
        return x is y
    try:
        return type(x) is type(y) and x == y
    except Exception:
        return False


def eval_expr(e, env, assume=None):
    """evaluate to a Python constant or UNKNOWN"""
    if assume is not None:
        v = assume(e, env)
        if v is not UNKNOWN:
            return v
    if isinstance(e, ast.Constant):
        return e.value
    if isinstance(e, ast.Name):
        if e.id in env:
            return env[e.id]
        if e.id in ('True', 'False', 'None'):
            return {'True': True, 'False': False, 'None': None}[e.id]
        return UNKNOWN
    if isinstance(e, ast.UnaryOp) and isinstance(e.op, ast.Not):
        v = eval_expr(e.operand, env, assume)
        if v is UNKNOWN:
            return UNKNOWN
        return not v
    if isinstance(e, ast.UnaryOp) and isinstance(e.op, ast.USub):
        v = eval_expr(e.operand, env, assume)
        if v is UNKNOWN or not isinstance(v, (int, float)):
            return UNKNOWN
        return -v
    if isinstance(e, ast.BoolOp):
        vals = [eval_expr(v, env, assume) for v in e.values]
        if isinstance(e.op, ast.And):
            if any(v is not UNKNOWN and not v for v in vals):
                return False
            if all(v is not UNKNOWN for v in vals):
                return vals[-1]
            return UNKNOWN
        else:
            if any(v is not UNKNOWN and v for v in vals):
                return True
            if all(v is not UNKNOWN for v in vals):
                return vals[-1]
            return UNKNOWN
    if isinstance(e, ast.Compare):
        left = eval_expr(e.left, env, assume)
        result = True
        for op, c in zip(e.ops, e.comparators):
            right = eval_expr(c, env, assume)
            if left is UNKNOWN or right is UNKNOWN:
                return UNKNOWN
            try:
                if isinstance(op, ast.Eq):
                    r = left == right
                elif isinstance(op, ast.NotEq):
                    r = left != right
                elif isinstance(op, ast.Is):
                    r = left is right or (left == right and isinstance(
                        left, (bool, type(None), int, str)))
                elif isinstance(op, ast.IsNot):
                    r = not (left is right or (left == right and isinstance(
                        left, (bool, type(None), int, str))))
                elif isinstance(op, ast.In):
                    r = left in right
                elif isinstance(op, ast.NotIn):
                    r = left not in right
                elif isinstance(op, ast.Lt):
                    r = left < right
                elif isinstance(op, ast.LtE):
                    r = left <= right
                elif isinstance(op, ast.Gt):
                    r = left > right
                elif isinstance(op, ast.GtE):
                    r = left >= right
                else:
                    return UNKNOWN
            except Exception:
                return UNKNOWN
            if not r:
                return False
            left = right
        return result
    if isinstance(e, (ast.Tuple, ast.List)):
        vals = [eval_expr(x, env, assume) for x in e.elts]
        if any(v is UNKNOWN for v in vals):
            return UNKNOWN
        return tuple(vals)
    if isinstance(e, ast.Call):
        # string predicates on constants:  x.startswith('csr')
        f = e.func
        if isinstance(f, ast.Attribute) and not e.keywords:
            base = eval_expr(f.value, env, assume)
            args = [eval_expr(a, env, assume) for a in e.args]
            if base is not UNKNOWN and isinstance(base, str) \
                    and all(a is not UNKNOWN for a in args) \
                    and f.attr in ('startswith', 'endswith', 'lower',
                                   'upper', 'strip'):
                try:
                    return getattr(base, f.attr)(*args)
                except Exception:
                    return UNKNOWN
        if isinstance(f, ast.Name) and f.id == 'len' and len(e.args) == 1:
            v = eval_expr(e.args[0], env, assume)
            if v is not UNKNOWN and isinstance(v, (tuple, str)):
                return len(v)
        return UNKNOWN
    if isinstance(e, ast.BinOp):
        lft = eval_expr(e.left, env, assume)
        r = eval_expr(e.right, env, assume)
        if lft is UNKNOWN or r is UNKNOWN:
            return UNKNOWN
        try:
            if isinstance(e.op, ast.Add):
                return lft + r
            if isinstance(e.op, ast.Sub):
                return lft - r
            if isinstance(e.op, ast.Mult):
                return lft * r
        except Exception:
            return UNKNOWN
        return UNKNOWN
    if isinstance(e, ast.IfExp):
        t = eval_expr(e.test, env, assume)
        if t is UNKNOWN:
            a = eval_expr(e.body, env, assume)
            b = eval_expr(e.orelse, env, assume)
            if a is not UNKNOWN and b is not UNKNOWN and _same(a, b):
                return a
            return UNKNOWN
        return eval_expr(e.body if t else e.orelse, env, assume)
    return UNKNOWN


class Feasible(object):
    def __init__(self, nodes, edges, envs):
        self.nodes = nodes
        self.edges = edges
        self.envs = envs       # node id -> Env at entry of node


def feasible(fi, assume=None, init_env=None, follow_exc=True):
    cfg = cfg_of(fi)
    envs = dict()
    envs[cfg.entry] = Env(init_env or {})
    for p in fi.params:
        envs[cfg.entry].setdefault(p, TOP)
    work = [cfg.entry]
    edges = set()
    visited = set()
    while work:
        n = work.pop()
        node = cfg.nodes[n]
        env = envs[n]
        visited.add(n)
        out = Env(env)
        s = node.ast
        # transfer
        if node.kind == 'stmt':
            if isinstance(s, ast.Assign):
                v = eval_expr(s.value, env, assume)
                for t in s.targets:
                    _assign(out, t, v)
            elif isinstance(s, ast.AugAssign):
                _assign(out, s.target, TOP)
            elif isinstance(s, ast.AnnAssign) and s.value is not None:
                _assign(out, s.target, eval_expr(s.value, env, assume))
            elif isinstance(s, ast.Delete):
                for t in s.targets:
                    _assign(out, t, TOP)
        elif node.kind == 'for':
            _assign(out, s.target, TOP)
        elif node.kind == 'with':
            for it in s.items:
                if it.optional_vars is not None:
                    _assign(out, it.optional_vars, TOP)
        elif node.kind == 'handler' and s.name:
            out[s.name] = TOP
        for root in node.exprs:
            if root is None:
                continue
            for sub in ast.walk(root):
                if isinstance(sub, ast.NamedExpr):
                    out[sub.target.id] = TOP
        # branch
        test_val = UNKNOWN
        if node.kind in ('if', 'while'):
            test_val = eval_expr(s.test, env, assume)
        for (t, lab) in cfg.succ[n]:
            if lab in ('exc',) and not follow_exc:
                continue
            if node.kind in ('if', 'while') and test_val is not UNKNOWN:
                if lab == 'true' and not test_val:
                    continue
                if lab == 'false' and test_val:
                    continue
            edges.add((n, t, lab))
            # exceptional edges carry the pre-state
            carry = env if lab == 'exc' else out
            if t not in envs:
                envs[t] = Env(carry)
                work.append(t)
            else:
                j = _join(envs[t], carry)
                if not _env_eq(j, envs[t]):
                    envs[t] = j
                    work.append(t)
    return Feasible(visited, edges, envs)


def _env_eq(a, b):
    if set(a) != set(b):
        return False
    return all(_same(a[k], b[k]) for k in a)


def _assign(env, target, v):
    if isinstance(target, ast.Name):
        env[target.id] = v
    elif isinstance(target, (ast.Tuple, ast.List)):
        for i, e in enumerate(target.elts):
            if isinstance(e, ast.Starred):
                _assign(env, e.value, TOP)
            elif v is not TOP and isinstance(v, tuple) and i < len(v):
                _assign(env, e, v[i])
            else:
                _assign(env, e, TOP)
    # attribute / subscript stores do not change local constants


def assume_text(mapping):
    """assumption hook from {normalised source text: value}"""
    def hook(e, env):
        try:
            t = unparse(e)
        except Exception:
            return UNKNOWN
        if t in mapping:
            return mapping[t]
        return UNKNOWN
    return hook
