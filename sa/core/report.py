"""
E-E: obligations, verdicts, evidence and replay files, known findings.
"""
import json
import os
import pathlib
import time

VERIF_ROOT = pathlib.Path(__file__).resolve().parent.parent.parent
EVIDENCE_DIR = VERIF_ROOT / 'evidence'
REPLAY_DIR = EVIDENCE_DIR / 'replay'
KNOWN_FINDINGS = VERIF_ROOT / 'known_findings.json'
EXCEPTIONS = VERIF_ROOT / 'sa' / 'specs' / 'exceptions.json'


class Obligation(object):
    __slots__ = ('rule', 'key', 'where', 'ok', 'detail', 'witness',
                 'nontrivial', 'advisory', 'excepted')

    def __init__(self, rule, key, where, ok, detail='', witness=None,
                 nontrivial=True, advisory=False):
        self.rule = rule
        self.key = key
        self.where = where
        self.ok = ok
        self.detail = detail
        self.witness = witness or []
        self.nontrivial = nontrivial
        self.advisory = advisory
        self.excepted = None

    def as_dict(self):
        d = {'rule': self.rule, 'key': self.key, 'where': self.where,
             'verdict': 'ok' if self.ok else 'FAIL', 'detail': self.detail}
        if self.witness:
            d['witness'] = self.witness
        if self.excepted:
            d['excepted'] = self.excepted
        return d


class CheckContext(object):
    """handed to each property module"""

    def __init__(self, prop_id, db, cg, tier='quick', repo_is_real=True):
        self.prop_id = prop_id
        self.db = db
        self.cg = cg
        self.tier = tier
        self.obligations = []
        self.notes = []
        self.functions_analysed = set()
        self.exceptions = _load_exceptions()
        self.exceptions_used = []
        self.floors = dict()
        self.repo_is_real = repo_is_real

    # -- recording -----------------------------------------------------
    def touch(self, fi):
        if fi is not None:
            self.functions_analysed.add(fi.qual)

    def advisory_scope(self):
        """everything recorded inside the `with` block is advisory: printed
        and counted, never a violation (used by the package-wide sweeps of
        the thorough tier over code outside a property's anchors)"""
        ctx = self

        class _Scope(object):
            def __enter__(self_):
                ctx._advisory_depth = getattr(ctx, '_advisory_depth', 0) + 1

            def __exit__(self_, *a):
                ctx._advisory_depth -= 1
                return False
        return _Scope()

    def ob(self, rule, key, where, ok, detail='', witness=None,
           nontrivial=True, advisory=False):
        if getattr(self, '_advisory_depth', 0) > 0:
            advisory = True
        o = Obligation(rule, key, where, bool(ok), detail, witness,
                       nontrivial, advisory)
        if not o.ok:
            ex = self._excepted(o)
            if ex is not None:
                o.ok = True
                o.excepted = ex['reason']
                self.exceptions_used.append(
                    {'rule': rule, 'key': key, 'reason': ex['reason']})
        self.obligations.append(o)
        return o

    def ok(self, rule, key, where, detail='', **kw):
        return self.ob(rule, key, where, True, detail, **kw)

    def fail(self, rule, key, where, detail='', **kw):
        return self.ob(rule, key, where, False, detail, **kw)

    def note(self, msg):
        self.notes.append(msg)

    def floor(self, rule, minimum):
        """an anchored rule must have at least `minimum` instances"""
        self.floors[rule] = minimum

    def _excepted(self, o):
        for ex in self.exceptions:
            if ex.get('property') not in (None, self.prop_id):
                continue
            if ex['rule'] == o.rule and ex['key'] == o.key:
                return ex
        return None

    def count(self, rule_prefix):
        return sum(1 for o in self.obligations
                   if o.rule.startswith(rule_prefix) and not o.advisory)


def _load_exceptions():
    if EXCEPTIONS.is_file():
        return json.loads(EXCEPTIONS.read_text()).get('exceptions', [])
    return []


def load_known_findings():
    if KNOWN_FINDINGS.is_file():
        return json.loads(KNOWN_FINDINGS.read_text()).get('findings', [])
    return []


def finish(ctx, meta, t0, seed, explanation, rule_text, assumptions,
           write_evidence=True, extra_cov=None):
    """
    Apply known findings, print the report, write evidence + replay files.
    Returns the exit code (0 or 1).
    """
    prop = ctx.prop_id
    known = [k for k in load_known_findings()
             if k.get('property') == prop and k.get('status') == 'known']
    failing = [o for o in ctx.obligations if not o.ok and not o.advisory]
    advisory = [o for o in ctx.obligations if not o.ok and o.advisory]
    violations = []
    known_hits = []
    matched = set()
    for o in failing:
        hit = None
        for i, k in enumerate(known):
            if k['rule'] == o.rule and k['key'] == o.key:
                hit = (i, k)
                break
        if hit is not None:
            matched.add(hit[0])
            known_hits.append((o, hit[1]))
        else:
            violations.append(o)

    by_rule = dict()
    for o in ctx.obligations:
        if o.advisory:
            continue
        r = by_rule.setdefault(o.rule, [0, 0])
        r[0] += 1
        r[1] += 1 if o.ok else 0

    print(f'== {prop} [{ctx.tier}] static analysis of {ctx.db.repo_root} '
          f'(digest {meta["census"]["source_digest"]})')
    c = meta['census']
    r = meta['resolution']
    print(f'   analysed: {c["modules"]} modules, {c["functions"]} functions,'
          f' {r["call_sites"]} call sites; resolved repo='
          f'{r["resolved_repo"]} ext={r["resolved_external"]} '
          f'untyped-receiver={r["method_on_untyped_receiver"]} '
          f'unresolved={r["unresolved"]}')
    for rule in sorted(by_rule):
        tot, okc = by_rule[rule]
        print(f'   rule {rule}: {okc}/{tot} discharged')
    for e in ctx.exceptions_used:
        print(f'   EXCEPTION used: {e["rule"]} {e["key"]} -- {e["reason"]}')
    for n in ctx.notes:
        print(f'   note: {n}')
    for o in advisory:
        print(f'   ADVISORY: {o.rule} {o.key} at {o.where}: {o.detail}')

    for o, k in known_hits:
        print(f'KNOWN-FINDING: property={prop} {k.get("what", o.detail)} '
              f'[{o.rule} {o.key} at {o.where}]')
    for i, k in enumerate(known):
        if i not in matched:
            print(f'   warning: stale known finding (no longer reported): '
                  f'{k["rule"]} {k["key"]}')

    replay_paths = []
    if violations:
        REPLAY_DIR.mkdir(parents=True, exist_ok=True)
    for i, o in enumerate(violations):
        rp = REPLAY_DIR / f'{prop}-{i}.json'
        rp.write_text(json.dumps({
            'property_id': prop, 'tier': ctx.tier,
            'repo_root': str(ctx.db.repo_root),
            'obligation': o.as_dict()}, indent=1))
        replay_paths.append(str(rp))
        print(f'VIOLATION property={prop} replay={rp}')
        print(f'   rule={o.rule} instance={o.key}')
        print(f'   at {o.where}: {o.detail}')
        for w in o.witness[:25]:
            print(f'      {w}')

    n_eval = sum(1 for o in ctx.obligations if not o.advisory)
    n_ok = sum(1 for o in ctx.obligations if o.ok and not o.advisory)
    distinct = len({(o.rule, o.key) for o in ctx.obligations
                    if o.nontrivial and not o.advisory})
    samples = [o.as_dict() for o in (violations
                                     + [h[0] for h in known_hits])]
    seen_rules = set()
    for o in ctx.obligations:
        if o.advisory:
            continue
        if o.rule not in seen_rules or len(samples) < 12:
            seen_rules.add(o.rule)
            if o.ok:
                samples.append(o.as_dict())
        if len(samples) >= 40:
            break
    cov = {
        'explanation': explanation,
        'rule': rule_text,
        'obligations': n_eval,
        'discharged': n_ok,
        'evaluations': n_eval,
        'distinct_nontrivial': distinct,
        'samples': samples,
        'rule_instances': {k: {'instances': v[0], 'ok': v[1]}
                           for k, v in sorted(by_rule.items())},
        'functions_analysed': sorted(ctx.functions_analysed),
        'n_functions_analysed': len(ctx.functions_analysed),
        'census': meta['census'],
        'call_resolution': meta['resolution'],
        'exceptions_used': ctx.exceptions_used,
        'known_findings_reported': [
            {'rule': o.rule, 'key': o.key, 'what': k.get('what')}
            for o, k in known_hits],
        'advisories': [o.as_dict() for o in advisory],
        'notes': ctx.notes,
        'configuration': 'CPU configuration: use_torch()/is_torch_available()'
                         ' taken as false; torch branches not analysed',
        'exhaustive': False,
    }
    if extra_cov:
        cov.update(extra_cov)
    ev = {
        'property_id': prop,
        'tier': ctx.tier,
        'seed': int(seed),
        'level': 'other',
        'coverage': cov,
        'assumptions': assumptions,
        'wall_s': round(time.time() - t0, 3),
        'violations': len(violations),
    }
    if write_evidence:
        EVIDENCE_DIR.mkdir(parents=True, exist_ok=True)
        path = EVIDENCE_DIR / f'{prop}.json'
        tmp = str(path) + f'.tmp{os.getpid()}'
        with open(tmp, 'w') as f:
            json.dump(ev, f, indent=1)
        os.replace(tmp, path)
    print(f'== {prop}: {n_ok}/{n_eval} obligations discharged, '
          f'{len(violations)} violation(s), {len(known_hits)} known '
          f'finding(s), {len(advisory)} advisory; '
          f'{ev["wall_s"]} s')
    return (1 if violations else 0), ev
