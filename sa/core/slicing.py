"""
Backward data slice of an expression inside one function: the set of
"atoms" (calls, attribute reads, parameters, constants of interest) the
value transitively depends on through reaching definitions, loop
iterables, and container mutations (x.append(v), x[k] = v, x.add(v),
x.update(v) make x depend on v and k).  Control dependence is not followed.
"""
import ast

from .cfg import cfg_of
from .defuse import rd_of
from .loader import unparse


class Slice(object):
    def __init__(self):
        self.calls = []          # ast.Call nodes
        self.attrs = []          # ast.Attribute nodes (loads)
        self.params = set()
        self.consts = set()
        self.names = set()
        self.opaque = []         # sub-expressions not looked into

    def call_names(self):
        out = set()
        for c in self.calls:
            f = c.func
            if isinstance(f, ast.Name):
                out.add(f.id)
            elif isinstance(f, ast.Attribute):
                out.add(f.attr)
        return out

    def attr_names(self):
        return {a.attr for a in self.attrs}

    def has_call(self, name):
        return name in self.call_names()

    def has_attr(self, name):
        return name in self.attr_names() or name in self.call_names()


def _positional(v, kind, i):
    """the i-th component of an unpacked value where it is syntactically
    apparent: a tuple display, or the i-th argument of a zip(...) that is
    iterated over"""
    if kind == 'for':
        if isinstance(v, ast.Call) and isinstance(v.func, ast.Name) \
                and v.func.id == 'zip' and not v.keywords \
                and i < len(v.args) and not any(
                    isinstance(a, ast.Starred) for a in v.args):
            return v.args[i]
        if isinstance(v, ast.Call) and isinstance(v.func, ast.Name) \
                and v.func.id == 'enumerate' and len(v.args) == 1 \
                and i == 1:
            return v.args[0]
        return v
    if isinstance(v, (ast.Tuple, ast.List)) and i < len(v.elts) \
            and not any(isinstance(a, ast.Starred) for a in v.elts):
        return v.elts[i]
    return v


def backward_slice(fi, expr, at=None, max_steps=4000, positional=False,
                   opaque=None):
    """opaque(node) -> True for sub-expressions that are recorded but
    not looked into (e.g. the argument of len())"""
    cfg = cfg_of(fi)
    rd = rd_of(fi)
    out = Slice()
    seen_defs = set()
    seen_expr = set()
    work = [(expr, at)]
    steps = 0
    mut_index = rd.muts
    while work and steps < max_steps:
        steps += 1
        e, nid = work.pop()
        if e is None or id(e) in seen_expr:
            continue
        seen_expr.add(id(e))
        if nid is None:
            ns = [n for n in cfg.node_of_expr(e) if n.id in rd.live]
            nid = ns[0].id if ns else None
        # comprehension-bound names are resolved to their iterables
        comp_bind = dict()
        for sub in ast.walk(e):
            if isinstance(sub, (ast.ListComp, ast.SetComp, ast.DictComp,
                                ast.GeneratorExp)):
                for g in sub.generators:
                    for t in ast.walk(g.target):
                        if isinstance(t, ast.Name):
                            comp_bind[t.id] = g.iter
        hidden = set()
        if opaque is not None:
            for sub in ast.walk(e):
                if opaque(sub):
                    hidden |= {id(x) for x in ast.walk(sub)} - {id(sub)}
                    out.opaque.append(sub)
        for sub in ast.walk(e):
            if id(sub) in hidden:
                continue
            if isinstance(sub, ast.Call):
                out.calls.append(sub)
            elif isinstance(sub, ast.Attribute) and isinstance(
                    sub.ctx, ast.Load):
                out.attrs.append(sub)
            elif isinstance(sub, ast.Constant):
                if isinstance(sub.value, str):
                    out.consts.add(sub.value)
            elif isinstance(sub, ast.Name) and isinstance(
                    sub.ctx, ast.Load):
                out.names.add(sub.id)
                if sub.id in comp_bind:
                    continue
                if nid is None:
                    continue
                for d in rd.reaching(sub.id, nid):
                    if d.id in seen_defs:
                        continue
                    seen_defs.add(d.id)
                    if d.kind == 'param':
                        out.params.add(d.name)
                    elif d.value is not None:
                        v = d.value
                        if positional and d.path and isinstance(
                                d.path[0], int):
                            v = _positional(v, d.kind, d.path[0])
                        work.append((v, d.node))
                # container mutations of this name
                for (mn, astn, how) in mut_index.get(sub.id, []):
                    if mn not in rd.live:
                        continue
                    if isinstance(astn, ast.Call):
                        for a in astn.args:
                            work.append((a, mn))
                    elif isinstance(astn, (ast.Assign, ast.AugAssign)):
                        work.append((astn.value, mn))
                        tg = astn.targets[0] if isinstance(
                            astn, ast.Assign) else astn.target
                        if isinstance(tg, ast.Subscript):
                            work.append((tg.slice, mn))
    return out
