"""
Thorough tier and checker self-test.

thorough(prop):  the armed obligations on /repo (this is the verdict), then
the self-test for that property: every catalogued single edit is applied to
a scratch copy of the package (outside /repo and /verif, removed at once)
and *analysed* -- never executed -- and must make the intended rule report;
every behaviour-preserving twin must stay silent.  Self-test results are
reported and recorded in the evidence; they never produce a VIOLATION line
because the tree under test is not /repo.
"""
import multiprocessing
import os
import pathlib
import shutil
import sys
import tempfile
import time
import traceback

from ..core.loader import AnalysisError


def _scratch_root():
    base = os.environ.get('VERIF_SCRATCH') or tempfile.gettempdir()
    return tempfile.mkdtemp(prefix='verif_sa_scratch_', dir=base)


def make_copy(repo, dst):
    """copy the analysed part of the repository (sources only)"""
    src_pkg = pathlib.Path(repo) / 'src' / 'cell_type_mapper'
    dst_pkg = pathlib.Path(dst) / 'src' / 'cell_type_mapper'

    def ignore(d, names):
        rel = pathlib.Path(d).relative_to(src_pkg)
        out = [n for n in names if n == '__pycache__' or n.endswith('.pyc')]
        if rel.parts == ():
            out += [n for n in names if n in ('data',)]
        return out
    shutil.copytree(src_pkg, dst_pkg, ignore=ignore)
    docs = pathlib.Path(repo) / 'docs'
    if docs.is_dir():
        shutil.copytree(docs, pathlib.Path(dst) / 'docs')
    return dst


def apply_edits(root, edits):
    """edits: list of (relative file, old, new[, count]).  Returns None on
    success or a string describing why the edit is stale"""
    for ed in edits:
        rel, old, new = ed[0], ed[1], ed[2]
        count = ed[3] if len(ed) > 3 else 1
        p = pathlib.Path(root) / rel
        if not p.is_file():
            return f'{rel} does not exist'
        s = p.read_text()
        n = s.count(old)
        if n != count:
            return (f'{rel}: anchor text occurs {n} time(s), expected '
                    f'{count}')
        p.write_text(s.replace(old, new))
    return None


def apply_patch(root, patch_file):
    """apply a unified diff (a stored seeded change) to the scratch copy"""
    import subprocess
    r = subprocess.run(['git', 'apply', '--unsafe-paths',
                        f'--directory={root}', str(patch_file)],
                       capture_output=True, text=True, cwd=root)
    if r.returncode:
        r = subprocess.run(['patch', '-p1', '-s', '-d', str(root), '-i',
                            str(patch_file)], capture_output=True,
                           text=True)
        if r.returncode:
            return ('patch does not apply to the current tree: '
                    + (r.stderr or r.stdout)[-200:])
    return None


def seeded_cases(props=None):
    """the independently written property-breaking changes stored under
    /verif/seeded: each must be reported by the check of its property"""
    import json
    out = []
    base = pathlib.Path(__file__).resolve().parents[2] / 'seeded'
    if not base.is_dir():
        return out
    for d in sorted(base.iterdir()):
        meta = d / 'meta.json'
        patch = d / 'patch.diff'
        if not (meta.is_file() and patch.is_file()):
            continue
        m = json.loads(meta.read_text())
        prop = m.get('property')
        if props is not None and prop not in props:
            continue
        if m.get('not_decided'):
            # a documented miss (see its meta.json and DESIGN.md 15)
            continue
        out.append({'id': f'seeded-{d.name}', 'prop': prop,
                    'kind': 'mutant', 'patch': str(patch), 'expect': 'R-',
                    'desc': 'independent seeded change: '
                    + str(m.get('needs_to_manifest', ''))[:160]})
    return out


def _run_one(job):
    (repo, case) = job
    from ..run import analyse
    root = _scratch_root()
    t0 = time.time()
    res = {'id': case['id'], 'prop': case['prop'], 'kind': case['kind'],
           'desc': case['desc']}
    try:
        make_copy(repo, root)
        if case.get('patch'):
            stale = apply_patch(root, case['patch'])
        else:
            stale = apply_edits(root, case['edits'])
        if stale:
            res['status'] = 'stale'
            res['detail'] = stale
            return res
        # the mutant must still be valid Python
        import ast
        for ed in case.get('edits', []):
            ast.parse((pathlib.Path(root) / ed[0]).read_text())
        try:
            code, ev, ctx = analyse(case['prop'], root, 'quick',
                                    write_evidence=False, quiet=True)
        except AnalysisError as e:
            res['status'] = 'analysis-error'
            res['detail'] = str(e)
            return res
        from ..core.report import load_known_findings
        known = {(k['rule'], k['key']) for k in load_known_findings()
                 if k.get('property') == case['prop']
                 and k.get('status') == 'known'}
        failing = [o for o in ctx.obligations
                   if not o.ok and not o.advisory
                   and (o.rule, o.key) not in known]
        res['failing'] = [(o.rule, o.key) for o in failing]
        if case['kind'] == 'mutant':
            want = case['expect']
            hit = [o for o in failing if o.rule.startswith(want)
                   and case.get('expect_key', '') in o.key]
            if hit:
                res['status'] = 'detected'
                res['detail'] = f'{hit[0].rule} {hit[0].key}'
            elif failing:
                res['status'] = 'detected-by-other-rule'
                res['detail'] = f'{failing[0].rule} {failing[0].key}'
            else:
                res['status'] = 'MISSED'
                res['detail'] = 'no obligation failed'
        else:
            if failing:
                res['status'] = 'FALSE-ALARM'
                res['detail'] = f'{failing[0].rule} {failing[0].key}: ' \
                                f'{failing[0].detail}'
            else:
                res['status'] = 'silent'
                res['detail'] = ''
    except Exception:
        res['status'] = 'internal-error'
        res['detail'] = traceback.format_exc()[-800:]
    finally:
        shutil.rmtree(root, ignore_errors=True)
        res['wall_s'] = round(time.time() - t0, 2)
    return res


def run_selftest(repo, props=None, jobs=None, ids=None):
    from .catalog import CASES
    cases = [c for c in list(CASES) + seeded_cases(props)
             if (props is None or c['prop'] in props)
             and (ids is None or c['id'] in ids)]
    if not cases:
        return []
    jobs = jobs or min(16, os.cpu_count() or 4, len(cases))
    work = [(repo, c) for c in cases]
    if jobs <= 1:
        return [_run_one(w) for w in work]
    ctx = multiprocessing.get_context('fork')
    with ctx.Pool(jobs) as pool:
        return pool.map(_run_one, work, chunksize=1)


def summarise(results):
    s = {'mutants': 0, 'mutants_detected': 0, 'mutants_missed': 0,
         'mutants_by_other_rule': 0, 'twins': 0, 'twins_silent': 0,
         'twins_false_alarm': 0, 'stale': 0, 'errors': 0}
    for r in results:
        st = r['status']
        if st == 'stale':
            s['stale'] += 1
            continue
        if st in ('internal-error', 'analysis-error'):
            if r['kind'] == 'mutant' and st == 'analysis-error':
                # an unrecognisable tree is reported as such: not a verdict
                s['mutants'] += 1
                s['errors'] += 1
            else:
                s['errors'] += 1
            continue
        if r['kind'] == 'mutant':
            s['mutants'] += 1
            if st == 'detected':
                s['mutants_detected'] += 1
            elif st == 'detected-by-other-rule':
                s['mutants_detected'] += 1
                s['mutants_by_other_rule'] += 1
            else:
                s['mutants_missed'] += 1
        else:
            s['twins'] += 1
            if st == 'silent':
                s['twins_silent'] += 1
            else:
                s['twins_false_alarm'] += 1
    return s


def thorough(prop, repo, seed, write_evidence=True):
    from ..run import analyse
    from ..core import report
    import json
    t0 = time.time()
    # 1. the verdict: armed obligations (thorough tier adds the advisory
    #    package-wide sweep inside the property module)
    code, ev, ctx = analyse(prop, repo, 'thorough',
                            write_evidence=write_evidence, seed=seed)
    # 2. self-test of the rules this property uses
    results = run_selftest(repo, props=[prop])
    summ = summarise(results)
    print(f'-- self-test of the {prop} rules on scratch copies '
          f'(analysed, never run): {summ}')
    for r in results:
        flag = '' if r['status'] in ('detected', 'silent',
                                     'detected-by-other-rule') else '  <<<'
        print(f'   [{r["kind"]:6}] {r["id"]:28} {r["status"]:24} '
              f'{r["detail"][:110]}{flag}')
    if write_evidence:
        path = report.EVIDENCE_DIR / f'{prop}.json'
        ev = json.loads(path.read_text())
        ev['coverage']['selftest'] = summ
        ev['coverage']['selftest_cases'] = [
            {k: r[k] for k in ('id', 'kind', 'status', 'detail', 'desc')}
            for r in results]
        ev['wall_s'] = round(time.time() - t0, 3)
        tmp = str(path) + f'.tmp{os.getpid()}'
        with open(tmp, 'w') as f:
            json.dump(ev, f, indent=1)
        os.replace(tmp, path)
    return code


def main(argv=None):
    """python -m sa.selftest.driver [PROP ...]  -- developer entry point:
    exit 1 if any mutant is missed or any twin raises an alarm"""
    import argparse
    ap = argparse.ArgumentParser()
    ap.add_argument('props', nargs='*')
    ap.add_argument('--repo', default='/repo')
    ap.add_argument('--ids', nargs='*', default=None)
    ap.add_argument('-j', type=int, default=None)
    args = ap.parse_args(argv)
    results = run_selftest(args.repo, props=args.props or None,
                           jobs=args.j, ids=args.ids)
    summ = summarise(results)
    bad = 0
    for r in results:
        good = r['status'] in ('detected', 'silent')
        flag = '' if good else '  <<<'
        if not good:
            bad += 1
        print(f'[{r["kind"]:6}] {r["prop"]} {r["id"]:30} '
              f'{r["status"]:24} {r["detail"][:140]}{flag}')
    print(summ)
    return 1 if bad else 0


if __name__ == '__main__':
    sys.exit(main())
