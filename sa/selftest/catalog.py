"""
Self-test catalogue: single edits that break a property's structural
condition (kind 'mutant', with the rule that must report it) and
behaviour-preserving twins (kind 'twin', on which every rule must stay
silent).  Edits are applied to scratch copies and analysed, never run.
An edit whose anchor text no longer occurs in the tree under test is
reported as stale, not as a failure.
"""

P = 'src/cell_type_mapper/'
CASES = []


def mutant(id, prop, desc, edits, expect, expect_key=''):
    CASES.append({'id': id, 'prop': prop, 'kind': 'mutant', 'desc': desc,
                  'edits': edits, 'expect': expect,
                  'expect_key': expect_key})


def twin(id, prop, desc, edits):
    CASES.append({'id': id, 'prop': prop, 'kind': 'twin', 'desc': desc,
                  'edits': edits})


# ----------------------------------------------------------------------
# C14
# ----------------------------------------------------------------------
_FINAL_DRAIN_LIST = ("    while len(process_list) > 0:\n"
                     "        process_list = winnow_process_list("
                     "process_list)\n")

mutant('C14-drop-drain-election', 'C14',
       'delete the final drain loop of the mapping dispatcher',
       [(P+'type_assignment/election.py', _FINAL_DRAIN_LIST, '')],
       'R-PAIR/worker-drain', 'election')
mutant('C14-drop-drain-precompute', 'C14',
       'delete the final drain loop of the statistics stage',
       [(P+'diff_exp/precompute_from_anndata.py', _FINAL_DRAIN_LIST, '')],
       'R-PAIR/worker-drain', 'precompute')
mutant('C14-drop-drain-transpose', 'C14',
       'delete the final drain loop of the parallel transposition',
       [(P+'utils/csc_to_csr_parallel.py', _FINAL_DRAIN_LIST, '')],
       'R-PAIR/worker-drain', 'csc_to_csr_parallel')
mutant('C14-join-instead-of-drain', 'C14',
       'replace the final drain by join() without exit-code inspection',
       [(P+'utils/csc_to_csr_parallel.py', _FINAL_DRAIN_LIST,
         "    for p in process_list:\n        p.join()\n")],
       'R-PAIR/worker-drain', 'csc_to_csr_parallel')
mutant('C14-drop-drain-selection', 'C14',
       'delete the final drain loop of query marker selection',
       [(P+'marker_selection/selection_pipeline.py',
         "    while len(process_dict) > 0:\n"
         "        process_dict = winnow_process_dict(process_dict)\n", '')],
       'R-PAIR/worker-drain', 'selection_pipeline')
mutant('C14-clear-pool-before-drain', 'C14',
       'empty the pool before the final drain',
       [(P+'type_assignment/election.py', _FINAL_DRAIN_LIST,
         "    process_list = []\n" + _FINAL_DRAIN_LIST)],
       'R-PAIR/worker-drain', 'election')
mutant('C14-exitcode-gt0-list', 'C14',
       '`exitcode != 0` -> `> 0` in winnow_process_list (signals are '
       'negative)',
       [(P+'utils/multiprocessing_utils.py',
         "            if process_list[ii].exitcode != 0:",
         "            if process_list[ii].exitcode > 0:")],
       'R-DRAIN/raises')
mutant('C14-exitcode-eq1-dict', 'C14',
       '`exitcode != 0` -> `== 1` in winnow_process_dict',
       [(P+'utils/multiprocessing_utils.py',
         "            if process_dict[k].exitcode != 0:",
         "            if process_dict[k].exitcode == 1:")],
       'R-DRAIN/raises')
mutant('C14-warn-instead-of-raise', 'C14',
       'winnow_process_dict prints instead of raising',
       [(P+'utils/multiprocessing_utils.py',
         "                raise RuntimeError(\n"
         "                    f\"One of the processes (key={k}) exited "
         "with code \"\n"
         "                    f\"{process_dict[k].exitcode}\")",
         "                print(\n"
         "                    f\"One of the processes (key={k}) exited "
         "with code \"\n"
         "                    f\"{process_dict[k].exitcode}\")")],
       'R-DRAIN/raises')
mutant('C14-pop-running', 'C14',
       'winnow_process_dict also drops processes that are still running',
       [(P+'utils/multiprocessing_utils.py',
         "        if process_dict[k].exitcode is not None:\n"
         "            if process_dict[k].exitcode != 0:",
         "        if True:\n"
         "            if process_dict[k].exitcode:")],
       'R-DRAIN/raises/removal')
mutant('C14-worker-swallows', 'C14',
       'the mapping worker catches every exception and prints it',
       [(P+'type_assignment/election.py',
         "    assignment = run_type_assignment(\n"
         "        full_query_gene_data=query_cell_chunk,",
         "    try:\n"
         "        assignment = run_type_assignment(\n"
         "            full_query_gene_data=query_cell_chunk,\n"
         "            leaf_node_matrix=leaf_node_matrix,\n"
         "            marker_gene_cache_path=marker_gene_cache_path,\n"
         "            taxonomy_tree=taxonomy_tree,\n"
         "            bootstrap_factor_lookup=bootstrap_factor_lookup,\n"
         "            bootstrap_iteration=bootstrap_iteration,\n"
         "            rng=rng,\n"
         "            n_assignments=n_assignments)\n"
         "    except Exception as err:\n"
         "        print(err)\n"
         "        return\n"
         "    assignment = run_type_assignment(\n"
         "        full_query_gene_data=query_cell_chunk,")],
       'R-HANDLER/no-swallow')
mutant('C14-success-in-finally', 'C14',
       'the success message is logged from the finally block',
       [(P+'cli/from_specified_markers.py',
         "        log.info(\"MAPPING FROM SPECIFIED MARKERS RAN "
         "SUCCESSFULLY\")\n", ""),
        (P+'cli/from_specified_markers.py',
         "        log.info(\"CLEANING UP\")\n",
         "        log.info(\"CLEANING UP\")\n"
         "        log.info(\"MAPPING FROM SPECIFIED MARKERS RAN "
         "SUCCESSFULLY\")\n")],
       'R-MUST/run-mapping/success-msg')
mutant('C14-no-reraise', 'C14',
       'run_mapping swallows the failure of _run_mapping',
       [(P+'cli/from_specified_markers.py',
         "        log.add_msg(traceback_msg)\n        raise\n",
         "        log.add_msg(traceback_msg)\n")],
       'R-MUST/run-mapping')
mutant('C14-results-preseeded', 'C14',
       'the output dict is created with an (empty) results list',
       [(P+'cli/from_specified_markers.py',
         "    output = dict()\n\n    if 'tmp_dir' not in config:",
         "    output = {'results': []}\n\n    if 'tmp_dir' not in config:")],
       'R-MUST/run-mapping/results')
mutant('C14-results-in-finally', 'C14',
       'the finally block stores a results entry',
       [(P+'cli/from_specified_markers.py',
         "        output[\"config\"] = safe_config\n",
         "        output[\"config\"] = safe_config\n"
         "        output[\"results\"] = output.get(\"results\", [])\n")],
       'R-MUST/run-mapping/results')
mutant('C14-stats-file-early-complete', 'C14',
       'the statistics stage copies a complete file into place before '
       'draining',
       [(P+'diff_exp/markers.py',
         "    tmp_dir = tempfile.mkdtemp(dir=tmp_dir, "
         "prefix='find_markers_')\n    tmp_dir = pathlib.Path(tmp_dir)\n",
         "    tmp_dir = tempfile.mkdtemp(dir=tmp_dir, "
         "prefix='find_markers_')\n    tmp_dir = pathlib.Path(tmp_dir)\n"
         "    shutil.copy(src=precomputed_stats_path, dst=output_path)\n")],
       'R-MUST/publish-after-drain')
mutant('C14-mask-merge-before-drain', 'C14',
       'the p-value mask is merged (all keys written) before the final '
       'drain',
       [(P+'diff_exp/p_value_mask.py',
         "    del cluster_stats\n    del tree_as_leaves\n"
         "    del this_cluster_stats\n",
         "    _merge_masks(\n        src_path_list=tmp_path_list,\n"
         "        dst_path=dst_path)\n"
         "    del cluster_stats\n    del tree_as_leaves\n"
         "    del this_cluster_stats\n")],
       'R-MUST/publish-after-drain')
mutant('C14-hdf5-results-unguarded', 'C14',
       'blob_to_hdf5 ignores a missing results key',
       [(P+'utils/output_utils.py',
         "    elif 'results' not in output_blob:\n"
         "        run_succeeded = False\n", "")],
       'R-GUARD/hdf5-results-present')
mutant('C14-csv-before-election', 'C14',
       'the CSV is written from a stale variable before the election ran',
       [(P+'cli/from_specified_markers.py',
         "    csv_result[\"assignments\"] = result\n",
         "    csv_result[\"assignments\"] = []\n")],
       'R-MUST/run-mapping/csv-source')

twin('C14-twin-drain-neq', 'C14',
     'final drain written as `while len(x) != 0`',
     [(P+'type_assignment/election.py',
       "    while len(process_list) > 0:\n"
       "        process_list = winnow_process_list(process_list)\n",
       "    while len(process_list) != 0:\n"
       "        process_list = winnow_process_list(process_list)\n")])
twin('C14-twin-drain-truthy', 'C14',
     'final drain written as `while process_list:`',
     [(P+'utils/csc_to_csr_parallel.py',
       "    while len(process_list) > 0:\n"
       "        process_list = winnow_process_list(process_list)\n",
       "    while process_list:\n"
       "        process_list = winnow_process_list(process_list)\n")])
twin('C14-twin-exitcode-truthy', 'C14',
     'exit-code test written as truthiness',
     [(P+'utils/multiprocessing_utils.py',
       "            if process_dict[k].exitcode != 0:",
       "            if process_dict[k].exitcode:")])
twin('C14-twin-narrow-handler', 'C14',
     'worker translates a KeyError into a RuntimeError (re-raises)',
     [(P+'type_assignment/election.py',
       "    for idx in range(len(assignment)):\n"
       "        assignment[idx]['cell_id'] = query_cell_names[idx]\n",
       "    try:\n"
       "        for idx in range(len(assignment)):\n"
       "            assignment[idx]['cell_id'] = query_cell_names[idx]\n"
       "    except Exception as err:\n"
       "        raise RuntimeError('bad chunk') from err\n")])
twin('C14-twin-rename-local', 'C14',
     'rename a local in run_mapping',
     [(P+'cli/from_specified_markers.py', "traceback_msg", "tb_text", 3)])
twin('C14-twin-extra-log', 'C14',
     'an extra neutral log line in the finally block',
     [(P+'cli/from_specified_markers.py',
       "        log.info(\"CLEANING UP\")\n",
       "        log.info(\"CLEANING UP\")\n"
       "        log.info(\"writing outputs\")\n")])
