"""
Self-test catalogue: single edits that break a property's structural
condition (kind 'mutant', with the rule that must report it) and
behaviour-preserving twins (kind 'twin', on which every rule must stay
silent).  Edits are applied to scratch copies and analysed, never run.
An edit whose anchor text no longer occurs in the tree under test is
reported as stale, not as a failure.
"""

P = 'src/cell_type_mapper/'
CASES = []


def mutant(id, prop, desc, edits, expect, expect_key=''):
    CASES.append({'id': id, 'prop': prop, 'kind': 'mutant', 'desc': desc,
                  'edits': edits, 'expect': expect,
                  'expect_key': expect_key})


def twin(id, prop, desc, edits):
    CASES.append({'id': id, 'prop': prop, 'kind': 'twin', 'desc': desc,
                  'edits': edits})


# ----------------------------------------------------------------------
# C14
# ----------------------------------------------------------------------
_FINAL_DRAIN_LIST = ("    while len(process_list) > 0:\n"
                     "        process_list = winnow_process_list("
                     "process_list)\n")

mutant('C14-drop-drain-election', 'C14',
       'delete the final drain loop of the mapping dispatcher',
       [(P+'type_assignment/election.py', _FINAL_DRAIN_LIST, '')],
       'R-PAIR/worker-drain', 'election')
mutant('C14-drop-drain-precompute', 'C14',
       'delete the final drain loop of the statistics stage',
       [(P+'diff_exp/precompute_from_anndata.py', _FINAL_DRAIN_LIST, '')],
       'R-PAIR/worker-drain', 'precompute')
mutant('C14-drop-drain-transpose', 'C14',
       'delete the final drain loop of the parallel transposition',
       [(P+'utils/csc_to_csr_parallel.py', _FINAL_DRAIN_LIST, '')],
       'R-PAIR/worker-drain', 'csc_to_csr_parallel')
mutant('C14-join-instead-of-drain', 'C14',
       'replace the final drain by join() without exit-code inspection',
       [(P+'utils/csc_to_csr_parallel.py', _FINAL_DRAIN_LIST,
         "    for p in process_list:\n        p.join()\n")],
       'R-PAIR/worker-drain', 'csc_to_csr_parallel')
mutant('C14-drop-drain-selection', 'C14',
       'delete the final drain loop of query marker selection',
       [(P+'marker_selection/selection_pipeline.py',
         "    while len(process_dict) > 0:\n"
         "        process_dict = winnow_process_dict(process_dict)\n", '')],
       'R-PAIR/worker-drain', 'selection_pipeline')
mutant('C14-clear-pool-before-drain', 'C14',
       'empty the pool before the final drain',
       [(P+'type_assignment/election.py', _FINAL_DRAIN_LIST,
         "    process_list = []\n" + _FINAL_DRAIN_LIST)],
       'R-PAIR/worker-drain', 'election')
mutant('C14-exitcode-gt0-list', 'C14',
       '`exitcode != 0` -> `> 0` in winnow_process_list (signals are '
       'negative)',
       [(P+'utils/multiprocessing_utils.py',
         "            if process_list[ii].exitcode != 0:",
         "            if process_list[ii].exitcode > 0:")],
       'R-DRAIN/raises')
mutant('C14-exitcode-eq1-dict', 'C14',
       '`exitcode != 0` -> `== 1` in winnow_process_dict',
       [(P+'utils/multiprocessing_utils.py',
         "            if process_dict[k].exitcode != 0:",
         "            if process_dict[k].exitcode == 1:")],
       'R-DRAIN/raises')
mutant('C14-warn-instead-of-raise', 'C14',
       'winnow_process_dict prints instead of raising',
       [(P+'utils/multiprocessing_utils.py',
         "                raise RuntimeError(\n"
         "                    f\"One of the processes (key={k}) exited "
         "with code \"\n"
         "                    f\"{process_dict[k].exitcode}\")",
         "                print(\n"
         "                    f\"One of the processes (key={k}) exited "
         "with code \"\n"
         "                    f\"{process_dict[k].exitcode}\")")],
       'R-DRAIN/raises')
mutant('C14-pop-running', 'C14',
       'winnow_process_dict also drops processes that are still running',
       [(P+'utils/multiprocessing_utils.py',
         "        if process_dict[k].exitcode is not None:\n"
         "            if process_dict[k].exitcode != 0:",
         "        if True:\n"
         "            if process_dict[k].exitcode:")],
       'R-DRAIN/raises/removal')
mutant('C14-worker-swallows', 'C14',
       'the mapping worker catches every exception and prints it',
       [(P+'type_assignment/election.py',
         "    assignment = run_type_assignment(\n"
         "        full_query_gene_data=query_cell_chunk,",
         "    try:\n"
         "        assignment = run_type_assignment(\n"
         "            full_query_gene_data=query_cell_chunk,\n"
         "            leaf_node_matrix=leaf_node_matrix,\n"
         "            marker_gene_cache_path=marker_gene_cache_path,\n"
         "            taxonomy_tree=taxonomy_tree,\n"
         "            bootstrap_factor_lookup=bootstrap_factor_lookup,\n"
         "            bootstrap_iteration=bootstrap_iteration,\n"
         "            rng=rng,\n"
         "            n_assignments=n_assignments)\n"
         "    except Exception as err:\n"
         "        print(err)\n"
         "        return\n"
         "    assignment = run_type_assignment(\n"
         "        full_query_gene_data=query_cell_chunk,")],
       'R-HANDLER/no-swallow')
mutant('C14-success-in-finally', 'C14',
       'the success message is logged from the finally block',
       [(P+'cli/from_specified_markers.py',
         "        log.info(\"MAPPING FROM SPECIFIED MARKERS RAN "
         "SUCCESSFULLY\")\n", ""),
        (P+'cli/from_specified_markers.py',
         "        log.info(\"CLEANING UP\")\n",
         "        log.info(\"CLEANING UP\")\n"
         "        log.info(\"MAPPING FROM SPECIFIED MARKERS RAN "
         "SUCCESSFULLY\")\n")],
       'R-MUST/run-mapping/success-msg')
mutant('C14-no-reraise', 'C14',
       'run_mapping swallows the failure of _run_mapping',
       [(P+'cli/from_specified_markers.py',
         "        log.add_msg(traceback_msg)\n        raise\n",
         "        log.add_msg(traceback_msg)\n")],
       'R-MUST/run-mapping')
mutant('C14-results-preseeded', 'C14',
       'the output dict is created with an (empty) results list',
       [(P+'cli/from_specified_markers.py',
         "    output = dict()\n\n    if 'tmp_dir' not in config:",
         "    output = {'results': []}\n\n    if 'tmp_dir' not in config:")],
       'R-MUST/run-mapping/results')
mutant('C14-results-in-finally', 'C14',
       'the finally block stores a results entry',
       [(P+'cli/from_specified_markers.py',
         "        output[\"config\"] = safe_config\n",
         "        output[\"config\"] = safe_config\n"
         "        output[\"results\"] = output.get(\"results\", [])\n")],
       'R-MUST/run-mapping/results')
mutant('C14-stats-file-early-complete', 'C14',
       'the statistics stage copies a complete file into place before '
       'draining',
       [(P+'diff_exp/markers.py',
         "    tmp_dir = tempfile.mkdtemp(dir=tmp_dir, "
         "prefix='find_markers_')\n    tmp_dir = pathlib.Path(tmp_dir)\n",
         "    tmp_dir = tempfile.mkdtemp(dir=tmp_dir, "
         "prefix='find_markers_')\n    tmp_dir = pathlib.Path(tmp_dir)\n"
         "    shutil.copy(src=precomputed_stats_path, dst=output_path)\n")],
       'R-MUST/publish-after-drain')
mutant('C14-mask-merge-before-drain', 'C14',
       'the p-value mask is merged (all keys written) before the final '
       'drain',
       [(P+'diff_exp/p_value_mask.py',
         "    del cluster_stats\n    del tree_as_leaves\n"
         "    del this_cluster_stats\n",
         "    _merge_masks(\n        src_path_list=tmp_path_list,\n"
         "        dst_path=dst_path)\n"
         "    del cluster_stats\n    del tree_as_leaves\n"
         "    del this_cluster_stats\n")],
       'R-MUST/publish-after-drain')
mutant('C14-hdf5-results-unguarded', 'C14',
       'blob_to_hdf5 ignores a missing results key',
       [(P+'utils/output_utils.py',
         "    elif 'results' not in output_blob:\n"
         "        run_succeeded = False\n", "")],
       'R-GUARD/hdf5-results-present')
mutant('C14-csv-before-election', 'C14',
       'the CSV is written from a stale variable before the election ran',
       [(P+'cli/from_specified_markers.py',
         "    csv_result[\"assignments\"] = result\n",
         "    csv_result[\"assignments\"] = []\n")],
       'R-MUST/run-mapping/csv-source')

twin('C14-twin-drain-neq', 'C14',
     'final drain written as `while len(x) != 0`',
     [(P+'type_assignment/election.py',
       "    while len(process_list) > 0:\n"
       "        process_list = winnow_process_list(process_list)\n",
       "    while len(process_list) != 0:\n"
       "        process_list = winnow_process_list(process_list)\n")])
twin('C14-twin-drain-truthy', 'C14',
     'final drain written as `while process_list:`',
     [(P+'utils/csc_to_csr_parallel.py',
       "    while len(process_list) > 0:\n"
       "        process_list = winnow_process_list(process_list)\n",
       "    while process_list:\n"
       "        process_list = winnow_process_list(process_list)\n")])
twin('C14-twin-exitcode-truthy', 'C14',
     'exit-code test written as truthiness',
     [(P+'utils/multiprocessing_utils.py',
       "            if process_dict[k].exitcode != 0:",
       "            if process_dict[k].exitcode:")])
twin('C14-twin-narrow-handler', 'C14',
     'worker translates a KeyError into a RuntimeError (re-raises)',
     [(P+'type_assignment/election.py',
       "    for idx in range(len(assignment)):\n"
       "        assignment[idx]['cell_id'] = query_cell_names[idx]\n",
       "    try:\n"
       "        for idx in range(len(assignment)):\n"
       "            assignment[idx]['cell_id'] = query_cell_names[idx]\n"
       "    except Exception as err:\n"
       "        raise RuntimeError('bad chunk') from err\n")])
twin('C14-twin-rename-local', 'C14',
     'rename a local in run_mapping',
     [(P+'cli/from_specified_markers.py', "traceback_msg", "tb_text", 3)])
twin('C14-twin-extra-log', 'C14',
     'an extra neutral log line in the finally block',
     [(P+'cli/from_specified_markers.py',
       "        log.info(\"CLEANING UP\")\n",
       "        log.info(\"CLEANING UP\")\n"
       "        log.info(\"writing outputs\")\n")])


# ----------------------------------------------------------------------
# C19
# ----------------------------------------------------------------------
mutant('C19-result-dir-release-in-try', 'C19',
       'tmp_result_dir is released at the end of the try body only '
       '(the defect fixed by the F2 commit)',
       [(P+'cli/from_specified_markers.py',
         "        log.info(\"MAPPING FROM SPECIFIED MARKERS RAN "
         "SUCCESSFULLY\")\n",
         "        _clean_up(tmp_result_dir)\n"
         "        log.info(\"MAPPING FROM SPECIFIED MARKERS RAN "
         "SUCCESSFULLY\")\n"),
        (P+'cli/from_specified_markers.py',
         "        _clean_up(tmp_result_dir)\n        _clean_up(tmp_dir)\n",
         "        _clean_up(tmp_dir)\n")],
       'R-PAIR/tempdir/mapping-run-any-exit', 'tmp_result_dir')
mutant('C19-no-release-tmp-dir', 'C19',
       'run_mapping never releases its scratch directory',
       [(P+'cli/from_specified_markers.py',
         "        _clean_up(tmp_result_dir)\n        _clean_up(tmp_dir)\n",
         "        _clean_up(tmp_result_dir)\n")],
       'R-PAIR/tempdir', 'run_mapping:tmp_dir')
mutant('C19-check-after-mkdtemp', 'C19',
       'the explicit output-path check (which raises) sits between the '
       'acquisition of tmp_dir and the try block',
       [(P+'cli/from_specified_markers.py',
         "    tmp_result_dir = None\n\n    try:\n",
         "    tmp_result_dir = None\n\n"
         "    if log_path is not None and not log_path.parent.is_dir():\n"
         "        raise RuntimeError('bad log path')\n\n    try:\n")],
       'R-PAIR/tempdir/mapping-run-any-exit', 'run_mapping:tmp_dir')
mutant('C19-validate-no-finally', 'C19',
       'validate_h5ad forgets to release its scratch directory',
       [(P+'validation/validate_h5ad.py',
         "    finally:\n        _clean_up(tmp_dir)\n\n    return result\n",
         "    finally:\n        pass\n\n    return result\n")],
       'R-PAIR/tempdir/normal', 'validate_h5ad')
mutant('C19-filetracker-no-del-cleanup', 'C19',
       'FileTracker.__del__ no longer removes its directory',
       [(P+'file_tracker/file_tracker.py',
         "            _clean_up(self.tmp_dir)\n", "            pass\n")],
       'R-PAIR/tempdir', 'FileTracker')
mutant('C19-early-return-skips-cleanup', 'C19',
       'an early return before the cleanup at the end of the function',
       [(P+'validation/utils.py',
         "    else:\n        raise RuntimeError(\n"
         "            \"Do not know how to handle encoding-type \"\n"
         "            f\"{encoding_type}\")\n\n    _clean_up(tmp_dir)\n",
         "    else:\n        return\n\n    _clean_up(tmp_dir)\n")],
       'R-PAIR/tempdir/normal', 'round_x_to_integers')
mutant('C19-open-input-append', 'C19',
       'the non-negativity check opens the query file in append mode',
       [(P+'validation/utils.py',
         "    layer_key = _layer_to_layer_key(layer)\n"
         "    with h5py.File(h5ad_path, 'r') as in_file:\n"
         "        attrs = dict(in_file[layer_key].attrs)\n"
         "        if 'encoding-type' not in attrs:\n"
         "            dtype = None",
         "    layer_key = _layer_to_layer_key(layer)\n"
         "    with h5py.File(h5ad_path, 'a') as in_file:\n"
         "        attrs = dict(in_file[layer_key].attrs)\n"
         "        if 'encoding-type' not in attrs:\n"
         "            dtype = None")],
       'R-EFFECT/input-untouched', "query_path")
mutant('C19-move-input', 'C19',
       'the reference-marker stage moves (instead of reading) the '
       'statistics file',
       [(P+'diff_exp/markers.py',
         "    with h5py.File(precomputed_stats_path, 'r') as in_file:\n"
         "        n_genes = len(json.loads(\n"
         "            in_file['col_names'][()].decode('utf-8')))\n\n"
         "    t0 = time.time()\n\n    add_sparse_by_gene_markers_to_file(",
         "    with h5py.File(precomputed_stats_path, 'r') as in_file:\n"
         "        n_genes = len(json.loads(\n"
         "            in_file['col_names'][()].decode('utf-8')))\n"
         "    shutil.move(src=precomputed_stats_path,\n"
         "                dst=tmp_dir / 'stats.h5')\n\n"
         "    t0 = time.time()\n\n    add_sparse_by_gene_markers_to_file(")],
       'R-EFFECT/input-untouched', 'precomputed_path_list')
mutant('C19-buffer-dir-not-fresh', 'C19',
       'the election uses the result directory itself as its buffer '
       'directory and lists it',
       [(P+'type_assignment/election.py',
         "        buffer_dir = pathlib.Path(\n"
         "                tempfile.mkdtemp(\n"
         "                    dir=results_output_path,\n"
         "                    prefix='results_buffer_'))\n",
         "        buffer_dir = pathlib.Path(results_output_path)\n"),
        (P+'cli/from_specified_markers.py',
         "            tmp_result_dir = tempfile.mkdtemp(\n"
         "                dir=config['tmp_dir'],\n"
         "                prefix='result_buffer_')\n",
         "            tmp_result_dir = config['tmp_dir']\n")],
       'R-FRESH/listing')
mutant('C19-shared-worker-output', 'C19',
       'the per-worker output file of the parallel transposition is '
       'created once, before the dispatch loop',
       [(P+'utils/csc_to_csr_parallel.py',
         "    path_list = []\n    process_list = []\n"
         "    for i0 in range(0, indices_max, indices_chunk_size):\n\n"
         "        i1 = min(indices_max, i0+indices_chunk_size)\n\n"
         "        tmp_path = pathlib.Path(\n"
         "                mkstemp_clean(\n"
         "                    dir=tmp_dir,\n"
         "                    suffix='.h5',\n"
         "                    prefix=f'transpose_{i0}_{i1}_'))\n",
         "    path_list = []\n    process_list = []\n"
         "    tmp_path = pathlib.Path(\n"
         "            mkstemp_clean(\n"
         "                dir=tmp_dir,\n"
         "                suffix='.h5',\n"
         "                prefix='transpose_'))\n"
         "    for i0 in range(0, indices_max, indices_chunk_size):\n\n"
         "        i1 = min(indices_max, i0+indices_chunk_size)\n\n")],
       'R-FRESH/worker-output', 'csc_to_csr_parallel')
mutant('C19-fixed-chunk-file-name', 'C19',
       'every mapping worker writes the same file name in the buffer '
       'directory',
       [(P+'type_assignment/election.py',
         "f\"{r0}_{r1}_assignment.json\"", "\"assignment.json\"")],
       'R-FRESH/worker-output', 'election')
mutant('C19-write-outside-outputs', 'C19',
       'the query-marker CLI also writes next to its query input',
       [(P+'cli/query_markers.py',
         "        with open(self.args['output_path'], 'w') as dst:\n",
         "        with open(str(self.args['query_path']) + '.json', 'w')"
         " as dst2:\n"
         "            dst2.write('{}')\n"
         "        with open(self.args['output_path'], 'w') as dst:\n")],
       'R-EFFECT')

twin('C19-twin-rmtree', 'C19',
     'release with shutil.rmtree instead of _clean_up',
     [(P+'validation/validate_h5ad.py',
       "    finally:\n        _clean_up(tmp_dir)\n\n    return result\n",
       "    finally:\n        import shutil\n"
       "        shutil.rmtree(tmp_dir)\n\n    return result\n")])
twin('C19-twin-finally-instead-of-tail', 'C19',
     'cleanup at the end of the function becomes try/finally',
     [(P+'utils/csc_to_csr_parallel.py',
       "    finally:\n        _clean_up(tmp_dir)\n",
       "    finally:\n        scratch = tmp_dir\n"
       "        _clean_up(scratch)\n")])
twin('C19-twin-extra-nested-tmp', 'C19',
     'an extra temp file under an already released directory',
     [(P+'validation/validate_h5ad.py',
       "    original_h5ad_path = pathlib.Path(h5ad_path)\n\n",
       "    original_h5ad_path = pathlib.Path(h5ad_path)\n"
       "    spare_path = mkstemp_clean(dir=tmp_dir, suffix='.txt')\n"
       "    print(spare_path)\n\n")])
twin('C19-twin-read-input-twice', 'C19',
     'an extra read-only open of the query file',
     [(P+'type_assignment/election_runner.py',
       "    if normalization == 'raw':\n",
       "    import h5py\n"
       "    with h5py.File(query_h5ad_path, 'r') as probe:\n"
       "        probe.keys()\n"
       "    if normalization == 'raw':\n")])
twin('C19-twin-cleanup-conditional', 'C19',
     'release guarded by `if x is not None`',
     [(P+'cli/from_specified_markers.py',
       "        _clean_up(tmp_result_dir)\n        _clean_up(tmp_dir)\n",
       "        if tmp_result_dir is not None:\n"
       "            _clean_up(tmp_result_dir)\n"
       "        if tmp_dir is not None:\n"
       "            _clean_up(tmp_dir)\n")])


# ----------------------------------------------------------------------
# C01
# ----------------------------------------------------------------------
mutant('C01-drop-reorder', 'C01', 'delete the re_order_blob call',
       [(P+'type_assignment/election_runner.py',
         "    result = re_order_blob(\n        results_blob=result,\n"
         "        query_path=query_h5ad_path)\n\n", "")],
       'R-MUST/reorder')
mutant('C01-names-off-by-one', 'C01',
       'names sliced with r0:r1-1',
       [(P+'type_assignment/election.py',
         "        name_chunk = query_cell_names[r0:r1]\n",
         "        name_chunk = query_cell_names[r0:r1-1]\n")],
       'R-SAMEVAL/ids-rows', 'upper-bound')
mutant('C01-names-from-counter', 'C01',
       'names sliced with a running counter instead of the chunk bounds',
       [(P+'type_assignment/election.py',
         "        name_chunk = query_cell_names[r0:r1]\n",
         "        name_chunk = query_cell_names["
         "chunk_index*chunk_size:(chunk_index+1)*chunk_size]\n")],
       'R-SAMEVAL/ids-rows')
mutant('C01-names-sorted', 'C01', 'the obs names are sorted',
       [(P+'type_assignment/election.py',
         "    query_cell_names = list(obs.index.values)\n",
         "    query_cell_names = sorted(obs.index.values)\n")],
       'R-SAMEVAL/ids-rows', 'names-from-obs')
mutant('C01-swap-bounds', 'C01', 'r0 and r1 taken from swapped positions',
       [(P+'type_assignment/election.py',
         "        r0 = chunk[1]\n        r1 = chunk[2]\n",
         "        r0 = chunk[2]\n        r1 = chunk[1]\n")],
       'R-SAMEVAL/ids-rows')
mutant('C01-worker-label-shift', 'C01',
       'the worker labels row i with name i-1',
       [(P+'type_assignment/election.py',
         "        assignment[idx]['cell_id'] = query_cell_names[idx]\n",
         "        assignment[idx]['cell_id'] = query_cell_names[idx-1]\n")],
       'R-SAMEVAL/ids-rows', 'worker')
mutant('C01-cursor-skips-row', 'C01',
       'the CSR iterator advances its cursor one row too far',
       [(P+'anndata_iterator/anndata_iterator.py',
         "        chunk = self.get_chunk(r0=self.r0, r1=r1)\n"
         "        self.r0 = r1\n        return chunk\n\n"
         "    def get_chunk(self, r0, r1):\n"
         "        \"\"\"\n        Returns the tuple (data[r0:r1, :], r0, "
         "r1)\n        \"\"\"\n        with self.h5_handler as h5_handle:"
         "\n            chunk = load_csr(",
         "        chunk = self.get_chunk(r0=self.r0, r1=r1)\n"
         "        self.r0 = r1 + 1\n        return chunk\n\n"
         "    def get_chunk(self, r0, r1):\n"
         "        \"\"\"\n        Returns the tuple (data[r0:r1, :], r0, "
         "r1)\n        \"\"\"\n        with self.h5_handler as h5_handle:"
         "\n            chunk = load_csr(")],
       'R-SAMEVAL/chunk-protocol', 'advance')
mutant('C01-dense-chunk-wrong-bounds', 'C01',
       'the dense iterator reports bounds that are not the ones it cut',
       [(P+'anndata_iterator/anndata_iterator.py',
         "            chunk = h5_handle[self.data_key][r0:r1, :]\n"
         "        return (chunk, r0, r1)\n\n    def get_batch",
         "            chunk = h5_handle[self.data_key][r0:r1, :]\n"
         "        return (chunk, r0, r0 + chunk.shape[0] + 1)\n\n"
         "    def get_batch")],
       'R-SAMEVAL/chunk-protocol', 'DenseArrayRowIterator.get_chunk')
mutant('C01-writeback-enumerate', 'C01',
       'results are written back by enumeration order, not by the '
       'selecting index',
       [(P+'type_assignment/election.py',
         "            for i_cell, assigned_type, prob, corr, r_up in zip(\n"
         "                            chosen_idx,\n",
         "            for i_cell, assigned_type, prob, corr, r_up in zip(\n"
         "                            range(len(assignment)),\n")],
       'R-SAMEVAL/write-back')
mutant('C01-rowsets-local-coordinates', 'C01',
       'row sets for the next level stored in sub-chunk coordinates',
       [(P+'type_assignment/election.py',
         "                assigned_this = chosen_idx[assigned_this]\n",
         "                assigned_this = np.where(assigned_this)[0]\n")],
       'R-SAMEVAL/write-back', 'row-sets')
mutant('C01-backfill-reduced-tree', 'C01',
       'levels are back-filled with the reduced tree',
       [(P+'cli/from_specified_markers.py',
         "    result = tree_for_metadata.backfill_assignments(result)\n",
         "    result = taxonomy_tree.backfill_assignments(result)\n")],
       'R-PROV/tree-version', 'backfill')
mutant('C01-no-backfill', 'C01', 'the back-fill call is removed',
       [(P+'cli/from_specified_markers.py',
         "    result = tree_for_metadata.backfill_assignments(result)\n",
         "")],
       'R-PROV/tree-version')
mutant('C01-output-reduced-tree', 'C01',
       'the reduced tree is embedded in the output',
       [(P+'cli/from_specified_markers.py',
         "    output[\"taxonomy_tree\"] = json.loads("
         "tree_for_metadata.to_str())\n",
         "    output[\"taxonomy_tree\"] = json.loads("
         "taxonomy_tree.to_str(drop_cells=True))\n")],
       'R-PROV/tree-version', "output['taxonomy_tree']")
mutant('C01-backfill-alias', 'C01',
       'the inferred record aliases the child record',
       [(P+'taxonomy/taxonomy_tree.py',
         "                new_data = copy.deepcopy(cell[child_level])\n",
         "                new_data = cell[child_level]\n")],
       'R-ALIAS/backfill')
mutant('C01-backfill-flag-true', 'C01',
       'inferred levels are flagged as directly assigned',
       [(P+'taxonomy/taxonomy_tree.py',
         "                new_data['directly_assigned'] = False\n",
         "                new_data['directly_assigned'] = True\n")],
       'R-CONST/backfill-flag')
mutant('C01-backfill-keeps-runner-up', 'C01',
       'inferred levels keep the runner-up fields',
       [(P+'taxonomy/taxonomy_tree.py',
         "                    if k.startswith('runner_up'):\n"
         "                        new_data.pop(k)\n",
         "                    if k.startswith('runner_up'):\n"
         "                        pass\n")],
       'R-CONST/backfill-runner-up')
mutant('C01-none-level-key', 'C01',
       'correlation back-fill iterates over [None]+hierarchy again (the '
       'defect fixed by the F1 commit)',
       [(P+'type_assignment/election.py',
         "        for parent_level, child_level in zip(hierarchy[:-1], "
         "hierarchy[1:]):\n",
         "        for parent_level, child_level in zip(level_list[:-1], "
         "level_list[1:]):\n")],
       'R-GUARD/level-key')
mutant('C01-reorder-wrong-file', 'C01',
       're_order_blob is given the statistics file',
       [(P+'type_assignment/election_runner.py',
         "        query_path=query_h5ad_path)\n\n    return result",
         "        query_path=precomputed_stats_path)\n\n    return result")],
       'R-MUST/reorder')
mutant('C01-reorder-keeps-input-order', 'C01',
       're_order_blob iterates the blob instead of the obs index',
       [(P+'utils/output_utils.py',
         "    results_blob = list([\n"
         "        results_blob[c] for c in cell_order])\n",
         "    results_blob = list([\n"
         "        results_blob[c] for c in results_blob])\n")],
       'R-MUST/reorder/order-source')

twin('C01-twin-unpack-chunk', 'C01',
     'chunk unpacked as a tuple instead of by index',
     [(P+'type_assignment/election.py',
       "        r0 = chunk[1]\n        r1 = chunk[2]\n"
       "        name_chunk = query_cell_names[r0:r1]\n\n"
       "        data = chunk[0]\n",
       "        (data, r0, r1) = chunk\n"
       "        name_chunk = query_cell_names[r0:r1]\n")])
twin('C01-twin-rename-result', 'C01',
     'rename a local in the election runner',
     [(P+'type_assignment/election_runner.py',
       "    result = re_order_blob(\n        results_blob=result,\n"
       "        query_path=query_h5ad_path)\n\n    return result",
       "    ordered = re_order_blob(\n        results_blob=result,\n"
       "        query_path=query_h5ad_path)\n\n    return ordered")])
twin('C01-twin-backfill-dict-copy', 'C01',
     'inferred record copied with dict(...) instead of deepcopy',
     [(P+'taxonomy/taxonomy_tree.py',
       "                new_data = copy.deepcopy(cell[child_level])\n",
       "                new_data = dict(cell[child_level])\n")])
twin('C01-twin-guarded-none-key', 'C01',
     'a [None]+hierarchy loop whose record access is guarded',
     [(P+'type_assignment/election.py',
       "    # add aggregate_probability (the product of "
       "bootstrapping_probability)\n",
       "    for cell in result:\n"
       "        for parent_level, child_level in zip(level_list[:-1], "
       "level_list[1:]):\n"
       "            if parent_level is not None:\n"
       "                assert cell[parent_level] is not None\n"
       "    # add aggregate_probability (the product of "
       "bootstrapping_probability)\n")])
twin('C01-twin-positional-reorder', 'C01',
     're_order_blob called with positional arguments',
     [(P+'type_assignment/election_runner.py',
       "    result = re_order_blob(\n        results_blob=result,\n"
       "        query_path=query_h5ad_path)\n",
       "    result = re_order_blob(result, query_h5ad_path)\n")])


# ----------------------------------------------------------------------
# C17
# ----------------------------------------------------------------------
mutant('C17-election-gets-stored-tree', 'C17',
       'the election is run on the stored (unreduced) tree',
       [(P+'cli/from_specified_markers.py',
         "        marker_gene_cache_path=query_marker_tmp,\n"
         "        taxonomy_tree=taxonomy_tree,\n"
         "        n_processors=type_assignment_config['n_processors'],",
         "        marker_gene_cache_path=query_marker_tmp,\n"
         "        taxonomy_tree=tree_for_metadata,\n"
         "        n_processors=type_assignment_config['n_processors'],")],
       'R-PROV/latest-tree', 'run_type_assignment_on_h5ad')
mutant('C17-markers-before-flatten', 'C17',
       'the marker report is computed from a tree captured before '
       'flattening',
       [(P+'cli/from_specified_markers.py',
         "    if config['flatten']:\n\n"
         "        taxonomy_tree = taxonomy_tree.flatten()\n",
         "    tree_before_flatten = taxonomy_tree\n"
         "    if config['flatten']:\n\n"
         "        taxonomy_tree = taxonomy_tree.flatten()\n"),
        (P+'cli/from_specified_markers.py',
         "        marker_cache_path=query_marker_tmp,\n"
         "        taxonomy_tree=taxonomy_tree)\n",
         "        marker_cache_path=query_marker_tmp,\n"
         "        taxonomy_tree=tree_before_flatten)\n")],
       'R-PROV/latest-tree', 'serialize_markers')
mutant('C17-drop-guard-removed', 'C17',
       'the membership guard before drop_level in _run_mapping is removed',
       [(P+'cli/from_specified_markers.py',
         "        if config['drop_level'] in taxonomy_tree.hierarchy:\n"
         "            taxonomy_tree = taxonomy_tree.drop_level("
         "config['drop_level'])\n",
         "        taxonomy_tree = taxonomy_tree.drop_level("
         "config['drop_level'])\n")],
       'R-GUARD/drop-level-membership', '_run_mapping')
mutant('C17-drop-guard-removed-refmarkers', 'C17',
       'the reference-marker CLI drops the level unconditionally (the '
       'defect fixed by the F4 commit)',
       [(P+'cli/reference_markers.py',
         "                if self.args['drop_level'] in "
         "taxonomy_tree.hierarchy:\n"
         "                    taxonomy_tree = taxonomy_tree.drop_level(\n"
         "                        self.args['drop_level'])\n",
         "                taxonomy_tree = taxonomy_tree.drop_level(\n"
         "                    self.args['drop_level'])\n")],
       'R-GUARD/drop-level-membership', 'reference_markers')
mutant('C17-guard-on-other-tree', 'C17',
       'membership is tested on the stored tree, the drop applied to '
       'another',
       [(P+'cli/from_specified_markers.py',
         "        if config['drop_level'] in taxonomy_tree.hierarchy:\n",
         "        if config['drop_level'] in tree_for_metadata.hierarchy:"
         "\n")],
       'R-GUARD/drop-level-membership', '_run_mapping')
mutant('C17-flatten-keeps-marker-groups', 'C17',
       'the tree is flattened but the marker table keeps its groups',
       [(P+'cli/from_specified_markers.py',
         "        marker_lookup = {'None': all_markers}\n", "")],
       'R-PROV/flatten-markers')
mutant('C17-flatten-unsorted-subset', 'C17',
       'under flatten only the root list is used',
       [(P+'cli/from_specified_markers.py',
         "        marker_lookup = {'None': all_markers}\n",
         "        marker_lookup = {'None': marker_lookup['None']}\n")],
       'R-PROV/flatten-markers')
mutant('C17-leaf-means-other-tree', 'C17',
       'leaf means are read with a freshly loaded (unreduced) tree',
       [(P+'type_assignment/election.py',
         "    leaf_node_matrix = get_leaf_means(\n"
         "        taxonomy_tree=taxonomy_tree,\n",
         "    from cell_type_mapper.taxonomy.taxonomy_tree import "
         "TaxonomyTree\n"
         "    leaf_node_matrix = get_leaf_means(\n"
         "        taxonomy_tree=TaxonomyTree.from_precomputed_stats(\n"
         "            precomputed_stats_path),\n")],
       'R-SAMEVAL/stats-through-tree')

twin('C17-twin-guard-and', 'C17',
     'guard written as a conjunction',
     [(P+'cli/from_specified_markers.py',
       "    if config['drop_level'] is not None:\n"
       "        if config['drop_level'] in taxonomy_tree.hierarchy:\n"
       "            taxonomy_tree = taxonomy_tree.drop_level("
       "config['drop_level'])\n",
       "    if config['drop_level'] is not None \\\n"
       "            and config['drop_level'] in taxonomy_tree.hierarchy:\n"
       "        taxonomy_tree = taxonomy_tree.drop_level("
       "config['drop_level'])\n")])
twin('C17-twin-guard-negated', 'C17',
     'guard written as `not in ...: pass else: drop`',
     [(P+'cli/reference_markers.py',
       "                if self.args['drop_level'] in "
       "taxonomy_tree.hierarchy:\n"
       "                    taxonomy_tree = taxonomy_tree.drop_level(\n"
       "                        self.args['drop_level'])\n",
       "                if self.args['drop_level'] not in "
       "taxonomy_tree.hierarchy:\n"
       "                    pass\n"
       "                else:\n"
       "                    taxonomy_tree = taxonomy_tree.drop_level(\n"
       "                        self.args['drop_level'])\n")])
twin('C17-twin-sorted-call', 'C17',
     'flattened marker list built with sorted(...)',
     [(P+'cli/from_specified_markers.py',
       "        all_markers = list(all_markers)\n"
       "        all_markers.sort()\n",
       "        all_markers = sorted(all_markers)\n")])


# ----------------------------------------------------------------------
# C10
# ----------------------------------------------------------------------
mutant('C10-no-validate', 'C10', 'the constructor no longer validates',
       [(P+'taxonomy/taxonomy_tree.py',
         "        validate_taxonomy_tree(self._data)\n", "")],
       'R-MUST/validated-on-construction')
mutant('C10-validate-conditional', 'C10',
       'validation is skipped for trees carrying metadata',
       [(P+'taxonomy/taxonomy_tree.py',
         "        validate_taxonomy_tree(self._data)\n",
         "        if 'metadata' not in self._data:\n"
         "            validate_taxonomy_tree(self._data)\n")],
       'R-MUST/validated-on-construction')
mutant('C10-validate-argument', 'C10',
       'the argument (not the stored copy) is validated, then stored data '
       'is patched',
       [(P+'taxonomy/taxonomy_tree.py',
         "        self._data = copy.deepcopy(data)\n"
         "        validate_taxonomy_tree(self._data)\n",
         "        validate_taxonomy_tree(data)\n"
         "        self._data = copy.deepcopy(data)\n")],
       'R-MUST/validated-on-construction')
mutant('C10-no-private-copy', 'C10',
       'the constructor keeps the caller\'s dict',
       [(P+'taxonomy/taxonomy_tree.py',
         "        self._data = copy.deepcopy(data)\n",
         "        self._data = data\n")],
       'R-ENCAPS/private-copy')
mutant('C10-children-alias', 'C10',
       'children() returns the internal list (callers sort it in place)',
       [(P+'taxonomy/taxonomy_tree.py',
         "        return list(self._data[level][node])\n",
         "        return self._data[level][node]\n")],
       'R-ENCAPS/escape', 'children')
mutant('C10-flatten-in-place', 'C10',
       'flatten works on the internal dict instead of a deep copy',
       [(P+'taxonomy/taxonomy_tree.py',
         "        new_data = copy.deepcopy(self._data)\n"
         "        if 'metadata' in new_data:\n"
         "            new_data['metadata']['flattened'] = True\n",
         "        new_data = self._data\n"
         "        if 'metadata' in new_data:\n"
         "            new_data['metadata']['flattened'] = True\n")],
       'R-ENCAPS/no-mutation', 'flatten')
mutant('C10-drop-level-shallow-copy', 'C10',
       '_drop_level works on a shallow copy: nested lists are shared',
       [(P+'taxonomy/taxonomy_tree.py',
         "        new_data = copy.deepcopy(self._data)\n"
         "        if 'metadata' in new_data:\n"
         "            if 'dropped_levels' not in new_data['metadata']:\n",
         "        new_data = self._data\n"
         "        if 'metadata' in new_data:\n"
         "            if 'dropped_levels' not in new_data['metadata']:\n")],
       'R-ENCAPS/no-mutation', '_drop_level')
mutant('C10-to-str-drops-cells-in-place', 'C10',
       'to_str(drop_cells=True) empties the leaf lists of the tree itself',
       [(P+'taxonomy/taxonomy_tree.py',
         "            out_dict = copy.deepcopy(self._data)\n"
         "            for leaf in out_dict[self.leaf_level]:\n",
         "            out_dict = self._data\n"
         "            for leaf in out_dict[self.leaf_level]:\n")],
       'R-ENCAPS/no-mutation', 'to_str')
mutant('C10-helper-mutates', 'C10',
       'convert_tree_to_leaves sorts the lists of the tree it is given',
       [(P+'taxonomy/utils.py',
         "    hierarchy = taxonomy_tree['hierarchy']\n"
         "    result = dict()\n    for this_level in hierarchy:\n"
         "        this_result = dict()\n",
         "    hierarchy = taxonomy_tree['hierarchy']\n"
         "    result = dict()\n    for this_level in hierarchy:\n"
         "        this_result = dict()\n"
         "        for _node in taxonomy_tree[this_level]:\n"
         "            taxonomy_tree[this_level][_node].sort()\n")],
       'R-ENCAPS/no-mutation/helper')
mutant('C10-setter-method', 'C10',
       'a new method re-binds _data without validation',
       [(P+'taxonomy/taxonomy_tree.py',
         "    def drop_leaf_level(self):\n",
         "    def replace_level(self, level, value):\n"
         "        new_data = copy.deepcopy(self._data)\n"
         "        new_data[level] = value\n"
         "        self._data = new_data\n\n"
         "    def drop_leaf_level(self):\n")],
       'R-ENCAPS/assigned-only-in-init')
mutant('C10-two-parents-accepted', 'C10',
       'a node with two parents only triggers a warning',
       [(P+'taxonomy/utils.py',
         "                        msg += f\"{child_to_parent[child_level]"
         "[this_child]}\"\n                        raise RuntimeError(msg)"
         "\n",
         "                        msg += f\"{child_to_parent[child_level]"
         "[this_child]}\"\n                        warnings.warn(msg)\n")],
       'R-ARMS/validator-raises')
mutant('C10-duplicate-rows-check-removed', 'C10',
       'the unique-rows check is removed',
       [(P+'taxonomy/utils.py',
         "    if unq_ct.max() > 1:\n",
         "    if False:\n")],
       'R-EXH/validator-checks', 'two leaves')
mutant('C10-missing-child-check-removed', 'C10',
       'children that do not exist at the child level are accepted',
       [(P+'taxonomy/utils.py',
         "                if this_child not in child_set:\n",
         "                if False:\n")],
       'R-EXH/validator-checks', 'listed child exists')
mutant('C10-orphan-check-removed', 'C10',
       'nodes without a parent are accepted',
       [(P+'taxonomy/utils.py',
         "        for child in child_set:\n"
         "            if child not in with_parent:\n"
         "                raise RuntimeError(\n"
         "                    f\"{child_level}:{child} has no parent at "
         "level \"\n"
         "                    f\"{parent_level}\")\n", "")],
       'R-EXH/validator-checks', 'has a parent')

twin('C10-twin-validate-first-on-copy', 'C10',
     'validation on a local copy that is then stored',
     [(P+'taxonomy/taxonomy_tree.py',
       "        self._data = copy.deepcopy(data)\n"
       "        validate_taxonomy_tree(self._data)\n",
       "        self._data = copy.deepcopy(data)\n"
       "        stored = self._data\n"
       "        validate_taxonomy_tree(stored)\n")])
twin('C10-twin-new-pure-accessor', 'C10',
     'a new accessor returning a fresh list',
     [(P+'taxonomy/taxonomy_tree.py',
       "    def drop_leaf_level(self):\n",
       "    def levels_above_leaf(self):\n"
       "        return list(self._data['hierarchy'][:-1])\n\n"
       "    def drop_leaf_level(self):\n")])
twin('C10-twin-caller-sorts-own-copy', 'C10',
     'another caller sorts the fresh list it gets from children()',
     [(P+'type_assignment/utils.py',
       "def validate_bootstrap_factor_lookup(",
       "def _sorted_children(taxonomy_tree, level, node):\n"
       "    kids = taxonomy_tree.children(level, node)\n"
       "    kids.sort()\n"
       "    return kids\n\n\n"
       "def validate_bootstrap_factor_lookup(")])
twin('C10-twin-unique-via-set', 'C10',
     'unique-rows check written with len(set(...))',
     [(P+'taxonomy/utils.py',
       "    if unq_ct.max() > 1:\n",
       "    if len(set(all_rows)) != len(all_rows):\n")])


# ----------------------------------------------------------------------
# C05 / C13
# ----------------------------------------------------------------------
mutant('C05-drop-load-floor', 'C05',
       'the enforced minimum of the load chunk size is removed',
       [(P+'utils/csc_to_csr.py',
         "    load_chunk_size = load_chunk_size//2\n\n"
         "    load_chunk_size = max(100, load_chunk_size)\n",
         "    load_chunk_size = load_chunk_size//2\n")],
       'R-POS/range-step', '_calculate_csr_indptr')
mutant('C05-drop-fill-floor', 'C05',
       'the enforced minimum of the fill-pass load size is removed',
       [(P+'utils/csc_to_csr.py',
         "    load_chunk_size = max(100, load_chunk_size)\n"
         "    elements_at_a_time = max(100, elements_at_a_time)\n",
         "    elements_at_a_time = max(100, elements_at_a_time)\n")],
       'R-POS/range-step', 'transpose_sparse_matrix_on_disk')
mutant('C05-data-chunks-unguarded', 'C05',
       'the data dataset of the transposition is chunked by the raw count '
       '(the defect fixed by the F3 commit)',
       [(P+'utils/csc_to_csr.py',
         "                dtype=data_dtype,\n                chunks=chunks)\n",
         "                dtype=data_dtype,\n"
         "                chunks=(min(n_non_zero, 1000000),))\n")],
       'R-POS/chunk-extent', 'transpose_sparse_matrix_on_disk')
mutant('C05-csc-arm-removed', 'C05',
       'the CSC arm of the row iterator is removed (CSC files fall into '
       'the error branch)',
       [(P+'anndata_iterator/anndata_iterator.py',
         "        elif encoding_type.startswith('csc'):\n"
         "            self._initialize_as_csc(\n"
         "                h5ad_path=h5ad_path,\n"
         "                row_chunk_size=row_chunk_size,\n"
         "                tmp_dir=tmp_dir,\n"
         "                keep_open=keep_open)\n", "")],
       'R-EXH')
mutant('C05-csc-read-as-csr', 'C05',
       'CSC files are accepted by the CSR arm (prefix test on "cs")',
       [(P+'anndata_iterator/anndata_iterator.py',
         "        if encoding_type.startswith('csr') and array_shape is not "
         "None:",
         "        if encoding_type.startswith('cs') and array_shape is not "
         "None:")],
       'R-EXH/iterator-arms')
mutant('C05-ge-zero-no-sparse', 'C05',
       'the non-negativity probe no longer knows sparse encodings',
       [(P+'validation/utils.py',
         "        elif 'csr' in attrs['encoding-type'] \\\n"
         "                or 'csc' in attrs['encoding-type']:\n"
         "            return _get_minmax_from_sparse(in_file[layer_key])\n"
         "        else:\n            pass\n",
         "        else:\n"
         "            raise RuntimeError('unknown encoding')\n")],
       'R-EXH/encoding', 'get_minmax_x_from_h5ad')
mutant('C05-round-int-no-csc', 'C05',
       'integer rounding handles csr only',
       [(P+'validation/utils.py',
         "    elif 'csr' in encoding_type or 'csc' in encoding_type:\n"
         "        _round_sparse_x_to_integers(",
         "    elif 'csr' in encoding_type:\n"
         "        _round_sparse_x_to_integers(")],
       'R-EXH/encoding', 'round_x_to_integers')
mutant('C05-stop-test-off', 'C05',
       'the dense iterator stops one row early',
       [(P+'anndata_iterator/anndata_iterator.py',
         "        if self.r0 >= self.n_rows:\n"
         "            if self.h5_handle is not None:\n"
         "                self.h5_handle = None\n"
         "            raise StopIteration\n"
         "        r1 = min(self.n_rows, self.r0+self.row_chunk_size)\n"
         "        chunk = self.get_chunk(r0=self.r0, r1=r1)\n"
         "        self.r0 = r1\n        return chunk\n\n"
         "    def get_chunk(self, r0, r1):\n"
         "        \"\"\"\n        Returns the tuple (data[r0:r1, :], r0, "
         "r1)\n        \"\"\"\n        with self.h5_handler as h5_handle:"
         "\n            chunk = h5_handle[self.data_key][r0:r1, :]",
         "        if self.r0 >= self.n_rows - 1:\n"
         "            if self.h5_handle is not None:\n"
         "                self.h5_handle = None\n"
         "            raise StopIteration\n"
         "        r1 = min(self.n_rows, self.r0+self.row_chunk_size)\n"
         "        chunk = self.get_chunk(r0=self.r0, r1=r1)\n"
         "        self.r0 = r1\n        return chunk\n\n"
         "    def get_chunk(self, r0, r1):\n"
         "        \"\"\"\n        Returns the tuple (data[r0:r1, :], r0, "
         "r1)\n        \"\"\"\n        with self.h5_handler as h5_handle:"
         "\n            chunk = h5_handle[self.data_key][r0:r1, :]")],
       'R-SAMEVAL/cursor', 'stop')

twin('C05-twin-floor-as-if', 'C05',
     'the enforced minimum written as an explicit zero test',
     [(P+'utils/csc_to_csr.py',
       "    load_chunk_size = load_chunk_size//2\n\n"
       "    load_chunk_size = max(100, load_chunk_size)\n",
       "    load_chunk_size = load_chunk_size//2\n\n"
       "    if load_chunk_size < 1:\n        load_chunk_size = 100\n")])
twin('C05-twin-eq-dispatch', 'C05',
     'iterator dispatch written with equality tests',
     [(P+'anndata_iterator/anndata_iterator.py',
       "        elif encoding_type.startswith('csc'):",
       "        elif encoding_type == 'csc_matrix':")])

mutant('C13-join-chunks-unguarded', 'C13',
       'the join of the parallel transposition chunks by the raw count',
       [(P+'utils/csc_to_csr_parallel.py',
         "            shape=(indices_size,),\n"
         "            chunks=indices_chunks,\n"
         "            dtype=indices_dtype)",
         "            shape=(indices_size,),\n"
         "            chunks=(min(indices_size, 1000000),),\n"
         "            dtype=indices_dtype)")],
       'R-POS/chunk-extent', '_transpose_sparse_matrix_on_disk_v2')
mutant('C13-data-chunk-by-indptr', 'C13',
       'the data dataset of the join is chunked by the pointer count '
       '(larger than its own shape for small matrices)',
       [(P+'utils/csc_to_csr_parallel.py',
         "                shape=(indices_size,),\n"
         "                chunks=indices_chunks,\n",
         "                shape=(indices_size,),\n"
         "                chunks=(min(indptr_size, 1000000),),\n")],
       'R-SAMEVAL/chunk-vs-shape')
mutant('C13-amalgamate-unguarded', 'C13',
       'stacked CSR data chunked by the raw number of stored entries',
       [(P+'utils/anndata_utils.py',
         "            shape=(n_valid,),\n            chunks=data_chunks,\n"
         "            dtype=data_dtype,",
         "            shape=(n_valid,),\n"
         "            chunks=min(n_valid, 20000),\n"
         "            dtype=data_dtype,")],
       'R-POS/chunk-extent', 'amalgamate_csr_to_x')
mutant('C13-h5copy-floor-removed', 'C13',
       'the copy hyperslab size loses its floor of 1',
       [(P+'utils/h5_utils.py',
         "        chosen = max(1, min(per_dim, this_n))\n",
         "        chosen = min(per_dim, this_n)\n")],
       'R-POS/range-step', '_get_slices_for_copy')
mutant('C13-overlapping-pieces', 'C13',
       'worker sub-ranges overlap by one index',
       [(P+'utils/csc_to_csr_parallel.py',
         "        i1 = min(indices_max, i0+indices_chunk_size)\n",
         "        i1 = min(indices_max, i0+indices_chunk_size+1)\n")],
       'R-SAMEVAL/parallel-pieces', 'slice')
mutant('C13-join-sorted-by-name', 'C13',
       'the pieces are joined in file-name order',
       [(P+'utils/csc_to_csr_parallel.py',
         "    indices_size = 0\n    indptr_size = 0\n"
         "    for path in path_list:\n",
         "    path_list.sort()\n"
         "    indices_size = 0\n    indptr_size = 0\n"
         "    for path in path_list:\n")],
       'R-SAMEVAL/parallel-pieces', 'append-order')
mutant('C13-join-dir-listing', 'C13',
       'the pieces are joined in directory-listing order',
       [(P+'utils/csc_to_csr_parallel.py',
         "        chunk_size = 1000000\n        for path in path_list:\n",
         "        chunk_size = 1000000\n"
         "        for path in pathlib.Path(tmp_dir).iterdir():\n")],
       'R-SAMEVAL/parallel-pieces')
mutant('C13-copy-layer-no-csc', 'C13',
       'copy_layer_to_x no longer handles csc',
       [(P+'utils/anndata_utils.py',
         "    elif 'csr' in encoding_type or 'csc' in encoding_type:\n"
         "        _copy_layer_to_x_sparse(",
         "    elif 'csr' in encoding_type:\n"
         "        _copy_layer_to_x_sparse(")],
       'R-EXH/encoding', 'copy_layer_to_x')

twin('C13-twin-chunks-helper-var', 'C13',
     'guarded chunk extent computed through an intermediate variable',
     [(P+'utils/csc_to_csr_parallel.py',
       "    if indices_size > 0:\n"
       "        indices_chunks = (min(indices_size, 1000000),)\n",
       "    if indices_size > 0:\n"
       "        n_chunk = min(indices_size, 1000000)\n"
       "        indices_chunks = (n_chunk,)\n")])
twin('C13-twin-rename-loop-var', 'C13',
     'rename the dispatch loop variable',
     [(P+'utils/csc_to_csr_parallel.py', "i0", "lo", 4)])


# ----------------------------------------------------------------------
# C15
# ----------------------------------------------------------------------
mutant('C15-reader-renamed-dataset', 'C15',
       'the HDF5 reader looks for avg_correlation instead of '
       'average_correlation',
       [(P+'utils/output_utils.py',
         "        corr = src['average_correlation'][()]\n",
         "        corr = src['avg_correlation'][()]\n")],
       'R-SCHEMA/hdf5-datasets')
mutant('C15-reader-swaps-arrays', 'C15',
       'the reader fills avg_correlation from the probability array',
       [(P+'utils/output_utils.py',
         "                'avg_correlation': corr[i_cell, i_level],\n",
         "                'avg_correlation': prob[i_cell, i_level],\n")],
       'R-SCHEMA/hdf5-field-map', 'avg_correlation')
mutant('C15-writer-swaps-runner-up', 'C15',
       'the writer stores runner-up correlations in the probability array',
       [(P+'utils/output_utils.py',
         "                    r_prob[i_cell, i_level, i_r] = cell[level][\n"
         "                            'runner_up_probability'][i_r]\n",
         "                    r_prob[i_cell, i_level, i_r] = cell[level][\n"
         "                            'runner_up_correlation'][i_r]\n")],
       'R-SCHEMA/hdf5-field-map')
mutant('C15-writer-zip-misaligned', 'C15',
       'dataset names and arrays are zipped in a different order',
       [(P+'utils/output_utils.py',
         "                              (assignments,\n"
         "                               prob,\n"
         "                               agg_prob,\n"
         "                               corr,\n",
         "                              (assignments,\n"
         "                               agg_prob,\n"
         "                               prob,\n"
         "                               corr,\n")],
       'R-SCHEMA/hdf5-field-map')
mutant('C15-padding-zero', 'C15',
       'runner-up arrays are padded with 0 (a valid node index)',
       [(P+'utils/output_utils.py', "    bad_val = -1\n",
         "    bad_val = 0\n")],
       'R-CONST/hdf5-padding')
mutant('C15-reader-stop-le', 'C15',
       'the reader stops on `<= 0`, dropping runners-up with index 0',
       [(P+'utils/output_utils.py',
         "                        if r_assignment[i_cell, i_level, i_r] < 0:",
         "                        if r_assignment[i_cell, i_level, i_r] <= "
         "0:")],
       'R-CONST/hdf5-padding')
mutant('C15-reader-runner-up-always', 'C15',
       'the reader gives inferred levels runner-up lists too',
       [(P+'utils/output_utils.py',
         "            if directly_assigned[i_level]:\n"
         "                this.update({",
         "            if True:\n"
         "                this.update({")],
       'R-GUARD/hdf5-runner-up-where-direct')
mutant('C15-consumer-unknown-key', 'C15',
       'the HDF5 writer reads a record key nobody produces',
       [(P+'utils/output_utils.py',
         "            corr[i_cell, i_level] = cell[level]"
         "['avg_correlation']\n",
         "            corr[i_cell, i_level] = cell[level]"
         "['average_correlation']\n")],
       'R-SCHEMA/record-keys')
mutant('C15-producer-renames-key', 'C15',
       'the election renames a record key',
       [(P+'type_assignment/election.py',
         "                    'avg_correlation': corr,\n",
         "                    'average_correlation': corr,\n")],
       'R-SCHEMA/record-keys')
mutant('C15-runner-up-filter-differs', 'C15',
       'runner-up probabilities are not filtered by the validity flag',
       [(P+'type_assignment/election.py',
         "                    runner_up_probability = [\n"
         "                        this[3] for this in r_up if this[1]]\n",
         "                    runner_up_probability = [\n"
         "                        this[3] for this in r_up]\n")],
       'R-SAMEVAL/runner-up-filter')
mutant('C15-width-no-plus-one', 'C15',
       'n_assignments = n_runners_up (no +1)',
       [(P+'cli/from_specified_markers.py',
         "        n_assignments=type_assignment_config['n_runners_up']+1,\n",
         "        n_assignments=type_assignment_config['n_runners_up'],\n")],
       'R-CONST/runner-up-width')
mutant('C15-confidence-key-swapped', 'C15',
       'the CSV confidence column uses the probability for single '
       'iteration runs',
       [(P+'cli/from_specified_markers.py',
         "            confidence_key = 'avg_correlation'\n"
         "            confidence_label = 'correlation_coefficient'\n"
         "        else:\n"
         "            confidence_key = 'bootstrapping_probability'\n",
         "            confidence_key = 'bootstrapping_probability'\n"
         "            confidence_label = 'correlation_coefficient'\n"
         "        else:\n"
         "            confidence_key = 'avg_correlation'\n")],
       'R-CONST/confidence-key')
mutant('C15-csv-three-decimals', 'C15', 'three decimals in the CSV',
       [(P+'utils/output_utils.py', "float_format='%.4f'",
         "float_format='%.3f'")],
       'R-CONST/csv-format')
mutant('C15-csv-no-version-line', 'C15',
       'the version comment line is not written',
       [(P+'utils/output_utils.py',
         "        dst.write(version_str)\n", "")],
       'R-MUST/csv-header', 'version')
mutant('C15-csv-rows-before-header', 'C15',
       'the hierarchy line is written after the rows',
       [(P+'utils/output_utils.py',
         "        dst.write(f'# taxonomy hierarchy = {str_hierarchy}\\n')\n",
         ""),
        (P+'utils/output_utils.py',
         "        csv_df.to_csv(dst, index=False, float_format='%.4f')\n",
         "        csv_df.to_csv(dst, index=False, float_format='%.4f')\n"
         "        dst.write(f'# taxonomy hierarchy = {str_hierarchy}\\n')\n")],
       'R-MUST/csv-header', 'hierarchy')

twin('C15-twin-direct-create', 'C15',
     'one dataset created directly instead of in the zip loop',
     [(P+'utils/output_utils.py',
       "        dst.create_dataset(\n            'cell_id',\n"
       "            data=cell_id)\n",
       "        dst.create_dataset(\n            'cell_id',\n"
       "            data=cell_id)\n"
       "        dst.create_dataset(\n            'n_cells',\n"
       "            data=n_cells)\n")])
twin('C15-twin-reader-local-names', 'C15',
     'rename array variables in the reader',
     [(P+'utils/output_utils.py', "agg_prob", "aggregate", 7)])
twin('C15-twin-pad-constant-inline', 'C15',
     'padding written as np.full(..., -1)',
     [(P+'utils/output_utils.py',
       "        r_assignments = bad_val*np.ones(\n"
       "            (n_cells, n_levels, n_runners_up), dtype=int)\n",
       "        r_assignments = np.full(\n"
       "            (n_cells, n_levels, n_runners_up), -1, dtype=int)\n")])


# ----------------------------------------------------------------------
# C09
# ----------------------------------------------------------------------
mutant('C09-sum-is-mean', 'C09', "'sum' computed as a mean",
       [(P+'utils/stats_utils.py',
         "    result['sum'] = data.sum(axis=0)\n",
         "    result['sum'] = data.mean(axis=0)\n")],
       'R-AXIS/additive-statistic', 'sum')
mutant('C09-sumsq-square-of-sum', 'C09',
       "'sumsq' computed as the square of the sum",
       [(P+'utils/stats_utils.py',
         "    result['sumsq'] = (data**2).sum(axis=0)\n",
         "    result['sumsq'] = data.sum(axis=0)**2\n")],
       'R-AXIS/additive-statistic', 'sumsq')
mutant('C09-gt0-wrong-axis', 'C09', "'gt0' counted along the gene axis",
       [(P+'utils/stats_utils.py',
         "    result['gt0'] = (data > zero_cutoff).sum(axis=0)\n",
         "    result['gt0'] = (data > zero_cutoff).sum(axis=1)\n")],
       'R-AXIS/additive-statistic', 'gt0')
mutant('C09-merge-skips-ge1', 'C09',
       "the buffer merge skips 'ge1'",
       [(P+'diff_exp/precompute_from_anndata.py',
         "            for k in src.keys():\n"
         "                if k == 'n_cells':\n"
         "                    final_output[k][:] += src[k][()]\n",
         "            for k in src.keys():\n"
         "                if k == 'ge1':\n"
         "                    continue\n"
         "                if k == 'n_cells':\n"
         "                    final_output[k][:] += src[k][()]\n")],
       'R-MUST/merge-covers-every-key')
mutant('C09-chunk-accumulate-overwrites', 'C09',
       'per-chunk statistics overwrite instead of accumulate',
       [(P+'diff_exp/precompute_from_anndata.py',
         "                buffer_dict[k][unq_cluster, :] += summary_chunk[k]"
         "\n",
         "                buffer_dict[k][unq_cluster, :] = summary_chunk[k]"
         "\n")],
       'R-MUST/merge-covers-every-key')
mutant('C09-buffer-missing-key', 'C09',
       "the worker buffer has no 'gt1' array",
       [(P+'diff_exp/precompute_from_anndata.py',
         "    buffer_dict['gt1'] = np.zeros((n_clusters, n_genes), "
         "dtype=int)\n", "")],
       'R-SCHEMA/stats-key-table', 'gt1')
mutant('C09-empty-file-missing-key', 'C09',
       "the output file is created without 'sumsq'",
       [(P+'diff_exp/precompute.py',
         "        for (k, dt) in (('sum', float), ('sumsq', float),\n",
         "        for (k, dt) in (('sum', float),\n")],
       'R-SCHEMA/stats-key-table', 'sumsq')
mutant('C09-sentinel-zero', 'C09', 'the unknown-cell sentinel is row 0',
       [(P+'diff_exp/precompute_from_anndata.py',
         "    bad_row_idx = -999\n", "    bad_row_idx = 0\n")],
       'R-GUARD/unknown-cells-skipped', 'value')
mutant('C09-sentinel-not-skipped', 'C09',
       'unknown cells are no longer skipped',
       [(P+'diff_exp/precompute_from_anndata.py',
         "        if unq_cluster == bad_row_idx:\n            continue\n",
         "")],
       'R-GUARD/unknown-cells-skipped')
mutant('C09-cpm-chunk-total', 'C09',
       'CPM normalisation divides by the total of the whole chunk',
       [(P+'cell_by_gene/utils.py',
         "    row_sums = np.sum(data, axis=1)\n",
         "    row_sums = np.sum(data)\n")],
       'R-AXIS/row-wise-normalisation')
mutant('C09-taxonomy-first', 'C09',
       'the taxonomy dataset is written before the numeric data',
       [(P+'diff_exp/precompute_from_anndata.py',
         "    precompute_summary_stats_from_h5ad_and_lookup(\n"
         "        data_path_list=[data_path],",
         "    with h5py.File(output_path, 'a') as out_file:\n"
         "        out_file.create_dataset(\n"
         "            'taxonomy_tree',\n"
         "            data=taxonomy_tree.to_str().encode('utf-8'))\n"
         "    precompute_summary_stats_from_h5ad_and_lookup(\n"
         "        data_path_list=[data_path],")],
       'R-MUST/taxonomy-written-last')
mutant('C09-reader-renamed-key', 'C09',
       "the reader asks for 'n_cell'",
       [(P+'diff_exp/score_utils.py',
         "        all_keys = set(['n_cells', 'sum', 'sumsq', 'gt0', 'gt1', "
         "'ge1'])\n",
         "        all_keys = set(['n_cell', 'sum', 'sumsq', 'gt0', 'gt1', "
         "'ge1'])\n")],
       'R-SCHEMA/stats-readers')

twin('C09-twin-np-sum', 'C09', 'statistic written with np.sum(E, axis=0)',
     [(P+'utils/stats_utils.py',
       "    result['sum'] = data.sum(axis=0)\n",
       "    result['sum'] = np.sum(data, axis=0)\n")])
twin('C09-twin-square-fn', 'C09', 'squares written with np.square',
     [(P+'utils/stats_utils.py',
       "    result['sumsq'] = (data**2).sum(axis=0)\n",
       "    result['sumsq'] = (data*data).sum(axis=0)\n")])
twin('C09-twin-merge-one-arm', 'C09',
     'merge loop written with a single arm',
     [(P+'diff_exp/precompute_from_anndata.py',
       "                if k == 'n_cells':\n"
       "                    final_output[k][:] += src[k][()]\n"
       "                else:\n"
       "                    final_output[k][:, :] += src[k][()]\n",
       "                final_output[k][...] += src[k][()]\n")])


# ----------------------------------------------------------------------
# C18
# ----------------------------------------------------------------------
mutant('C18-stats-writer-renames-col-names', 'C18',
       "the statistics stage writes 'gene_names' instead of 'col_names'",
       [(P+'diff_exp/precompute.py',
         "                'col_names',\n", "                'gene_names',\n")],
       'R-SCHEMA/stage-boundary', 'col_names')
mutant('C18-marker-file-renames-group', 'C18',
       "the by-gene marker group is written as 'by_gene'",
       [(P+'diff_exp/markers.py',
         "        dst.create_group('sparse_by_gene')\n",
         "        dst.create_group('by_gene')\n"),
        (P+'diff_exp/markers.py',
         "                grp = dst['sparse_by_gene']\n",
         "                grp = dst['by_gene']\n")],
       'R-SCHEMA/stage-boundary', 'sparse_by_gene')
mutant('C18-cache-writer-renames', 'C18',
       "the marker cache stores 'query_genes' instead of "
       "'query_gene_names'",
       [(P+'type_assignment/marker_cache_v2.py',
         "            \"query_gene_names\",\n",
         "            \"query_genes\",\n")],
       'R-SCHEMA/stage-boundary', 'query_gene_names')
mutant('C18-mask-reader-needs-extra', 'C18',
       'the p-value marker worker requires a dataset the mask stage never '
       'writes',
       [(P+'diff_exp/p_value_markers.py',
         "        p_indptr = src['indptr'][()]\n",
         "        p_indptr = src['indptr'][()]\n"
         "        n_rows_mask = src['n_rows'][()]\n")],
       'R-SCHEMA/stage-boundary', 'n_rows')
mutant('C18-marker-genes-from-query', 'C18',
       'the marker file records the query gene list as its gene names',
       [(P+'diff_exp/markers.py',
         "    idx_to_pair = _prep_output_file(\n"
         "            output_path=tmp_output_path,\n"
         "            taxonomy_tree=taxonomy_tree,\n"
         "            gene_names=gene_names)\n",
         "    idx_to_pair = _prep_output_file(\n"
         "            output_path=tmp_output_path,\n"
         "            taxonomy_tree=taxonomy_tree,\n"
         "            gene_names=list(gene_list or gene_names))\n")],
       'R-PROV/identified-by-name')
mutant('C18-rows-by-position', 'C18',
       'cluster rows are taken by enumeration order, not cluster_to_row',
       [(P+'diff_exp/score_utils.py',
         "    for leaf_name in row_lookup:\n"
         "        idx = row_lookup[leaf_name]\n",
         "    for idx, leaf_name in enumerate(row_lookup):\n")],
       'R-PROV/identified-by-name')
mutant('C18-lookup-extra-key', 'C18',
       'the query-marker CLI adds a top-level key the mapper does not '
       'strip',
       [(P+'cli/query_markers.py',
         "        marker_lookup['metadata'] = metadata\n",
         "        marker_lookup['metadata'] = metadata\n"
         "        marker_lookup['provenance'] = 'query_markers'\n")],
       'R-SCHEMA/marker-lookup-extra-keys')

twin('C18-twin-extra-dataset', 'C18',
     'the statistics stage writes an additional dataset',
     [(P+'diff_exp/precompute.py',
       "        out_file.create_dataset('n_cells', shape=(n_clusters,), "
       "dtype=int)\n",
       "        out_file.create_dataset('n_cells', shape=(n_clusters,), "
       "dtype=int)\n"
       "        out_file.create_dataset('n_genes', data=n_genes)\n")])
twin('C18-twin-optional-read', 'C18',
     'a reader probes an optional dataset behind a membership test',
     [(P+'type_assignment/marker_cache_v2.py',
       "    with h5py.File(marker_cache_path, \"r\") as src:\n",
       "    with h5py.File(marker_cache_path, \"r\") as src:\n"
       "        if 'cache_version' in src:\n"
       "            print(src['cache_version'][()])\n")])


# ----------------------------------------------------------------------
# C16
# ----------------------------------------------------------------------
mutant('C16-round-original', 'C16',
       'rounding is applied to the input file instead of the scratch copy',
       [(P+'validation/validate_h5ad.py',
         "            round_x_to_integers(\n"
         "                h5ad_path=tmp_h5ad_path,\n",
         "            round_x_to_integers(\n"
         "                h5ad_path=original_h5ad_path,\n")],
       'R-EFFECT')
mutant('C16-var-written-to-input', 'C16',
       'the mapped var frame is written into the input file',
       [(P+'validation/validate_h5ad.py',
         "            write_df_to_h5ad(\n"
         "                h5ad_path=tmp_h5ad_path,\n",
         "            write_df_to_h5ad(\n"
         "                h5ad_path=original_h5ad_path,\n")],
       'R-EFFECT')
mutant('C16-open-input-rplus', 'C16',
       'the open-probe opens the input read-write',
       [(P+'validation/validate_h5ad.py',
         "        with h5py.File(original_h5ad_path, 'r') as src:\n"
         "            pass\n",
         "        with h5py.File(original_h5ad_path, 'r+') as src:\n"
         "            pass\n")],
       'R-EFFECT/input-untouched')
mutant('C16-return-scratch-path', 'C16',
       'the scratch path is returned instead of the copied file',
       [(P+'validation/validate_h5ad.py',
         "        output_path = new_h5ad_path\n",
         "        output_path = tmp_h5ad_path\n")],
       'R-PROV/no-change-no-file', 'returned-path')
mutant('C16-always-write', 'C16',
       'the output file is written even when nothing changes',
       [(P+'validation/validate_h5ad.py',
         "    write_to_new_path = False\n    has_warnings = False\n",
         "    write_to_new_path = True\n    has_warnings = False\n")],
       'R-PROV/no-change-no-file', 'nothing-to-change')
mutant('C16-census-after-copy', 'C16',
       'the duplicate-gene check runs after the output was written',
       [(P+'validation/validate_h5ad.py',
         "    if log is not None:\n"
         "        msg = f\"DONE VALIDATING ../{original_h5ad_path.name}; \"",
         "    _check_input_gene_names(\n"
         "        var_df=var_original,\n        log=log)\n"
         "    if log is not None:\n"
         "        msg = f\"DONE VALIDATING ../{original_h5ad_path.name}; \"")],
       'R-MUST/output-written-last', 'no-rejection-after-copy')
mutant('C16-dup-genes-warn-with-log', 'C16',
       'with a log, two genes mapping to one identifier only warn',
       [(P+'validation/validate_h5ad.py',
         "                if log is not None:\n"
         "                    log.error(error_msg)\n"
         "                else:\n"
         "                    raise RuntimeError(error_msg)\n\n"
         "            write_df_to_h5ad(",
         "                if log is not None:\n"
         "                    log.warn(error_msg)\n"
         "                else:\n"
         "                    raise RuntimeError(error_msg)\n\n"
         "            write_df_to_h5ad(")],
       'R-ARMS/log-arms')
mutant('C16-dup-cells-accepted', 'C16',
       'repeated cell ids no longer raise',
       [(P+'validation/validate_h5ad.py',
         "            f\"{msg}\"\n        )\n        raise RuntimeError(msg)\n",
         "            f\"{msg}\"\n        )\n        warnings.warn(msg)\n")],
       'R-MUST/census-raises', 'duplicate-cell-ids')
mutant('C16-minmax-of-X', 'C16',
       'min/max is measured on X although another layer was requested',
       [(P+'validation/validate_h5ad.py',
         "        x_minmax = get_minmax_x_from_h5ad(\n"
         "            h5ad_path=original_h5ad_path,\n"
         "            layer=layer)\n",
         "        x_minmax = get_minmax_x_from_h5ad(\n"
         "            h5ad_path=original_h5ad_path)\n")],
       'R-SAMEVAL/layer', 'get_minmax_x_from_h5ad')
mutant('C16-log-error-returns', 'C16',
       'CommandLog.error only records the message',
       [(P+'cli/cli_log.py',
         "    def error(self, msg):\n        raise RuntimeError(msg)\n",
         "    def error(self, msg):\n"
         "        self._log.append(self._prepend_time(msg))\n")],
       'R-ARMS/log-error-raises')
mutant('C16-mapped-count-after-copy', 'C16',
       'the mapped-gene count is recorded after the final copy',
       [(P+'validation/validate_h5ad.py',
         "        update_uns(\n            tmp_h5ad_path,\n"
         "            {'AIBS_CDM_n_mapped_genes': n_genes-n_unmapped_genes})"
         "\n\n",
         ""),
        (P+'validation/validate_h5ad.py',
         "            excluded_datasets=None)\n    else:\n"
         "        if new_h5ad_path.exists():",
         "            excluded_datasets=None)\n"
         "        update_uns(\n            tmp_h5ad_path,\n"
         "            {'AIBS_CDM_n_mapped_genes': n_genes-n_unmapped_genes})"
         "\n    else:\n"
         "        if new_h5ad_path.exists():")],
       'R-MUST/renaming-recorded')

twin('C16-twin-extra-readonly-probe', 'C16',
     'an additional read-only probe of the input',
     [(P+'validation/validate_h5ad.py',
       "    cast_to_int = False\n    if round_to_int:\n",
       "    with h5py.File(original_h5ad_path, 'r') as probe:\n"
       "        probe.keys()\n"
       "    cast_to_int = False\n    if round_to_int:\n")])
twin('C16-twin-arms-swapped', 'C16',
     'log conditional written the other way round',
     [(P+'validation/validate_h5ad.py',
       "        if log is None:\n"
       "            raise RuntimeError(msg)\n"
       "        else:\n"
       "            log.error(msg)\n\n    cast_to_int = False\n",
       "        if log is not None:\n"
       "            log.error(msg)\n"
       "        else:\n"
       "            raise RuntimeError(msg)\n\n    cast_to_int = False\n")])


# ----------------------------------------------------------------------
# C20
# ----------------------------------------------------------------------
mutant('C20-log-unsanitised', 'C20',
       'the raw log is stored in the output',
       [(P+'cli/from_specified_markers.py',
         "        output[\"log\"] = output_log\n",
         "        output[\"log\"] = log.log\n")],
       'R-MUST/sanitised', "output['log']")
mutant('C20-sanitise-skipped-for-log', 'C20',
       'the log copy is never passed through sanitize_paths',
       [(P+'cli/from_specified_markers.py',
         "        if config['cloud_safe']:\n"
         "            output_log = sanitize_paths(output_log)\n", "")],
       'R-MUST/sanitised', "output['log']")
mutant('C20-config-raw', 'C20',
       'the raw configuration is stored in the output',
       [(P+'cli/from_specified_markers.py',
         "        output[\"config\"] = safe_config\n",
         "        output[\"config\"] = config\n")],
       'R-MUST/sanitised', "output['config']")
mutant('C20-keep-tmp-dir-key', 'C20',
       'tmp_dir stays in the recorded configuration',
       [(P+'cli/from_specified_markers.py',
         "        safe_config.pop('tmp_dir')\n", "")],
       'R-MUST/dir-keys-removed', 'tmp_dir')
mutant('C20-write-log-no-flag', 'C20',
       'write_log is called without the cloud_safe flag',
       [(P+'cli/from_specified_markers.py',
         "            log.write_log(log_path, "
         "cloud_safe=config['cloud_safe'])\n",
         "            log.write_log(log_path)\n")],
       'R-MUST/sanitised', 'write_log')
mutant('C20-write-log-ignores-flag', 'C20',
       'write_log writes the raw lines',
       [(P+'cli/cli_log.py',
         "            for line in to_write:\n",
         "            for line in self.log:\n")],
       'R-MUST/sanitised', 'write_log')
mutant('C20-sanitiser-skips-lists', 'C20',
       'sanitize_paths no longer recurses into lists',
       [(P+'utils/cloud_utils.py',
         "        new_list = [sanitize_paths(w) for w in input_structure]\n",
         "        new_list = list(input_structure)\n")],
       'R-MUST/sanitizer-recursion', 'list')
mutant('C20-module-absolute', 'C20',
       'the metadata records the absolute module path',
       [(P+'utils/output_utils.py',
         "    metadata['module'] = str(module)\n",
         "    metadata['module'] = str(pathlib.Path(module_file))\n")],
       'R-MUST/module-relative')
mutant('C20-message-paren-path', 'C20',
       'a new message glues the query path to a bracket',
       [(P+'cli/from_specified_markers.py',
         "    log.benchmark(msg=\"validating config and copying data\",\n",
         "    log.info(f\"cannot read ({query_loc})\")\n"
         "    log.benchmark(msg=\"validating config and copying data\",\n")],
       'R-ROLE/path-in-message')
mutant('C20-message-equals-path', 'C20',
       'a new error message glues a path to `=`',
       [(P+'file_tracker/file_tracker.py',
         "                raise RuntimeError(\n"
         "                    f\"../{file_str}\\nis not a file\")\n",
         "                raise RuntimeError(\n"
         "                    f\"path={file_path}\\nis not a file\")\n")],
       'R-ROLE/path-in-message')
mutant('C20-otf-config-raw', 'C20',
       'the on-the-fly wrapper re-writes the config unsanitised',
       [(P+'cli/map_to_on_the_fly_markers.py',
         "                    metadata_config = sanitize_paths("
         "metadata_config)\n",
         "                    pass\n")],
       'R-MUST/sanitised', 'OnTheFlyMapper')

twin('C20-twin-message-name-only', 'C20',
     'a new message that shows only the file name',
     [(P+'cli/from_specified_markers.py',
       "    log.benchmark(msg=\"validating config and copying data\",\n",
       "    log.info(f\"reading ({query_loc.name})\")\n"
       "    log.benchmark(msg=\"validating config and copying data\",\n")])
twin('C20-twin-message-word-path', 'C20',
     'a new message with the path as its own word',
     [(P+'cli/from_specified_markers.py',
       "    log.benchmark(msg=\"validating config and copying data\",\n",
       "    log.info(f\"reading {query_loc} now\")\n"
       "    log.benchmark(msg=\"validating config and copying data\",\n")])
twin('C20-twin-sanitise-inline', 'C20',
     'the sanitised log is stored without the intermediate flag test '
     'being first',
     [(P+'cli/from_specified_markers.py',
       "        output_log = copy.deepcopy(log.log)\n"
       "        if config['cloud_safe']:\n"
       "            output_log = sanitize_paths(output_log)\n",
       "        if config['cloud_safe']:\n"
       "            output_log = sanitize_paths(copy.deepcopy(log.log))\n"
       "        else:\n"
       "            output_log = copy.deepcopy(log.log)\n")])


# ----------------------------------------------------------------------
# C04
# ----------------------------------------------------------------------
mutant('C04-unsorted-unique-types', 'C04',
       'aggregate_votes no longer sorts the distinct reference types',
       [(P+'type_assignment/election.py',
         "    unq_types = list(set(reference_types))\n"
         "    unq_types.sort()\n",
         "    unq_types = list(set(reference_types))\n")],
       'R-TAINT/order-to-sink')
mutant('C04-no-reorder-manager-list', 'C04',
       'the runner returns the shared list in completion order',
       [(P+'type_assignment/election_runner.py',
         "    result = re_order_blob(\n        results_blob=result,\n"
         "        query_path=query_h5ad_path)\n\n", "")],
       'R-TAINT/order-to-sink', 'run_type_assignment_on_h5ad')
mutant('C04-buffers-in-listing-order', 'C04',
       'the election reads its per-chunk files in directory order',
       [(P+'type_assignment/election.py',
         "        path_list = [n for n in buffer_dir.iterdir()]\n"
         "        path_list.sort()\n",
         "        path_list = [n for n in buffer_dir.iterdir()]\n")],
       'R-PROV/merge-order', 'election')
mutant('C04-otf-unsorted-listing', 'C04',
       'the on-the-fly mapper passes reference marker files in listing '
       'order (the defect fixed by the F5 commit)',
       [(P+'cli/map_to_on_the_fly_markers.py',
         "        reference_marker_files.sort()\n", "")],
       'R-TAINT/order-to-sink')
mutant('C04-merge-by-dict-of-set', 'C04',
       'sparse-by-pair pieces are merged in the order of a set of keys',
       [(P+'diff_exp/markers.py',
         "        col0_values = list(tmp_path_dict.keys())\n"
         "        col0_values.sort()\n",
         "        col0_values = list(set(tmp_path_dict.keys()))\n")],
       'R-PROV/merge-order', '_merge_sparse_by_pair_files')
mutant('C04-mask-merge-unsorted', 'C04',
       'p-value mask pieces are merged unsorted',
       [(P+'diff_exp/p_value_mask.py',
         "    idx_values = list(idx_to_path.keys())\n"
         "    idx_values.sort()\n\n    indices_dtype",
         "    idx_values = list(idx_to_path.keys())\n\n    indices_dtype")],
       'R-PROV/merge-order', '_merge_masks')
mutant('C04-unseeded-rng', 'C04',
       'the mapping generator is created without a seed',
       [(P+'cli/from_specified_markers.py',
         "    rng = np.random.default_rng(type_assignment_config"
         "['rng_seed'])\n",
         "    rng = np.random.default_rng()\n")],
       'R-PROV/seed')
mutant('C04-clock-seed', 'C04',
       'the mapping generator is seeded from the clock',
       [(P+'cli/from_specified_markers.py',
         "    rng = np.random.default_rng(type_assignment_config"
         "['rng_seed'])\n",
         "    rng = np.random.default_rng(int(time.time()))\n")],
       'R-PROV/seed')
mutant('C04-shared-rng', 'C04',
       'all workers receive the dispatcher\'s generator itself',
       [(P+'type_assignment/election.py',
         "                    'rng': np.random.default_rng("
         "rng.integers(99, 2**32)),\n",
         "                    'rng': rng,\n")],
       'R-PROV/seed/per-worker')
mutant('C04-global-sampler', 'C04',
       'the bootstrap subset is drawn with the global numpy sampler',
       [(P+'type_assignment/election.py',
         "        chosen_idx = rng.choice(marker_idx, n_bootstrap, "
         "replace=False)\n",
         "        chosen_idx = np.random.choice(marker_idx, n_bootstrap, "
         "replace=False)\n")],
       'R-PROV/seed/global-sampler')
mutant('C04-nproc-into-bootstrap', 'C04',
       'the number of bootstrap iterations depends on the worker count',
       [(P+'type_assignment/election.py',
         "                    'bootstrap_iteration': bootstrap_iteration,\n",
         "                    'bootstrap_iteration': max(\n"
         "                        bootstrap_iteration, n_processors),\n")],
       'R-PROV/worker-count-influence')
mutant('C04-marker-cache-no-cosort', 'C04',
       'the marker cache groups are written in set order (co-sort '
       'removed)',
       [(P+'type_assignment/marker_cache_v2.py',
         "                sorted_dex = np.argsort(these_reference)\n"
         "                these_reference = these_reference[sorted_dex]\n"
         "                these_query = these_query[sorted_dex]\n", "")],
       'R-TAINT/order-to-sink', 'write_query_markers_to_h5')
mutant('C04-first-match-over-set', 'C04',
       'validate_marker_lookup picks the first element of a set',
       [(P+'type_assignment/election.py',
         "    reference_types = np.array(reference_types)\n"
         "    unq_types = list(set(reference_types))\n",
         "    reference_types = np.array(reference_types)\n"
         "    first_type = next(iter(set(reference_types)))\n"
         "    reference_types[0] = first_type\n"
         "    unq_types = list(set(reference_types))\n")],
       'R-TAINT/order-to-sink')

twin('C04-twin-sorted-call', 'C04',
     'sorted(set(x)) instead of list(set(x)); .sort()',
     [(P+'type_assignment/election.py',
       "    unq_types = list(set(reference_types))\n"
       "    unq_types.sort()\n",
       "    unq_types = sorted(set(reference_types))\n")])
twin('C04-twin-extra-sort', 'C04', 'a redundant extra sort',
     [(P+'diff_exp/p_value_mask.py',
       "    idx_values = list(idx_to_path.keys())\n"
       "    idx_values.sort()\n\n    indices_dtype",
       "    idx_values = list(idx_to_path.keys())\n"
       "    idx_values.sort()\n    idx_values = sorted(idx_values)\n\n"
       "    indices_dtype")])
twin('C04-twin-set-membership', 'C04',
     'a new set used only for membership tests',
     [(P+'type_assignment/election.py',
       "    n_query = vote_array.shape[0]\n",
       "    known = set(unq_types)\n"
       "    assert all(t in known for t in reference_types)\n"
       "    n_query = vote_array.shape[0]\n")])
twin('C04-twin-dict-sort-only', 'C04',
     'sparse-by-pair merge keys taken from the dict without the set '
     '(dict keys are insertion ordered; the sort stays)',
     [(P+'diff_exp/markers.py',
       "        col0_values = list(tmp_path_dict.keys())\n"
       "        col0_values.sort()\n",
       "        col0_values = [k for k in tmp_path_dict]\n"
       "        col0_values.sort()\n")])
twin('C04-twin-spawned-seed', 'C04',
     'per-worker generator seeded through an intermediate variable',
     [(P+'type_assignment/election.py',
       "        p = multiprocessing.Process(\n"
       "                target=_run_type_assignment_on_h5ad_worker,\n",
       "        worker_seed = rng.integers(99, 2**32)\n"
       "        p = multiprocessing.Process(\n"
       "                target=_run_type_assignment_on_h5ad_worker,\n"),
      (P+'type_assignment/election.py',
       "                    'rng': np.random.default_rng("
       "rng.integers(99, 2**32)),\n",
       "                    'rng': np.random.default_rng(worker_seed),\n")])

twin('C04-twin-flatten-unsorted', 'C04',
     'the flattened marker list is not sorted (every consumer treats it '
     'as a set and the cache writer co-sorts)',
     [(P+'cli/from_specified_markers.py',
       "        all_markers = list(all_markers)\n"
       "        all_markers.sort()\n",
       "        all_markers = list(all_markers)\n")])
twin('C17-twin-flatten-unsorted', 'C17',
     'the flattened marker list is not sorted',
     [(P+'cli/from_specified_markers.py',
       "        all_markers = list(all_markers)\n"
       "        all_markers.sort()\n",
       "        all_markers = list(all_markers)\n")])


# ----------------------------------------------------------------------
# C02 / C06 (kernel axes, subsets)
# ----------------------------------------------------------------------
mutant('C02-with-replacement', 'C02', 'marker subset drawn with replacement',
       [(P+'type_assignment/election.py',
         "rng.choice(marker_idx, n_bootstrap, replace=False)",
         "rng.choice(marker_idx, n_bootstrap, replace=True)")],
       'R-IDIOM/draw-without-replacement')
mutant('C02-integers-draw', 'C02', 'marker subset drawn with rng.integers',
       [(P+'type_assignment/election.py',
         "rng.choice(marker_idx, n_bootstrap, replace=False)",
         "rng.integers(0, n_markers, n_bootstrap)")],
       'R-IDIOM/draw-without-replacement')
mutant('C02-second-draw-for-reference', 'C02',
       'the reference columns use a second, independent draw',
       [(P+'type_assignment/election.py',
         "        bootstrap_reference = reference_gene_data[:, chosen_idx]\n",
         "        chosen_ref = np.sort(\n"
         "            rng.choice(marker_idx, n_bootstrap, replace=False))\n"
         "        bootstrap_reference = reference_gene_data[:, chosen_ref]\n")],
       'R-SAMEVAL/one-subset-both-sides')
mutant('C02-mean-wrong-axis', 'C02',
       'the mean is taken over cells instead of genes',
       [(P+'utils/distance_utils.py',
         "    mu = np.mean(data, axis=1)\n    data = (data.transpose()-mu)\n",
         "    mu = np.mean(data, axis=0)\n    data = (data-mu).transpose()\n")],
       'R-AXIS')
mutant('C02-norm-wrong-axis', 'C02',
       'the L2 norm is taken along the cell axis',
       [(P+'utils/distance_utils.py',
         "    norm = np.sqrt(np.sum(data**2, axis=0))\n",
         "    norm = np.sqrt(np.sum(data**2, axis=1))\n")],
       'R-AXIS')
mutant('C02-argmax-wrong-axis', 'C02',
       'the nearest neighbour is the arg-max over query cells',
       [(P+'utils/distance_utils.py',
         "    max_idx = np.argmax(correlation_array, axis=0)\n",
         "    max_idx = np.argmax(correlation_array, axis=1)\n")],
       'R-AXIS')
mutant('C02-transpose-flags-swapped', 'C02',
       'the transposition flags of the two normalisations are swapped',
       [(P+'utils/distance_utils.py',
         "    arr0 = _subtract_mean_and_normalize_cpu(arr0, "
         "do_transpose=False)\n"
         "    arr1 = _subtract_mean_and_normalize_cpu(arr1, "
         "do_transpose=True)\n",
         "    arr0 = _subtract_mean_and_normalize_cpu(arr0, "
         "do_transpose=True)\n"
         "    arr1 = _subtract_mean_and_normalize_cpu(arr1, "
         "do_transpose=False)\n")],
       'R-AXIS')
mutant('C02-votes-transposed', 'C02',
       'votes are tallied at (reference row, cell)',
       [(P+'type_assignment/election.py',
         "        votes[query_idx, nearest_neighbors] += 1\n",
         "        votes[nearest_neighbors, query_idx] += 1\n")],
       'R-AXIS')
mutant('C02-aggregate-wrong-axis', 'C02',
       'votes of the leaves of a child are summed over cells',
       [(P+'type_assignment/election.py',
         "        vote_array_agg[:, new_idx] = vote_array[:, col_idx]"
         ".sum(axis=1)\n",
         "        vote_array_agg[:, new_idx] = vote_array[:, col_idx]"
         ".sum(axis=0)\n")],
       'R-AXIS')
mutant('C02-rank-wrong-axis', 'C02',
       'candidates are ranked along the cell axis',
       [(P+'type_assignment/election.py',
         "    sorted_by_votes = np.argsort(votes, axis=1)[:, -1::-1]\n",
         "    sorted_by_votes = np.argsort(votes, axis=0)[:, -1::-1]\n")],
       'R-AXIS/ranking')
mutant('C02-rank-ascending', 'C02',
       'the ranking is not reversed (least voted first)',
       [(P+'type_assignment/election.py',
         "    sorted_by_votes = np.argsort(votes, axis=1)[:, -1::-1]\n",
         "    sorted_by_votes = np.argsort(votes, axis=1)\n")],
       'R-AXIS/ranking')
mutant('C02-all-leaves-compete', 'C02',
       'every leaf of the taxonomy competes at every node',
       [(P+'type_assignment/matching.py',
         "    children = list(leaf_to_type.keys())\n    children.sort()\n",
         "    children = taxonomy_tree.all_leaves\n    children.sort()\n")],
       'R-PROV/leaves-under-parent')
mutant('C02-cache-roles-swapped', 'C02',
       'query names are indexed with reference positions',
       [(P+'type_assignment/matching.py',
         "        reference_markers = this_grp['reference'][()]\n"
         "        raw_query_markers = this_grp['query'][()]\n",
         "        reference_markers = this_grp['query'][()]\n"
         "        raw_query_markers = this_grp['reference'][()]\n")],
       'R-ROLE/cache-index-space')
mutant('C02-no-gene-identity-check', 'C02',
       'the identity of the two gene lists is no longer required',
       [(P+'type_assignment/matching.py',
         "    if query_data.gene_identifiers != "
         "reference_data.gene_identifiers:\n"
         "        raise RuntimeError(\n"
         "            \"Mismatch between query marker genes and reference "
         "marker genes\")\n", "")],
       'R-MUST/same-genes-asserted')
mutant('C02-select-before-normalise', 'C02',
       'chunks are down-selected to markers before CPM normalisation',
       [(P+'type_assignment/election.py',
         "        if data.normalization != 'log2CPM':\n"
         "            data.to_log2CPM_in_place()\n\n"
         "        # downsample to just include marker genes\n"
         "        # to limit memory footprint\n"
         "        data.downsample_genes_in_place(all_query_markers)\n",
         "        data.downsample_genes_in_place(all_query_markers)\n"
         "        if data.normalization != 'log2CPM':\n"
         "            data.to_log2CPM_in_place()\n")],
       'R-TYPESTATE/normalise-before-select')

twin('C02-twin-permutation-draw', 'C02',
     'subset drawn as permutation(n)[:k]',
     [(P+'type_assignment/election.py',
       "        chosen_idx = rng.choice(marker_idx, n_bootstrap, "
       "replace=False)\n",
       "        chosen_idx = rng.permutation(marker_idx)[:n_bootstrap]\n")])
twin('C02-twin-method-mean', 'C02', 'mean written as a method',
     [(P+'utils/distance_utils.py',
       "    mu = np.mean(data, axis=1)\n",
       "    mu = data.mean(axis=1)\n")])
twin('C02-twin-rename-kernel-local', 'C02',
     'rename a local of the kernel',
     [(P+'utils/distance_utils.py', "max_idx", "best_row", 8)])

mutant('C06-cpm-chunk-total', 'C06',
       'CPM uses the total of the whole chunk',
       [(P+'cell_by_gene/utils.py',
         "    row_sums = np.sum(data, axis=1)\n",
         "    row_sums = np.sum(data)\n")],
       'R-AXIS')
mutant('C06-cpm-column-total', 'C06',
       'CPM divides by per-gene totals over the cells of the chunk',
       [(P+'cell_by_gene/utils.py',
         "    row_sums = np.sum(data, axis=1)\n"
         "    denom = np.where(row_sums > 0.0, row_sums, 1.)\n"
         "    cpm = data.transpose()/denom\n"
         "    cpm = 1.0e6*cpm\n    return cpm.transpose()\n",
         "    row_sums = np.sum(data, axis=0)\n"
         "    denom = np.where(row_sums > 0.0, row_sums, 1.)\n"
         "    cpm = data/denom\n"
         "    cpm = 1.0e6*cpm\n    return cpm\n")],
       'R-AXIS')
mutant('C06-sort-cells', 'C06',
       'the query block is sorted along the cell axis before correlation',
       [(P+'utils/distance_utils.py',
         "    correlation_array = correlation_dot(baseline_array, "
         "query_array)\n",
         "    query_array = np.sort(query_array, axis=0)\n"
         "    correlation_array = correlation_dot(baseline_array, "
         "query_array)\n")],
       'R-AXIS/row-independence')
mutant('C06-writeback-shifted', 'C06',
       'results written back through a shifted index',
       [(P+'type_assignment/election.py',
         "            for i_cell, assigned_type, prob, corr, r_up in zip(\n"
         "                            chosen_idx,\n",
         "            for i_cell, assigned_type, prob, corr, r_up in zip(\n"
         "                            np.roll(chosen_idx, 1),\n")],
       'R-SAMEVAL/write-back')
mutant('C06-runner-up-row-mixed', 'C06',
       'runner-up tuples read row 0 of the ranking for every cell',
       [(P+'type_assignment/election.py',
         "        [(reference_types[sorted_by_votes[i_row, i_col]],\n",
         "        [(reference_types[sorted_by_votes[0, i_col]],\n")],
       'R-AXIS/runner-up-rows')
twin('C06-twin-keepdims', 'C06',
     'CPM written with keepdims broadcasting',
     [(P+'cell_by_gene/utils.py',
       "    row_sums = np.sum(data, axis=1)\n"
       "    denom = np.where(row_sums > 0.0, row_sums, 1.)\n"
       "    cpm = data.transpose()/denom\n"
       "    cpm = 1.0e6*cpm\n    return cpm.transpose()\n",
       "    row_sums = np.sum(data, axis=1)\n"
       "    denom = np.where(row_sums > 0.0, row_sums, 1.)\n"
       "    cpm = (data.transpose()/denom).transpose()\n"
       "    cpm = 1.0e6*cpm\n    return cpm\n")])


# ----------------------------------------------------------------------
# C07
# ----------------------------------------------------------------------
mutant('C07-no-negative-check', 'C07',
       'the non-negativity check is removed',
       [(P+'type_assignment/election_runner.py',
         "    if normalization == 'raw':\n"
         "        # check that data is >= 0\n",
         "    if normalization == 'never':\n"
         "        # check that data is >= 0\n")],
       'R-MUST/negative-raw-rejected')
mutant('C07-negative-warns-with-log', 'C07',
       'with a log, negative raw data only warns',
       [(P+'type_assignment/election_runner.py',
         "                \"in order to convert from 'raw' to 'log2CPM' "
         "data)\"\n            )\n"
         "            if log is not None:\n"
         "                log.error(error_msg)\n",
         "                \"in order to convert from 'raw' to 'log2CPM' "
         "data)\"\n            )\n"
         "            if log is not None:\n"
         "                log.warn(error_msg)\n")],
       'R-ARMS/log-arms')
mutant('C07-probe-other-file', 'C07',
       'the probe inspects the statistics file',
       [(P+'type_assignment/election_runner.py',
         "is_data_ge_zero(h5ad_path=query_h5ad_path, layer='X')",
         "is_data_ge_zero(h5ad_path=precomputed_stats_path, layer='X')")],
       'R-MUST/negative-raw-rejected', 'probe-file')
mutant('C07-probe-accepts-negative', 'C07',
       'the probe says True for a negative minimum',
       [(P+'validation/utils.py',
         "    if minmax[0] < 0.0:\n        return False, minmax[0]\n",
         "    if minmax[0] < 0.0:\n        return True, minmax[0]\n")],
       'R-MUST/probe-verdict')
mutant('C07-class-guard-removed', 'C07',
       'to_log2CPM_in_place no longer refuses a down-selected matrix',
       [(P+'cell_by_gene/cell_by_gene.py',
         "                \"CellByGeneMatrix already is not raw\")\n\n"
         "        if self._genes_downsampled:\n",
         "                \"CellByGeneMatrix already is not raw\")\n\n"
         "        if False:\n", 1)],
       'R-TYPESTATE/class-guard')
mutant('C07-columns-by-position', 'C07',
       'marker columns are taken by position in the marker list',
       [(P+'cell_by_gene/cell_by_gene.py',
         "        idx_array = np.array([self.gene_to_col[n] for n in "
         "selected_genes],\n                             dtype=int)\n",
         "        idx_array = np.arange(len(selected_genes), dtype=int)\n")],
       'R-ROLE/columns-by-name')
mutant('C07-stale-name-map', 'C07',
       'the name -> column map is not rebuilt after in-place selection',
       [(P+'cell_by_gene/cell_by_gene.py',
         "        self._gene_identifiers = copy.deepcopy(selected_genes)\n"
         "        self._create_gene_to_col()\n",
         "        self._gene_identifiers = copy.deepcopy(selected_genes)\n")],
       'R-ROLE/columns-by-name')
mutant('C07-no-marker-selection-before-dispatch', 'C07',
       'chunks are dispatched with all genes',
       [(P+'type_assignment/election.py',
         "        data.downsample_genes_in_place(all_query_markers)\n", "")],
       'R-TYPESTATE/normalise-before-select/selected-before-dispatch')
twin('C07-twin-probe-positional', 'C07',
     'probe called with positional path',
     [(P+'type_assignment/election_runner.py',
       "is_data_ge_zero(h5ad_path=query_h5ad_path, layer='X')",
       "is_data_ge_zero(query_h5ad_path)")])


# ----------------------------------------------------------------------
# C08
# ----------------------------------------------------------------------
mutant('C08-serialize-other-cache', 'C08',
       'the marker report is read from the lookup file, not the cache',
       [(P+'cli/from_specified_markers.py',
         "        marker_cache_path=query_marker_tmp,\n"
         "        taxonomy_tree=taxonomy_tree)\n",
         "        marker_cache_path=marker_lookup_path,\n"
         "        taxonomy_tree=taxonomy_tree)\n")],
       'R-SAMEVAL/marker-cache')
mutant('C08-writer-swaps-maps', 'C08',
       'reference positions are looked up in the query name map',
       [(P+'type_assignment/marker_cache_v2.py',
         "                these_reference.append(reference_name_to_int[gene])"
         "\n                these_query.append(query_name_to_int[gene])\n",
         "                these_reference.append(query_name_to_int[gene])\n"
         "                these_query.append(query_name_to_int[gene])\n")],
       'R-ROLE/cache-writer')
mutant('C08-sort-reference-only', 'C08',
       'only the reference positions are sorted',
       [(P+'type_assignment/marker_cache_v2.py',
         "                these_query = these_query[sorted_dex]\n", "")],
       'R-ROLE/co-permutation')
mutant('C08-root-error-dropped', 'C08',
       'a root without markers no longer raises',
       [(P+'type_assignment/marker_cache_v2.py',
         "                if parent_str == 'None':\n"
         "                    error_msg += warning_msg\n"
         "                    continue\n\n"
         "                if log is not None:\n"
         "                    log.warn(warning_msg)",
         "                if log is not None:\n"
         "                    log.warn(warning_msg)")],
       'R-MUST/marker-error-raises')
mutant('C08-missing-ref-marker-warns', 'C08',
       'a marker unknown to the reference only warns when a log is given',
       [(P+'type_assignment/marker_cache_v2.py',
         "        msg += f\"{missing_reference_markers}\\n\"\n"
         "        if log is None:\n"
         "            raise RuntimeError(msg)\n"
         "        else:\n"
         "            log.error(msg)\n",
         "        msg += f\"{missing_reference_markers}\\n\"\n"
         "        if log is None:\n"
         "            raise RuntimeError(msg)\n"
         "        else:\n"
         "            log.warn(msg)\n")],
       'R-ARMS/log-arms')
mutant('C08-single-child-needs-markers', 'C08',
       'validate_marker_lookup also demands markers of single-child '
       'parents',
       [(P+'type_assignment/marker_cache_v2.py',
         "        if not len(children) > 1:\n",
         "        if not len(children) > 0:\n")],
       'R-FOLD/single-child-exempt', 'validate_marker_lookup')
mutant('C08-two-children-exempt', 'C08',
       'serialize_markers treats two-child parents as trivial',
       [(P+'type_assignment/marker_cache_v2.py',
         "                if len(taxonomy_tree.children(level=level, "
         "node=node)) < 2:",
         "                if len(taxonomy_tree.children(level=level, "
         "node=node)) < 3:")],
       'R-FOLD/single-child-exempt', 'serialize_markers')
mutant('C08-patch-unrestricted', 'C08',
       'ancestor markers are added without restricting to query genes',
       [(P+'type_assignment/marker_cache_v2.py',
         "                    new_markers = query_gene_names.intersection("
         "new_markers)\n"
         "                    new_markers = list(new_markers)\n",
         "                    new_markers = list(new_markers)\n")],
       'R-PROV/patch-restricted-to-query')
twin('C08-twin-child-test-eq', 'C08',
     'single-child test written as == 1',
     [(P+'type_assignment/marker_cache_v2.py',
       "        if not len(children) > 1:\n",
       "        if len(children) <= 1:\n")])
twin('C08-twin-arms-order', 'C08',
     'log conditional written the other way round',
     [(P+'type_assignment/marker_cache_v2.py',
       "        msg += f\"{missing_reference_markers}\\n\"\n"
       "        if log is None:\n"
       "            raise RuntimeError(msg)\n"
       "        else:\n"
       "            log.error(msg)\n",
       "        msg += f\"{missing_reference_markers}\\n\"\n"
       "        if log is not None:\n"
       "            log.error(msg)\n"
       "        else:\n"
       "            raise RuntimeError(msg)\n")])


# ----------------------------------------------------------------------
# rules added after the seeded rounds (DESIGN.md section 15): each with a
# behaviour-preserving twin
# ----------------------------------------------------------------------

# -- R-TILE ----------------------------------------------------------------
mutant('C16-tile-window-off-axis', 'C16',
       'column window of the dense min/max scan as wide as the row step',
       [(P+'validation/utils.py',
         "            c1 = min(x_dataset.shape[1], c0+chunk_size[1])\n"
         "            chunk = x_dataset[r0:r1, c0:c1]\n"
         "            chunk_min = chunk.min()",
         "            c1 = min(x_dataset.shape[1], c0+chunk_size[0])\n"
         "            chunk = x_dataset[r0:r1, c0:c1]\n"
         "            chunk_min = chunk.min()")],
       'R-TILE/window', '_get_minmax_from_dense')
mutant('C16-tile-clamp-other-axis', 'C16',
       'row window of the dense min/max scan clamped to the column count',
       [(P+'validation/utils.py',
         "        r1 = min(x_dataset.shape[0], r0+chunk_size[0])\n"
         "        for c0 in range(0, x_dataset.shape[1], chunk_size[1]):\n"
         "            c1 = min(x_dataset.shape[1], c0+chunk_size[1])\n"
         "            chunk = x_dataset[r0:r1, c0:c1]\n"
         "            chunk_min = chunk.min()",
         "        r1 = min(x_dataset.shape[1], r0+chunk_size[0])\n"
         "        for c0 in range(0, x_dataset.shape[1], chunk_size[1]):\n"
         "            c1 = min(x_dataset.shape[1], c0+chunk_size[1])\n"
         "            chunk = x_dataset[r0:r1, c0:c1]\n"
         "            chunk_min = chunk.min()")],
       'R-TILE/window/clamp', '_get_minmax_from_dense')
mutant('C16-tile-step-other-axis', 'C16',
       'rows of the dense min/max scan walked with the column chunk extent',
       [(P+'validation/utils.py',
         "    for r0 in range(0, x_dataset.shape[0], chunk_size[0]):\n"
         "        r1 = min(x_dataset.shape[0], r0+chunk_size[0])\n"
         "        for c0 in range(0, x_dataset.shape[1], chunk_size[1]):\n"
         "            c1 = min(x_dataset.shape[1], c0+chunk_size[1])\n"
         "            chunk = x_dataset[r0:r1, c0:c1]\n"
         "            chunk_min = chunk.min()",
         "    for r0 in range(0, x_dataset.shape[0], chunk_size[1]):\n"
         "        r1 = min(x_dataset.shape[0], r0+chunk_size[1])\n"
         "        for c0 in range(0, x_dataset.shape[1], chunk_size[1]):\n"
         "            c1 = min(x_dataset.shape[1], c0+chunk_size[1])\n"
         "            chunk = x_dataset[r0:r1, c0:c1]\n"
         "            chunk_min = chunk.min()")],
       'R-TILE/window/axis', '_get_minmax_from_dense')
twin('C16-twin-tile-locals', 'C16',
     'step and shape of the dense min/max scan held in locals',
     [(P+'validation/utils.py',
       "    for r0 in range(0, x_dataset.shape[0], chunk_size[0]):\n"
       "        r1 = min(x_dataset.shape[0], r0+chunk_size[0])\n"
       "        for c0 in range(0, x_dataset.shape[1], chunk_size[1]):\n"
       "            c1 = min(x_dataset.shape[1], c0+chunk_size[1])\n"
       "            chunk = x_dataset[r0:r1, c0:c1]\n"
       "            chunk_min = chunk.min()",
       "    n_r = x_dataset.shape[0]\n"
       "    d_r = chunk_size[0]\n"
       "    for r0 in range(0, n_r, d_r):\n"
       "        r1 = min(n_r, r0+d_r)\n"
       "        for c0 in range(0, x_dataset.shape[1], chunk_size[1]):\n"
       "            c1 = min(c0+chunk_size[1], x_dataset.shape[1])\n"
       "            chunk = x_dataset[r0:r1, c0:c1]\n"
       "            chunk_min = chunk.min()")])
mutant('C09-tile-rows-window', 'C09',
       'reference rows cut into windows one row shorter than the step',
       [(P+'diff_exp/precompute_from_anndata.py',
         "r0+rows_at_a_time)", "r0+rows_at_a_time-1)")],
       'R-TILE/window', '_precompute_summary_stats_from_h5ad_and_lookup')

# -- R-CURSOR --------------------------------------------------------------
mutant('C13-cursor-unused', 'C13',
       'transposition: write position taken from the row start instead of '
       'the advancing cursor',
       [(P+'utils/csc_to_csr.py',
         "                buffer_0 = next_idx[unq_val]-d0\n",
         "                buffer_0 = csr_indptr[unq_val]-d0\n")],
       'R-CURSOR/used', 'transpose_sparse_matrix_on_disk')
mutant('C13-cursor-skip-advance', 'C13',
       'amalgamation: rows without entries skip the pointer bookkeeping',
       [(P+'utils/sparse_utils.py',
         "        n = indptr1-indptr0\n"
         "        final_data[data_ct:data_ct+n]",
         "        n = indptr1-indptr0\n"
         "        if indptr0 == 0:\n"
         "            continue\n"
         "        final_data[data_ct:data_ct+n]")],
       'R-CURSOR/', '_load_disjoint_csr')
twin('C13-twin-cursor-skip-zero-amount', 'C13',
     'skip the copy of an empty piece but keep recording and advancing',
     [(P+'utils/sparse_utils.py',
       "        final_data[data_ct:data_ct+n] = merged_data[indptr0:indptr1]\n"
       "        final_indices[data_ct:data_ct+n] = "
       "merged_indices[indptr0:indptr1]\n",
       "        if n > 0:\n"
       "            final_data[data_ct:data_ct+n] = "
       "merged_data[indptr0:indptr1]\n"
       "            final_indices[data_ct:data_ct+n] = "
       "merged_indices[indptr0:indptr1]\n")])
twin('C13-twin-cursor-temp', 'C13',
     'transposition: cursor read into a local before the subtraction',
     [(P+'utils/csc_to_csr.py',
       "                buffer_0 = next_idx[unq_val]-d0\n",
       "                here = next_idx[unq_val]\n"
       "                buffer_0 = here-d0\n")])

# -- R-SPACE ---------------------------------------------------------------
mutant('C13-space-data-not-sorted', 'C13',
       'transposition: the value array is not permuted with the rows',
       [(P+'utils/csc_to_csr.py',
         "                data_chunk = data_chunk[sorted_dex]\n", "")],
       'R-SPACE/positions', 'transpose_sparse_matrix_on_disk')
mutant('C13-space-cols-not-filtered', 'C13',
       'transposition: the column array is not filtered with the rows',
       [(P+'utils/csc_to_csr.py',
         "            if indices_filter is not None:\n"
         "                col_chunk = col_chunk[indices_filter]\n", "")],
       'R-SPACE/positions', 'transpose_sparse_matrix_on_disk')
mutant('C13-space-run-starts-after-filter', 'C13',
       'transposition: run starts from the cumulated counts of the kept '
       'rows only',
       [(P+'utils/csc_to_csr.py',
         "            for unq_val, unq_ct in zip(unq_val_arr, unq_ct_arr):\n"
         "                j0 = np.searchsorted(row_chunk, unq_val, "
         "side='left')\n",
         "            j0_arr = np.cumsum(unq_ct_arr) - unq_ct_arr\n"
         "            for unq_val, unq_ct, j0 in zip(unq_val_arr, "
         "unq_ct_arr, j0_arr):\n")],
       'R-SPACE/positions', 'transpose_sparse_matrix_on_disk')
twin('C13-twin-space-run-starts-before-filter', 'C13',
     'transposition: run starts from the cumulated counts of all runs, '
     'then restricted to the kept rows',
     [(P+'utils/csc_to_csr.py',
       "            unq_val_arr = unq_val_arr[valid_dex]\n"
       "            unq_ct_arr = unq_ct_arr[valid_dex]\n"
       "            for unq_val, unq_ct in zip(unq_val_arr, unq_ct_arr):\n"
       "                j0 = np.searchsorted(row_chunk, unq_val, "
       "side='left')\n",
       "            j0_arr = np.cumsum(unq_ct_arr) - unq_ct_arr\n"
       "            j0_arr = j0_arr[valid_dex]\n"
       "            unq_val_arr = unq_val_arr[valid_dex]\n"
       "            unq_ct_arr = unq_ct_arr[valid_dex]\n"
       "            for unq_val, unq_ct, j0 in zip(unq_val_arr, "
       "unq_ct_arr, j0_arr):\n")])

# -- R-COVER ---------------------------------------------------------------
twin('C10-twin-cover-membership-guard', 'C10',
     'tree builder: an already recorded link is not added again',
     [(P+'taxonomy/utils.py',
       "            tree[parent_level][this_parent].add(this_child)\n",
       "            if this_child in tree[parent_level][this_parent]:\n"
       "                continue\n"
       "            tree[parent_level][this_parent].add(this_child)\n")])
mutant('C10-cover-break-on-known-link', 'C10',
       'tree builder: stop walking the levels of a row at the first link '
       'already recorded',
       [(P+'taxonomy/utils.py',
         "            tree[parent_level][this_parent].add(this_child)\n",
         "            if this_child in tree[parent_level][this_parent]:\n"
         "                break\n"
         "            tree[parent_level][this_parent].add(this_child)\n")],
       'R-COVER/builder-records-every-link', 'links')
twin('C09-twin-cover-skip-empty-chunk', 'C09',
     'statistics worker: skip a chunk none of whose cells is labelled',
     [(P+'diff_exp/precompute_from_anndata.py',
       "        r_t0 = time.time()\n        chunk = iterator.get_chunk(",
       "        if not any(cell_name_list[idx] in cell_name_to_output_row\n"
       "                   for idx in range(chunk_spec[1], chunk_spec[2])):\n"
       "            continue\n"
       "        r_t0 = time.time()\n        chunk = iterator.get_chunk(")])
mutant('C09-cover-skip-partly-labelled-chunk', 'C09',
       'statistics worker: skip a chunk unless all of its cells are '
       'labelled',
       [(P+'diff_exp/precompute_from_anndata.py',
         "        r_t0 = time.time()\n        chunk = iterator.get_chunk(",
         "        if not all(cell_name_list[idx] in cell_name_to_output_row\n"
         "                   for idx in range(chunk_spec[1], chunk_spec[2])):\n"
         "            continue\n"
         "        r_t0 = time.time()\n        chunk = iterator.get_chunk(")],
       'R-COVER/every-chunk-counted', 'chunks')

# -- merge init / gene order (C09) ----------------------------------------
mutant('C09-merge-init-from-first-piece', 'C09',
       'merged tables start from the first buffer and add it again',
       [(P+'diff_exp/precompute_from_anndata.py',
         "                    final_output[k] = np.zeros(\n"
         "                        src[k].shape,\n"
         "                        dtype=src[k].dtype)\n",
         "                    final_output[k] = src[k][()]\n")],
       'R-AXIS/additive-statistic/merge-init', 'init')
twin('C09-twin-merge-init-zeros-like', 'C09',
     'merged tables start from zeros built from the piece\'s shape only',
     [(P+'diff_exp/precompute_from_anndata.py',
       "                    final_output[k] = np.zeros(\n"
       "                        src[k].shape,\n"
       "                        dtype=src[k].dtype)\n",
       "                    shp = src[k].shape\n"
       "                    final_output[k] = np.zeros(shp, "
       "dtype=src[k].dtype)\n")])
mutant('C09-gene-sets-compared', 'C09',
       'reference files compared by gene set instead of gene sequence',
       [(P+'diff_exp/precompute_from_anndata.py',
         "            if gene_names != these_genes:\n",
         "            if set(gene_names) != set(these_genes):\n")],
       'R-GUARD/same-gene-order', 'guard')

# -- C15 column names -------------------------------------------------------
mutant('C15-rename-by-level-label', 'C15',
       'confidence column renamed by level label instead of readable name',
       [(P+'utils/output_utils.py',
         '            src_key = f"{readable_level}_{confidence_key}"\n',
         '            src_key = f"{level}_{confidence_key}"\n')],
       'R-SAMEVAL/csv-column-names', 'rename:old')
twin('C15-twin-rename-prefix-local', 'C15',
     'column names of the rename built by concatenation from a prefix',
     [(P+'utils/output_utils.py',
       '            src_key = f"{readable_level}_{confidence_key}"\n'
       '            dst_key = f"{readable_level}_{confidence_label}"\n',
       '            prefix = f"{readable_level}_"\n'
       '            src_key = prefix + confidence_key\n'
       '            dst_key = prefix + confidence_label\n')])

# -- C18 denominators -------------------------------------------------------
mutant('C18-mean-unguarded-division', 'C18',
       'mean of a node divides by the raw cell count',
       [(P+'diff_exp/score_utils.py',
         "    mu = sum_arr/max(1, n_cells)\n", "    mu = sum_arr/n_cells\n")],
       'R-POS/cell-count-denominator', 'aggregate_stats')
twin('C18-twin-denominator-local', 'C18',
     'guarded cell count held in a local',
     [(P+'diff_exp/score_utils.py',
       "    mu = sum_arr/max(1, n_cells)\n",
       "    denom = max(1, n_cells)\n    mu = sum_arr/denom\n")])

# -- C19 own directory ------------------------------------------------------
mutant('C19-buffer-dir-fixed-name', 'C19',
       'mapping buffer directory named after the query file',
       [(P+'type_assignment/election.py',
         "        buffer_dir = pathlib.Path(\n"
         "                tempfile.mkdtemp(\n"
         "                    dir=results_output_path,\n"
         "                    prefix='results_buffer_'))\n",
         "        buffer_dir = pathlib.Path(\n"
         "                results_output_path) / 'results_buffer'\n"
         "        buffer_dir.mkdir(parents=True, exist_ok=True)\n")],
       'R-FRESH/listing/own-directory', 'run_type_assignment_on_h5ad_cpu')

# -- C20 sanitiser ----------------------------------------------------------
mutant('C20-substitute-clean-spelling', 'C20',
       'substitution table keyed by the cleaned path',
       [(P+'utils/cloud_utils.py',
         "                substitutions[word] = safe_path\n",
         "                substitutions[str(path)] = safe_path\n")],
       'R-SAMEVAL/sanitizer-substitution', 'replaced-text')
mutant('C20-exposure-parent-only', 'C20',
       'is_exposed looks at the immediate parent only',
       [(P+'utils/cloud_utils.py',
         "    return is_exposed(input_path.parent)\n",
         "    return input_path.parent.is_dir()\n")],
       'R-MUST/exposure-walks-ancestors', 'ancestors')
twin('C20-twin-exposure-loop', 'C20',
     'is_exposed written as a loop over the ancestors',
     [(P+'utils/cloud_utils.py',
       "    return is_exposed(input_path.parent)\n",
       "    for anc in input_path.parents:\n"
       "        if anc in (pathlib.Path('.'), pathlib.Path('/')):\n"
       "            return False\n"
       "        if anc.is_file() or anc.is_dir():\n"
       "            return True\n"
       "    return False\n")])

# -- C08 / C07 / C02 / C16 --------------------------------------------------
mutant('C08-parents-root-first', 'C08',
       'marker patching visits parents root first',
       [(P+'type_assignment/marker_cache_v2.py',
         "    all_parents = copy.deepcopy(taxonomy_tree.all_parents)\n"
         "    all_parents.reverse()\n",
         "    all_parents = copy.deepcopy(taxonomy_tree.all_parents)\n")],
       'R-PROV/deepest-first', 'order')
twin('C08-twin-parents-reversed-builtin', 'C08',
     'marker patching iterates reversed(all_parents)',
     [(P+'type_assignment/marker_cache_v2.py',
       "    all_parents = copy.deepcopy(taxonomy_tree.all_parents)\n"
       "    all_parents.reverse()\n",
       "    all_parents = taxonomy_tree.all_parents[::-1]\n")])
mutant('C07-sort-pairs-by-query', 'C07',
       'marker pairs of a parent ordered by query position',
       [(P+'type_assignment/marker_cache_v2.py',
         "                sorted_dex = np.argsort(these_reference)\n",
         "                sorted_dex = np.argsort(these_query)\n")],
       'R-PROV/marker-order-independent-of-query', '')
mutant('C07-drop-unknown-genes-before-cpm', 'C07',
       'chunk cut to a column subset before it is normalised',
       [(P+'type_assignment/election.py',
         "        data = chunk[0]\n\n        data = CellByGeneMatrix(",
         "        data = chunk[0][:, keep_idx]\n\n"
         "        data = CellByGeneMatrix(")],
       'R-TYPESTATE/all-genes-normalised', '')
mutant('C02-vote-dtype-from-subset-size', 'C02',
       'vote counter sized from the number of markers drawn',
       [(P+'type_assignment/election.py',
         "    vote_dtype = choose_int_dtype((0, bootstrap_iteration))\n",
         "    vote_dtype = choose_int_dtype((0, n_bootstrap))\n")],
       'R-CAP/vote-counter', '')
twin('C02-twin-vote-dtype-fixed', 'C02',
     'vote counter with a fixed wide integer type',
     [(P+'type_assignment/election.py',
       "    vote_dtype = choose_int_dtype((0, bootstrap_iteration))\n",
       "    vote_dtype = np.int64\n")])
mutant('C16-clip-before-lookup', 'C16',
       'gene identifiers clipped at the first dot before the lookup',
       [(P+'gene_id/gene_id_mapper.py',
         "        for input_gene in gene_id_list:\n"
         "            if self._is_valid(input_gene):\n",
         "        for input_gene in self._post_process(gene_id_list):\n"
         "            if self._is_valid(input_gene):\n")],
       'R-PROV/lookup-by-given-name', '')


# ----------------------------------------------------------------------
# rules of rounds 2 and 3
# ----------------------------------------------------------------------
mutant('C01-flat-row-table', 'C01',
       'rows assigned to a node kept in one table keyed by label alone',
       [(P+'type_assignment/election.py',
         "        previously_assigned[child_level] = dict()\n", ""),
        (P+'type_assignment/election.py',
         "                if parent_node[1] in "
         "previously_assigned[parent_level]:\n"
         "                    chosen_idx = previously_assigned[\n"
         "                        parent_level][parent_node[1]]\n",
         "                if parent_node[1] in previously_assigned:\n"
         "                    chosen_idx = previously_assigned["
         "parent_node[1]]\n"),
        (P+'type_assignment/election.py',
         "                previously_assigned[child_level][celltype] = "
         "assigned_this\n",
         "                previously_assigned[celltype] = assigned_this\n")],
       'R-KEY/node-identity', 'run_type_assignment')
twin('C01-twin-row-table-tuple-key', 'C01',
     'rows assigned to a node kept under a (level, label) tuple key',
     [(P+'type_assignment/election.py',
       "        previously_assigned[child_level] = dict()\n", ""),
      (P+'type_assignment/election.py',
       "                if parent_node[1] in "
       "previously_assigned[parent_level]:\n"
       "                    chosen_idx = previously_assigned[\n"
       "                        parent_level][parent_node[1]]\n",
       "                if (parent_level, parent_node[1]) in "
       "previously_assigned:\n"
       "                    chosen_idx = previously_assigned[\n"
       "                        (parent_level, parent_node[1])]\n"),
      (P+'type_assignment/election.py',
       "                previously_assigned[child_level][celltype] = "
       "assigned_this\n",
       "                previously_assigned[(child_level, celltype)] = "
       "assigned_this\n")])
mutant('C15-name-memo-by-label', 'C15',
       'readable names memoised under the label alone',
       [(P+'utils/output_utils.py',
         "    records = []\n    for cell in results_blob:\n",
         "    records = []\n    name_lookup = dict()\n"
         "    for cell in results_blob:\n"),
        (P+'utils/output_utils.py',
         "            name = taxonomy_tree.label_to_name(\n"
         "                        level=level,\n"
         "                        label=label,\n"
         "                        name_key='name')\n",
         "            if label not in name_lookup:\n"
         "                name_lookup[label] = taxonomy_tree.label_to_name(\n"
         "                        level=level,\n"
         "                        label=label,\n"
         "                        name_key='name')\n"
         "            name = name_lookup[label]\n")],
       'R-', 'blob_to_df')
twin('C15-twin-name-memo-by-level-and-label', 'C15',
     'readable names memoised under (level, label)',
     [(P+'utils/output_utils.py',
       "    records = []\n    for cell in results_blob:\n",
       "    records = []\n    name_lookup = dict()\n"
       "    for cell in results_blob:\n"),
      (P+'utils/output_utils.py',
       "            name = taxonomy_tree.label_to_name(\n"
       "                        level=level,\n"
       "                        label=label,\n"
       "                        name_key='name')\n",
       "            if (level, label) not in name_lookup:\n"
       "                name_lookup[(level, label)] = "
       "taxonomy_tree.label_to_name(\n"
       "                        level=level,\n"
       "                        label=label,\n"
       "                        name_key='name')\n"
       "            name = name_lookup[(level, label)]\n")])
mutant('C17-drop-level-zip-sorted', 'C17',
       'children of dropped nodes zipped against the sorted parent names',
       [(P+'taxonomy/taxonomy_tree.py',
         "        new_parent = dict()\n"
         "        for node in new_data[parent_level]:\n"
         "            new_parent[node] = []\n"
         "            for child in self.children(parent_level, node):\n"
         "                new_parent[node] += self.children(level_to_drop, "
         "child)\n",
         "        parent_nodes = self.nodes_at_level(parent_level)\n"
         "        parent_nodes.sort()\n"
         "        grandchildren = []\n"
         "        for node in new_data[parent_level]:\n"
         "            these = []\n"
         "            for child in self.children(parent_level, node):\n"
         "                these += self.children(level_to_drop, child)\n"
         "            grandchildren.append(these)\n"
         "        new_parent = dict(zip(parent_nodes, grandchildren))\n")],
       'R-ALIGN/zip-lockstep', '_drop_level')
twin('C17-twin-drop-level-zip-lockstep', 'C17',
     'children of dropped nodes zipped against names collected in the '
     'same loop',
     [(P+'taxonomy/taxonomy_tree.py',
       "        new_parent = dict()\n"
       "        for node in new_data[parent_level]:\n"
       "            new_parent[node] = []\n"
       "            for child in self.children(parent_level, node):\n"
       "                new_parent[node] += self.children(level_to_drop, "
       "child)\n",
       "        parent_nodes = []\n"
       "        grandchildren = []\n"
       "        for node in new_data[parent_level]:\n"
       "            these = []\n"
       "            for child in self.children(parent_level, node):\n"
       "                these += self.children(level_to_drop, child)\n"
       "            parent_nodes.append(node)\n"
       "            grandchildren.append(these)\n"
       "        new_parent = dict(zip(parent_nodes, grandchildren))\n")])
mutant('C05-row-labels-by-pointer-scatter', 'C05',
       'dense conversion labels rows by scattering ones at the row starts',
       [(P+'utils/sparse_utils.py',
         "    data_idx = 0\n"
         "    for iptr in range(len(indptr)-1):\n"
         "        these_cols = indices[indptr[iptr]:indptr[iptr+1]]\n"
         "        n_cols = len(these_cols)\n"
         "        result[iptr, these_cols] = data[data_idx:data_idx+n_cols]\n"
         "        data_idx += n_cols\n",
         "    row_starts = indptr[1:-1]\n"
         "    row_idx = np.zeros(len(data), dtype=int)\n"
         "    row_idx[row_starts[row_starts < len(data)]] += 1\n"
         "    row_idx = np.cumsum(row_idx)\n"
         "    result[row_idx, indices] = data\n")],
       'R-IDIOM/pointer-scatter', '_csr_to_dense')
twin('C05-twin-row-labels-by-repeat', 'C05',
     'dense conversion labels rows by repeating row numbers by run length',
     [(P+'utils/sparse_utils.py',
       "    data_idx = 0\n"
       "    for iptr in range(len(indptr)-1):\n"
       "        these_cols = indices[indptr[iptr]:indptr[iptr+1]]\n"
       "        n_cols = len(these_cols)\n"
       "        result[iptr, these_cols] = data[data_idx:data_idx+n_cols]\n"
       "        data_idx += n_cols\n",
       "    row_idx = np.repeat(np.arange(len(indptr)-1), np.diff(indptr))\n"
       "    result[row_idx, indices] = data\n")])
mutant('C07-cpm-clamped-divisor', 'C07',
       'CPM divisor clamped from below instead of replacing zero totals',
       [(P+'cell_by_gene/utils.py',
         "    denom = np.where(row_sums > 0.0, row_sums, 1.)\n",
         "    denom = np.maximum(row_sums, 1.)\n")],
       'R-IDIOM/cpm-denominator', 'convert_to_cpm')
twin('C07-twin-cpm-masked-store', 'C07',
     'CPM divisor built by a masked store on the zero totals',
     [(P+'cell_by_gene/utils.py',
       "    denom = np.where(row_sums > 0.0, row_sums, 1.)\n",
       "    denom = np.copy(row_sums)\n"
       "    denom[denom == 0.0] = 1.\n")])
mutant('C02-correlation-inherited-on-falsy', 'C02',
       'average correlation inherited whenever it is falsy',
       [(P+'type_assignment/election.py',
         "            if cell[child_level]['avg_correlation'] is None:\n",
         "            if not cell[child_level]['avg_correlation']:\n")],
       'R-GUARD/correlation-backfill', 'run_type_assignment')
mutant('C09-cell-names-read-once', 'C09',
       'statistics worker reads the cell names of the first file only',
       [(P+'diff_exp/precompute_from_anndata.py',
         "        if iterator is None or iterator_path != chunk_spec[0]:\n\n"
         "            cell_name_list = list(\n"
         "                read_df_from_h5ad(chunk_spec[0], "
         "'obs').index.values)\n",
         "        if iterator is None:\n"
         "            cell_name_list = list(\n"
         "                read_df_from_h5ad(chunk_spec[0], "
         "'obs').index.values)\n"
         "        if iterator is None or iterator_path != chunk_spec[0]:\n")],
       'R-SAMEVAL/per-file-state', '_process_chunk_spec')
mutant('C04-files-in-set-order', 'C04',
       'reference files de-duplicated through a set',
       [(P+'diff_exp/precompute_from_anndata.py',
         "    gene_names = None\n    for pth in data_path_list:\n",
         "    data_path_list = list(set(data_path_list))\n"
         "    gene_names = None\n    for pth in data_path_list:\n")],
       'R-TAINT/order-to-sink', '')
twin('C04-twin-files-sorted-set', 'C04',
     'reference files de-duplicated through a sorted set',
     [(P+'diff_exp/precompute_from_anndata.py',
       "    gene_names = None\n    for pth in data_path_list:\n",
       "    data_path_list = sorted(set(data_path_list))\n"
       "    gene_names = None\n    for pth in data_path_list:\n")])
mutant('C04-parents-in-key-order', 'C04',
       'parents visited in the key order of the row table',
       [(P+'type_assignment/election.py',
         "            k_list = taxonomy_tree.nodes_at_level(parent_level)\n"
         "            k_list.sort()\n",
         "            k_list = list(previously_assigned[parent_level]."
         "keys())\n")],
       'R-TAINT/order-to-sink', '')


# ----------------------------------------------------------------------
# rules of round 4
# ----------------------------------------------------------------------
mutant('C08-flatten-union-skips-trivial', 'C08',
       'flat marker set leaves out the lists of single-child parents',
       [(P+'cli/from_specified_markers.py',
         "            if k not in ('log', 'metadata'):\n"
         "                all_markers = all_markers.union("
         "set(marker_lookup[k]))\n",
         "            if k not in ('log', 'metadata') and len("
         "marker_lookup[k]) > 2:\n"
         "                all_markers = all_markers.union("
         "set(marker_lookup[k]))\n")],
       'R-COVER/flatten-union', '')
twin('C08-twin-flatten-union-eq-tests', 'C08',
     'flat marker set skips the bookkeeping keys by equality tests',
     [(P+'cli/from_specified_markers.py',
       "            if k not in ('log', 'metadata'):\n"
       "                all_markers = all_markers.union("
       "set(marker_lookup[k]))\n",
       "            if k == 'log':\n"
       "                continue\n"
       "            if k == 'metadata':\n"
       "                continue\n"
       "            all_markers = all_markers.union("
       "set(marker_lookup[k]))\n")])
mutant('C09-merge-compares-cluster-names-only', 'C09',
       'statistics files merged after comparing cluster names only',
       [(P+'diff_exp/precompute_utils.py',
         "                if src['cluster_to_row'][()] != "
         "dst_cluster_lookup:\n",
         "                if set(json.loads(src['cluster_to_row'][()])) != "
         "set(json.loads(dst_cluster_lookup)):\n")],
       'R-GUARD/merge-tables-agree', 'cluster_to_row')
twin('C09-twin-merge-compares-decoded-tables', 'C09',
     'statistics files merged after comparing the decoded tables',
     [(P+'diff_exp/precompute_utils.py',
       "                if src['cluster_to_row'][()] != "
       "dst_cluster_lookup:\n",
       "                if json.loads(src['cluster_to_row'][()]) != "
       "json.loads(dst_cluster_lookup):\n")])
mutant('C02-zero-norm-mask-from-data', 'C02',
       'rows whose norm is replaced are chosen by an all-zero test of the '
       'data',
       [(P+'utils/distance_utils.py',
         "    mu = np.mean(data, axis=1)\n"
         "    data = (data.transpose()-mu)\n",
         "    invalid = np.logical_not(np.any(data, axis=1))\n"
         "    mu = np.mean(data, axis=1)\n"
         "    data = (data.transpose()-mu)\n"),
        (P+'utils/distance_utils.py',
         "    invalid = (norm == 0.0)\n    norm[invalid] = 1.0\n",
         "    norm[invalid] = 1.0\n")],
       'R-GUARD/zero-norm', '')
twin('C02-twin-zero-norm-where', 'C02',
     'zero norms replaced through np.where on the norm',
     [(P+'utils/distance_utils.py',
       "    invalid = (norm == 0.0)\n    norm[invalid] = 1.0\n",
       "    norm = np.where(norm == 0.0, 1.0, norm)\n")])
mutant('C10-release-reader-seen-set', 'C10',
       'term table reader skips terms it has seen under any parent',
       [(P+'taxonomy/data_release_utils.py',
         "            if parent_level not in result:\n"
         "                result[parent_level] = dict()\n",
         "            if (level, label) in seen_terms:\n"
         "                continue\n"
         "            seen_terms.add((level, label))\n"
         "            if parent_level not in result:\n"
         "                result[parent_level] = dict()\n"),
        (P+'taxonomy/data_release_utils.py',
         "    result = dict()\n    with open(csv_path, 'r') as src:\n"
         "        src.readline()\n        for line in src:\n"
         "            params = line.strip().split(',')\n"
         "            label = params[label_idx]\n",
         "    result = dict()\n    seen_terms = set()\n"
         "    with open(csv_path, 'r') as src:\n"
         "        src.readline()\n        for line in src:\n"
         "            params = line.strip().split(',')\n"
         "            label = params[label_idx]\n", 2)],
       'R-COVER/release-reader-records-every-link', '')
mutant('C15-csv-with-reduced-tree', 'C15',
       'CSV written with the tree as reduced for the run',
       [(P+'cli/from_specified_markers.py',
         '    csv_result["taxonomy_tree"] = tree_for_metadata\n',
         '    csv_result["taxonomy_tree"] = taxonomy_tree\n')],
       'R-PROV/csv-tree-version', '')
mutant('C16-round-skips-integer-chunks', 'C16',
       'rounding skips chunks that are already integer-valued',
       [(P+'validation/utils.py',
         "            for i0 in range(0, data.shape[0], chunk_size[0]):\n"
         "                i1 = min(data.shape[0], i0+chunk_size[0])\n"
         "                chunk = data[i0:i1]\n",
         "            for i0 in range(0, data.shape[0], chunk_size[0]):\n"
         "                i1 = min(data.shape[0], i0+chunk_size[0])\n"
         "                chunk = data[i0:i1]\n"
         "                if np.all(chunk == np.round(chunk)):\n"
         "                    continue\n")],
       'R-TILE/every-window-written', '')
mutant('C13-copy-whole-chunks-only', 'C13',
       'sparse layer copied one whole HDF5 chunk at a time',
       [(P+'utils/anndata_utils.py',
         "                    for i0 in range(0, src_dataset.shape[0], "
         "chunks[0]):\n"
         "                        i1 = min(src_dataset.shape[0], "
         "i0+chunks[0])\n",
         "                    for i_chunk in range(src_dataset.shape[0]//"
         "chunks[0]):\n"
         "                        i0 = i_chunk*chunks[0]\n"
         "                        i1 = i0+chunks[0]\n")],
       'R-TILE/whole-axis', '')
mutant('C17-root-topped-up-from-table', 'C17',
       'root markers topped up from every group of the table',
       [(P+'type_assignment/marker_cache_v2.py',
         "                if len(patched_with) > 0:\n",
         "                for other_str in marker_lookup:\n"
         "                    new_markers = new_markers.union(\n"
         "                        set(marker_lookup[other_str]))\n"
         "                if len(patched_with) > 0:\n")],
       'R-PROV/lists-consulted-follow-tree', '')
mutant('C04-census-in-set-order', 'C04',
       'leaf census visits the statistics files in set order',
       [(P+'diff_exp/precompute_utils.py',
         "    for pth in precompute_path_list:\n"
         "        this_tree = TaxonomyTree.from_precomputed_stats(\n",
         "    for pth in set(precompute_path_list):\n"
         "        this_tree = TaxonomyTree.from_precomputed_stats(\n")],
       'R-TAINT/order-to-sink', '')


# ----------------------------------------------------------------------
# C03
# ----------------------------------------------------------------------
_EL = P + 'type_assignment/election.py'
mutant('C03-share-over-subset-size', 'C03',
       'vote share divided by something other than the iteration count',
       [(_EL, "    vote_fractions = votes / bootstrap_iteration\n",
         "    vote_fractions = votes / votes.sum(axis=1, keepdims=True)\n")],
       'R-ARITH/quotients', 'vote-share')
mutant('C03-corr-over-iterations', 'C03',
       'mean correlation divided by the iteration count',
       [(_EL, "    avg_corr = corr_sum[idx_array_2d, sorted_by_votes] / "
         "denom\n",
         "    avg_corr = corr_sum[idx_array_2d, sorted_by_votes] / "
         "bootstrap_iteration\n")],
       'R-ARITH/quotients', 'mean-correlation')
mutant('C03-denominator-unguarded', 'C03',
       'mean correlation divided by the raw vote counts',
       [(_EL, "    denom = np.where(votes > 0, votes, 1)\n",
         "    denom = np.maximum(votes, 1)\n")],
       'R-ARITH/quotients', 'mean-correlation')
mutant('C03-runners-from-column-zero', 'C03',
       'runner-up columns start at the winner',
       [(_EL, "         for i_col in range(1, n_assignments, 1)]\n",
         "         for i_col in range(0, n_assignments, 1)]\n")],
       'R-ARITH/truncation', 'runner-up-columns')
mutant('C03-no-truncation-to-candidates', 'C03',
       'number of assignments not limited by the number of candidates',
       [(_EL, "    n_assignments = min(n_assignments, votes.shape[1])\n",
         "    n_assignments = min(n_assignments, votes.shape[0])\n")],
       'R-ARITH/truncation', 'requested-number')
mutant('C03-no-aggregation', 'C03',
       'leaf votes of one child are not merged before ranking',
       [(_EL, "    if len(set(reference_types)) < len(reference_types):\n",
         "    if len(set(reference_types)) < 0:\n")],
       'R-ARITH/distinct-candidates', '')
mutant('C03-tuple-flag-from-share', 'C03',
       'runner-up flag taken from another column',
       [(_EL, "          votes[i_row, i_col] > 0,\n",
         "          votes[i_row, 0] > 0,\n")],
       'R-ARITH/runner-up-tuple', '')
mutant('C03-single-child-half', 'C03',
       'single-child parents get probability 0.5',
       [(_EL, "                bootstrapping_probability = "
         "[1.0]*chosen_query_data.n_cells\n",
         "                bootstrapping_probability = "
         "[0.5]*chosen_query_data.n_cells\n")],
       'R-CONST/single-child', 'probability')
mutant('C03-product-not-reset', 'C03',
       'running product carried over from the previous cell',
       [(_EL, "    for cell in result:\n        prob = 1.0\n"
         "        for level in taxonomy_tree.hierarchy:\n",
         "    prob = 1.0\n    for cell in result:\n"
         "        for level in taxonomy_tree.hierarchy:\n")],
       'R-ARITH/running-product', 'reset')
mutant('C03-product-stored-before-multiply', 'C03',
       'aggregate probability stored before the level is multiplied in',
       [(_EL, "            prob *= cell[level]['bootstrapping_probability']\n"
         "            cell[level]['aggregate_probability'] = prob\n",
         "            cell[level]['aggregate_probability'] = prob\n"
         "            prob *= cell[level]['bootstrapping_probability']\n")],
       'R-ARITH/running-product', 'multiply')
mutant('C03-product-bottom-up', 'C03',
       'running product taken from the leaf level upwards',
       [(_EL, "        for level in taxonomy_tree.hierarchy:\n"
         "            prob *= cell[level]['bootstrapping_probability']\n",
         "        for level in taxonomy_tree.hierarchy[::-1]:\n"
         "            prob *= cell[level]['bootstrapping_probability']\n")],
       'R-ARITH/running-product', 'level-order')
twin('C03-twin-product-local-record', 'C03',
     'running product written through a local alias of the hierarchy',
     [(_EL, "        for level in taxonomy_tree.hierarchy:\n"
       "            prob *= cell[level]['bootstrapping_probability']\n",
       "        levels = taxonomy_tree.hierarchy\n"
       "        for level in levels:\n"
       "            prob *= cell[level]['bootstrapping_probability']\n")])
twin('C03-twin-share-temp', 'C03',
     'vote share computed through a temporary',
     [(_EL, "    vote_fractions = votes / bootstrap_iteration\n",
       "    n_iter = bootstrap_iteration\n"
       "    vote_fractions = votes / n_iter\n")])

# ======================================================================
# rules added after the fifth seeding round
# ======================================================================
_SU = P+'utils/sparse_utils.py'
mutant('C13-single-row-returns-sorted', 'C13',
       'a short-cut for requests of two rows returns them as read',
       [(_SU, "    row_chunk_list = merge_index_list(row_index_list)\n"
         "    data_list = []\n",
         "    row_chunk_list = merge_index_list(row_index_list)\n"
         "    if len(row_index_list) == 2 and len(row_chunk_list) == 1:\n"
         "        return _load_sparse(\n"
         "            indptr_spec=row_chunk_list[0], data=data,\n"
         "            indices=indices, indptr=indptr)\n"
         "    data_list = []\n")],
       'R-PERM/unsort-before-return', '_load_disjoint_csr')
twin('C13-twin-inverse-by-argsort', 'C13',
     'inverse permutation computed with a second argsort',
     [(_SU, "    inverse_argsort = {sorted_dex[ii]: ii "
       "for ii in range(len(sorted_dex))}\n",
       "    inverse_argsort = np.argsort(sorted_dex)\n")])

_OU = P+'utils/output_utils.py'
mutant('C15-position-table-shared-list', 'C15',
       'per-level code tables all built from one shared dict',
       [(_OU, "    node_to_int = dict()\n    int_to_node = dict()\n",
         "    node_to_int = dict.fromkeys(taxonomy_tree.hierarchy, {})\n"
         "    int_to_node = dict()\n"),
        (_OU, "        node_to_int[level] = dict()\n        these_nodes",
         "        these_nodes")],
       'R-IDIOM/shared-mutable', '_blob_to_hdf5_results')
twin('C15-twin-table-by-comprehension', 'C15',
     'per-level code tables created by a comprehension (one dict each)',
     [(_OU, "    node_to_int = dict()\n    int_to_node = dict()\n",
       "    node_to_int = {lv: dict() for lv in taxonomy_tree.hierarchy}\n"
       "    int_to_node = dict()\n"),
      (_OU, "        node_to_int[level] = dict()\n        these_nodes",
       "        these_nodes")])

_MC = P+'type_assignment/marker_cache_v2.py'
mutant('C08-reference-index-typed-by-query', 'C08',
       'reference gene positions stored in a type sized for the query',
       [(_MC, "            out_grp.create_dataset(\n"
         "                'reference',\n"
         "                data=np.array(these_reference))\n",
         "            out_grp.create_dataset(\n"
         "                'reference',\n"
         "                data=np.array(these_reference).astype(\n"
         "                    choose_int_dtype((0, len(query_gene_names)))))\n"
         ),
        (_MC, "import warnings\n",
         "import warnings\n"
         "from cell_type_mapper.utils.utils import choose_int_dtype\n")],
       'R-CAP/index-dtype', 'reference_name_to_int')
twin('C08-twin-index-typed-by-both', 'C08',
     'gene positions stored in a type sized for the longer gene list',
     [(_MC, "            out_grp.create_dataset(\n"
       "                'reference',\n"
       "                data=np.array(these_reference))\n"
       "            out_grp.create_dataset(\n"
       "                'query',\n"
       "                data=np.array(these_query))\n",
       "            idx_dtype = choose_int_dtype(\n"
       "                (0, max(len(reference_gene_names),\n"
       "                        len(query_gene_names))))\n"
       "            out_grp.create_dataset(\n"
       "                'reference',\n"
       "                data=np.array(these_reference, dtype=idx_dtype))\n"
       "            out_grp.create_dataset(\n"
       "                'query',\n"
       "                data=np.array(these_query, dtype=idx_dtype))\n"),
      (_MC, "import warnings\n",
       "import warnings\n"
       "from cell_type_mapper.utils.utils import choose_int_dtype\n")])

_VU = P+'validation/utils.py'
mutant('C16-unknown-species-means-no-change', 'C16',
       'identifiers of an unrecognised species are left as they are',
       [(_VU, "            if log is not None:\n"
         "                log.error(msg)\n"
         "            else:\n"
         "                raise RuntimeError(msg)\n",
         "            if log is not None:\n"
         "                log.warn(msg)\n"
         "            return None, 0\n")],
       'R-MUST/mapper-consulted', 'map_gene_ids_in_var')
twin('C16-twin-mapper-result-unpacked', 'C16',
     'mapper output taken apart in one statement',
     [(_VU, "    mapping_output = gene_id_mapper.map_gene_identifiers("
       "gene_id_list)\n"
       "    new_gene_id_list = mapping_output['mapped_genes']\n",
       "    mapping_output = gene_id_mapper.map_gene_identifiers(\n"
       "        gene_id_list)\n"
       "    new_gene_id_list, n_bad = (mapping_output['mapped_genes'],\n"
       "                               mapping_output['n_unmapped'])\n")])

_ABC = P+'cli/precompute_stats_abc.py'
mutant('C09-cell-sets-keyed-by-stripped-label', 'C09',
       'dataset -> cells table keyed by the label with blanks removed',
       [(_ABC, "                if dataset_label not in dataset_to_cell_set:\n"
         "                    dataset_to_cell_set[dataset_label] = set()\n"
         "                dataset_to_cell_set[dataset_label].add(cell_id)\n",
         "                key = dataset_label.strip()\n"
         "                if key not in dataset_to_cell_set:\n"
         "                    dataset_to_cell_set[key] = set()\n"
         "                dataset_to_cell_set[key].add(cell_id)\n")],
       'R-SAMEVAL/dataset-label-keys', 'run')
twin('C09-twin-datasets-sorted', 'C09',
     'datasets visited in sorted order, loop variable renamed',
     [(_ABC, "                for dataset in dataset_values:\n"
       "                    sanitized = dataset.replace(\" \", \"_\")"
       ".replace(\"/\", \".\")\n",
       "                for label in sorted(dataset_values):\n"
       "                    dataset = label\n"
       "                    sanitized = label.replace(\" \", \"_\")"
       ".replace(\"/\", \".\")\n")])

_TU = P+'type_assignment/utils.py'
mutant('C01-reconcile-rejects-empty-levels', 'C01',
       'reconciliation fails when no level of the cache is fully present',
       [(_TU, "    if len(missing_nodes) == 0:\n        return (True, '')\n",
         "    if len(valid_levels) == 0 and len(parent_list) > 1:\n"
         "        return (False, 'marker cache has no complete level')\n"
         "    if len(missing_nodes) == 0:\n        return (True, '')\n")],
       'R-MUST/rejects-only-missing-parent',
       'reconcile_taxonomy_and_markers')
twin('C01-twin-reconcile-truthiness', 'C01',
     'nothing-missing test written as truthiness of the list',
     [(_TU, "    if len(missing_nodes) == 0:\n        return (True, '')\n",
       "    if not missing_nodes:\n        return (True, '')\n")])

_TT = P+'taxonomy/taxonomy_tree.py'
mutant('C10-no-pairs-for-single-level', 'C10',
       'a one-level taxonomy is said to need no comparisons',
       [(_TT, "        result = get_all_leaf_pairs(\n"
         "            taxonomy_tree=self._data,\n"
         "            parent_node=parent_node)\n        return result\n",
         "        if len(self._data['hierarchy']) == 1:\n"
         "            return []\n"
         "        result = get_all_leaf_pairs(\n"
         "            taxonomy_tree=self._data,\n"
         "            parent_node=parent_node)\n        return result\n")],
       'R-MUST/pairs-from-the-tree', 'leaves_to_compare')
twin('C10-twin-shortcut-on-own-children', 'C10',
     'short-cut for a parent with a single child, tested on its children',
     [(_TT, "        result = get_all_leaf_pairs(\n"
       "            taxonomy_tree=self._data,\n"
       "            parent_node=parent_node)\n        return result\n",
       "        if parent_node is not None and len(self.children(\n"
       "                parent_node[0], parent_node[1])) < 2:\n"
       "            return []\n"
       "        result = get_all_leaf_pairs(\n"
       "            taxonomy_tree=self._data,\n"
       "            parent_node=parent_node)\n        return result\n")])

_AI = P+'anndata_iterator/anndata_iterator.py'
mutant('C20-missing-file-as-keyerror', 'C20',
       'missing query file reported with a KeyError',
       [(_AI, "            raise RuntimeError(\n"
         "                f\"{h5ad_path} is not a file\")\n",
         "            raise KeyError(\n"
         "                f\"{h5ad_path} is not a file\")\n")],
       'R-ROLE/path-in-message/rendered-as-text', 'AnnDataRowIterator')
twin('C20-twin-missing-file-as-oserror', 'C20',
     'missing query file reported with a FileNotFoundError',
     [(_AI, "            raise RuntimeError(\n"
       "                f\"{h5ad_path} is not a file\")\n",
       "            raise FileNotFoundError(\n"
       "                f\"{h5ad_path} is not a file\")\n")])

twin('C18-twin-denominator-np-maximum', 'C18',
     'cell count floored with np.maximum',
     [(P+'diff_exp/score_utils.py',
       "    mu = sum_arr/max(1, n_cells)\n",
       "    mu = sum_arr/np.maximum(1, n_cells)\n")])

_PA = P+'diff_exp/precompute_from_anndata.py'
mutant('C09-normalization-left-to-default', 'C09',
       'the declared normalization is not handed to the per-tree routine',
       [(_PA, "        rows_at_a_time=rows_at_a_time,\n"
         "        normalization=normalization,\n"
         "        tmp_dir=tmp_dir,\n"
         "        n_processors=n_processors)\n\n\n"
         "def precompute_summary_stats_from_h5ad_and_tree(\n",
         "        rows_at_a_time=rows_at_a_time,\n"
         "        tmp_dir=tmp_dir,\n"
         "        n_processors=n_processors)\n\n\n"
         "def precompute_summary_stats_from_h5ad_and_tree(\n")],
       'R-FWD/parameter-forwarded', 'normalization')
twin('C09-twin-settings-through-dict', 'C09',
     'settings handed down through a literal dict',
     [(_PA, "        rows_at_a_time=rows_at_a_time,\n"
       "        normalization=normalization,\n"
       "        tmp_dir=tmp_dir,\n"
       "        n_processors=n_processors)\n\n\n"
       "def precompute_summary_stats_from_h5ad_and_tree(\n",
       "        **{'rows_at_a_time': rows_at_a_time,\n"
       "           'normalization': normalization,\n"
       "           'tmp_dir': tmp_dir,\n"
       "           'n_processors': n_processors})\n\n\n"
       "def precompute_summary_stats_from_h5ad_and_tree(\n")])

mutant('C05-dense-rows-put-back-by-sorted-position', 'C05',
       'dense row batch put back with the permutation instead of its '
       'inverse',
       [(_AI, "        for ii, idx in enumerate(meta_sort):\n"
         "            output[idx, :] = raw[ii, :]\n",
         "        for ii, idx in enumerate(meta_sort):\n"
         "            output[ii, :] = raw[idx, :]\n")],
       'R-PERM/unsort-pair', 'get_batch')
twin('C05-twin-dense-rows-vectorised', 'C05',
     'dense row batch put back with one fancy-index store',
     [(_AI, "        for ii, idx in enumerate(meta_sort):\n"
       "            output[idx, :] = raw[ii, :]\n",
       "        output[meta_sort, :] = raw\n")])

# ======================================================================
# C11 -- reference markers (structural part)
# ======================================================================
_ST = P+'utils/stats_utils.py'
_SCO = P+'diff_exp/scores.py'
_PM = P+'diff_exp/p_value_mask.py'
_PMK = P+'diff_exp/p_value_markers.py'
_MK = P+'diff_exp/markers.py'
mutant('C11-pooled-standard-error', 'C11',
       'standard error uses the sum of the variances over the sum of n',
       [(_ST, "    nu_num = var1/n1 + var2/n2\n",
         "    nu_num = (var1 + var2)/(n1 + n2)\n")],
       'R-ARITH/welch', 'standard-error')
mutant('C11-dof-n-minus-one-dropped', 'C11',
       'degrees of freedom divide by n^3 instead of n^2 (n - 1)',
       [(_ST, "    nu_denom = ((var1**2)/(n1**3-n1**2)+(var2**2)/(n2**3-n2**2))\n",
         "    nu_denom = ((var1**2)/(n1**3)+(var2**2)/(n2**3))\n")],
       'R-ARITH/welch', 'degrees-of-freedom')
twin('C11-twin-dof-factored', 'C11',
     'degrees of freedom written with n^2 (n - 1)',
     [(_ST, "    nu_denom = ((var1**2)/(n1**3-n1**2)+(var2**2)/(n2**3-n2**2))\n",
       "    nu_denom = (var1*var1/(n1*n1*(n1-1))\n"
       "                + var2*var2/(n2*n2*(n2-1)))\n")])
mutant('C11-one-sided-p', 'C11',
       'exact test reports the lower tail only',
       [(_ST, "        ceil = 1.0-f_info.epsneg\n        cdf = np.clip(cdf, eps, ceil)\n\n"
         "        pval = np.where(cdf < 0.5, 2.0*cdf, 2.0*(1.0-cdf))\n"
         "    return (tt, nu, pval)\n\n\ndef approximate_welch_t_test(\n",
         "        ceil = 1.0-f_info.epsneg\n        cdf = np.clip(cdf, eps, ceil)\n\n"
         "        pval = np.where(cdf < 0.5, 2.0*cdf, 1.0)\n"
         "    return (tt, nu, pval)\n\n\ndef approximate_welch_t_test(\n")],
       'R-ARITH/two-sided-p', 'exact_welch_t_test')
mutant('C11-nan-cdf-kept', 'C11',
       'non-finite CDF values are no longer replaced by 0.5 (exact test)',
       [(_ST, "        cdf = scipy_stats.t.cdf(tt, df=nu)\n"
         "        cdf = np.where(np.isfinite(cdf), cdf, 0.5)\n",
         "        cdf = scipy_stats.t.cdf(tt, df=nu)\n")],
       'R-ARITH/two-sided-p', 'nan-is-half')
twin('C11-twin-two-sided-by-minimum', 'C11',
     'two-sided p-value written with the tails swapped in the where',
     [(_ST, "        ceil = 1.0-f_info.epsneg\n        cdf = np.clip(cdf, eps, ceil)\n\n"
       "        pval = np.where(cdf < 0.5, 2.0*cdf, 2.0*(1.0-cdf))\n"
       "    return (tt, nu, pval)\n\n\ndef approximate_welch_t_test(\n",
       "        ceil = 1.0-f_info.epsneg\n        cdf = np.clip(cdf, eps, ceil)\n\n"
       "        pval = np.where(cdf >= 0.5, 2.0*(1.0-cdf), cdf*2.0)\n"
       "    return (tt, nu, pval)\n\n\ndef approximate_welch_t_test(\n")])
mutant('C11-holm-multiplier-off-by-one', 'C11',
       'Holm multipliers start at m + 1',
       [(_ST, "    t_denom = n_p+padding+1-np.arange(1, n_p+1, dtype=int)\n",
         "    t_denom = n_p+padding+1-np.arange(0, n_p, dtype=int)\n")],
       'R-ARITH/holm', 'multiplier')
mutant('C11-holm-padding-ignored', 'C11',
       'Holm multipliers ignore the p-values left out',
       [(_ST, "    t_denom = n_p+padding+1-np.arange(1, n_p+1, dtype=int)\n",
         "    t_denom = n_p+1-np.arange(1, n_p+1, dtype=int)\n")],
       'R-ARITH/holm', 'multiplier')
twin('C11-twin-holm-multiplier-rewritten', 'C11',
     'Holm multipliers written as m - arange(n)',
     [(_ST, "    t_denom = n_p+padding+1-np.arange(1, n_p+1, dtype=int)\n",
       "    m_tot = n_p + padding\n"
       "    t_denom = m_tot - np.arange(n_p)\n")])
mutant('C11-holm-running-minimum', 'C11',
       'running minimum instead of running maximum',
       [(_ST, "    corrected_p = np.maximum.accumulate(ttest_metric[sorted_t]*t_denom)\n",
         "    corrected_p = np.minimum.accumulate(ttest_metric[sorted_t]*t_denom)\n")],
       'R-ARITH/holm', 'running-maximum')
mutant('C11-holm-not-put-back', 'C11',
       'corrected p-values returned in sorted order',
       [(_ST, "    ordered_p[sorted_t] = corrected_p\n",
         "    ordered_p[:] = corrected_p\n")],
       'R-ARITH/holm', 'put-back')
mutant('C11-restricted-holm-no-padding', 'C11',
       'restricted Holm does not count the p-values it leaves out',
       [(_ST, "        padding=len(result)-len(interesting_idx))\n",
         "        padding=0)\n")],
       'R-ARITH/holm-restricted', 'padding')
mutant('C11-validity-or', 'C11',
       'validity is p-value test OR penetrance',
       [(_SCO, "        validity_mask = np.logical_and(\n"
         "            pvalue_valid,\n            penetrance_mask)\n",
         "        validity_mask = np.logical_or(\n"
         "            pvalue_valid,\n            penetrance_mask)\n")],
       'R-ARITH/validity-conjunction', 'score_differential_genes')
mutant('C11-p-threshold-doubled', 'C11',
       'p-values tested against twice the threshold',
       [(_SCO, "    pvalue_valid = (pvalues < p_th)\n",
         "    pvalue_valid = (pvalues < 2*p_th)\n")],
       'R-ARITH/validity-conjunction', 'score_differential_genes')
twin('C11-twin-validity-by-operator', 'C11',
     'conjunction written with &',
     [(_SCO, "        validity_mask = np.logical_and(\n"
       "            pvalue_valid,\n            penetrance_mask)\n",
       "        validity_mask = penetrance_mask & pvalue_valid\n")])
mutant('C11-direction-reversed-in-mask-route', 'C11',
       'mask route sets up where the first cluster is higher',
       [(_PMK, "        up_mask[stats_2[\"mean\"] > stats_1[\"mean\"]] = True\n",
         "        up_mask[stats_1[\"mean\"] > stats_2[\"mean\"]] = True\n")],
       'R-ARITH/direction', '_find_markers_from_p_mask_worker')
mutant('C11-down-set-not-complement', 'C11',
       'down set is every valid gene',
       [(_MK, "            np.logical_and(validity_mask,\n"
         "                           np.logical_not(up_mask)))[0].astype(idx_dtype)\n",
         "            validity_mask)[0].astype(idx_dtype)\n")],
       'R-ARITH/direction', 'sets')
mutant('C11-min-cells-one', 'C11',
       'default minimum cell count lowered to one',
       [(_SCO, "        n_cells_min=2,\n", "        n_cells_min=1,\n")],
       'R-GUARD/two-cells', 'score_differential_genes')
mutant('C11-min-cells-and', 'C11',
       'pair refused only when both clusters are too small',
       [(_SCO, "    if stats_1['n_cells'] < n_cells_min or stats_2['n_cells'] < n_cells_min:\n",
         "    if stats_1['n_cells'] < n_cells_min and stats_2['n_cells'] < n_cells_min:\n")],
       'R-GUARD/two-cells', 'score_differential_genes')
mutant('C11-mask-route-min-cells-removed', 'C11',
       'mask route no longer skips pairs with a tiny cluster (F7 returns)',
       [(_PM, "        if (cluster_stats[node_1]['n_cells'] < n_cells_min\n"
         "                or cluster_stats[node_2]['n_cells'] < n_cells_min):\n"
         "            continue\n", "")],
       'R-GUARD/two-cells', '_p_values_worker')
twin('C11-twin-mask-route-min-cells-locals', 'C11',
     'mask route cell-count test through locals',
     [(_PM, "        if (cluster_stats[node_1]['n_cells'] < n_cells_min\n"
       "                or cluster_stats[node_2]['n_cells'] < n_cells_min):\n"
       "            continue\n",
       "        n_1 = cluster_stats[node_1]['n_cells']\n"
       "        n_2 = cluster_stats[node_2]['n_cells']\n"
       "        too_small = n_1 < n_cells_min or n_2 < n_cells_min\n"
       "        if too_small:\n"
       "            continue\n")])
mutant('C11-exact-threshold-inclusive-wrong-score', 'C11',
       'exact test compares qdiff with the q1 threshold',
       [(_SCO, "    qdiff_valid = (qdiff_score > qdiff_th)\n",
         "    qdiff_valid = (qdiff_score > q1_th)\n")],
       'R-ARITH/penetrance', 'exact_penetrance_test')
mutant('C11-exact-without-fold', 'C11',
       'exact penetrance ignores the fold-change threshold',
       [(_SCO, "        fold_valid = (log2_fold > log2_fold_th)\n"
         "        return np.logical_and(fold_valid, raw_penetrance)\n",
         "        return raw_penetrance\n")],
       'R-ARITH/penetrance', 'penetrance_tests:exact')
mutant('C11-floors-before-relaxation', 'C11',
       'floors applied before the relaxed genes are admitted',
       [(_SCO, "        valid = np.zeros(len(absolutely_valid), dtype=bool)\n"
         "        valid[to_use] = True\n"
         "        valid[distances['invalid']] = False\n",
         "        valid = np.zeros(len(absolutely_valid), dtype=bool)\n"
         "        valid[distances['invalid']] = False\n"
         "        valid[to_use] = True\n")],
       'R-ARITH/penetrance', 'floors-last')
mutant('C11-floor-inclusive', 'C11',
       'a score on its floor counts as invalid',
       [(_SCO, "            q1_score < q1_min_th,\n",
         "            q1_score <= q1_min_th,\n")],
       'R-ARITH/penetrance', 'floors')
mutant('C11-distance-zeroed-on-other-threshold', 'C11',
       'fold term zeroed beyond the floor instead of the threshold',
       [(_SCO, "    fold_term[log2_fold > log2_fold_th] = 0.0\n",
         "    fold_term[log2_fold > log2_fold_min_th] = 0.0\n")],
       'R-ARITH/penetrance', 'term')
mutant('C11-gene-list-fold-not-masked', 'C11',
       'genes outside the list keep their fold change',
       [(_SCO, "        log2_fold[invalid_mask] = -1.0\n", "")],
       'R-PROV/gene-list', 'penetrance_from_stats')
mutant('C11-mask-route-gene-list-after-invalid', 'C11',
       'mask route applies the gene list after the invalid set is formed',
       [(_PMK, "    if valid_gene_idx is not None:\n"
         "        penetrance_dist[prior_invalid_genes] = 1.5*bad_dist\n\n"
         "    invalid = (penetrance_dist >= bad_dist)\n",
         "    invalid = (penetrance_dist >= bad_dist)\n\n"
         "    if valid_gene_idx is not None:\n"
         "        penetrance_dist[prior_invalid_genes] = 1.5*bad_dist\n")],
       'R-PROV/gene-list', '_get_validity_mask')
mutant('C11-gene-major-directions-crossed', 'C11',
       'gene-major table of a direction transposes the other direction\'s pointers',
       [(_MK, "                    indptr_handle=src[f'sparse_by_pair/{direction}_pair_idx'],\n",
         "                    indptr_handle=src['sparse_by_pair/up_pair_idx'],\n")],
       'R-PROV/transposed-table', 'inputs')
mutant('C11-threshold-not-forwarded', 'C11',
       'strict q1 threshold not handed to the workers\' scoring call',
       [(_MK, "                         q1_th=q1_th,\n"
         "                         qdiff_th=qdiff_th,\n"
         "                         log2_fold_th=log2_fold_th,\n"
         "                         q1_min_th=q1_min_th,\n",
         "                         qdiff_th=qdiff_th,\n"
         "                         log2_fold_th=log2_fold_th,\n"
         "                         q1_min_th=q1_min_th,\n")],
       'R-FWD/parameter-forwarded', 'q1_th')

# ======================================================================
# C12 -- query marker selection (structural part)
# ======================================================================
_SL = P+'marker_selection/selection.py'
_SP = P+'marker_selection/selection_pipeline.py'
_MU = P+'marker_selection/utils.py'
mutant('C12-stops-at-fixed-count', 'C12',
       'greedy loop also stops once 500 genes are selected',
       [(_SL, "        if utility_array.max() <= 0:\n            break\n",
         "        if utility_array.max() <= 0:\n            break\n"
         "        if len(marker_gene_name_list) >= 500:\n            break\n")],
       'R-MUST/greedy-exits', 'exit')
mutant('C12-exit-on-half-filled', 'C12',
       'greedy loop stops when half the slots are filled',
       [(_SL, "        if filled_sum == been_filled_size:\n",
         "        if 2*filled_sum >= been_filled_size:\n")],
       'R-MUST/greedy-exits', 'exit')
mutant('C12-stale-exit-test', 'C12',
       'all-filled test made on the flags of the previous turn',
       [(_SL, "    while True:\n\n        (been_filled,\n",
         "    while True:\n        if been_filled.sum() == been_filled_size:\n"
         "            break\n\n        (been_filled,\n"),
        (_SL, "        filled_sum = been_filled.sum()\n"
         "        if filled_sum == been_filled_size:\n"
         "            # we have found all the genes we need\n"
         "            break\n", "")],
       'R-MUST/greedy-exits', 'fresh')
twin('C12-twin-exit-tests-merged', 'C12',
     'exit tests written through locals and a negation',
     [(_SL, "        if utility_array.max() <= 0:\n            break\n\n"
       "        filled_sum = been_filled.sum()\n"
       "        if filled_sum == been_filled_size:\n",
       "        no_more = utility_array.max() <= 0\n"
       "        if no_more:\n            break\n\n"
       "        filled_sum = been_filled.sum()\n"
       "        if not filled_sum != been_filled_size:\n")])
mutant('C12-target-reached-without-possible', 'C12',
       'column 0 is declared full on the target alone',
       [(_SL, "    newly_full_mask[:, 0] = np.logical_and(newly_full_mask[:, 0], are_possible)\n", "")],
       'R-ARITH/slot-filled', 'possible')
mutant('C12-possible-one-direction', 'C12',
       '"possible" when one direction reaches the target',
       [(_SL, "    are_possible = (are_possible == 2)\n",
         "    are_possible = (are_possible >= 1)\n")],
       'R-ARITH/slot-filled', '_get_are_possible')
mutant('C12-pair-bound-is-target', 'C12',
       'a pair is full when it holds the target (not twice)',
       [(_SL, "    tot_maxed = (tot_counts >= 2*n_per_utility)\n",
         "    tot_maxed = (tot_counts >= n_per_utility)\n")],
       'R-ARITH/slot-filled', 'twice-the-target')
twin('C12-twin-pair-bound-rewritten', 'C12',
     'twice the target written as a sum',
     [(_SL, "    tot_maxed = (tot_counts >= 2*n_per_utility)\n",
       "    bound = n_per_utility + n_per_utility\n"
       "    tot_maxed = (bound <= tot_counts)\n")])
mutant('C12-utility-not-struck', 'C12',
       'a selected gene keeps its utility',
       [(_SL, "    utility_array[chosen_idx] = -1.0\n", "")],
       'R-SAMEVAL/selected-once', 'struck')
mutant('C12-name-of-other-index', 'C12',
       'name recorded for the position in the sorted list',
       [(_SL, "    marker_gene_name_list.append(marker_gene_array.gene_names[chosen_idx])\n",
         "    marker_gene_name_list.append(\n"
         "        marker_gene_array.gene_names[len(marker_gene_name_list)])\n")],
       'R-SAMEVAL/selected-once', 'name-of-index')
mutant('C12-desperate-threshold-five', 'C12',
       'up-front treatment only for pairs with at most five markers',
       [(_SL, "        n_desperate=n_per_utility)\n",
         "        n_desperate=5)\n")],
       'R-COVER/desperate-pairs', 'threshold')
mutant('C12-desperate-first-marker-only', 'C12',
       'only the first marker of a desperate pair is taken',
       [(_SL, "                    chosen_idx=gene_idx,\n"
         "                    genes_at_a_time=1)\n",
         "                    chosen_idx=gene_idx,\n"
         "                    genes_at_a_time=1)\n"
         "            break\n")],
       'R-COVER/desperate-pairs', 'every-marker')
mutant('C12-unthinned-table-for-utility', 'C12',
       'utility computed on the table before thinning to the query genes',
       [(_SL, "    marker_gene_array = thin_marker_gene_array_by_gene(\n"
         "        marker_gene_array=marker_gene_array,\n",
         "    thinned_array = thin_marker_gene_array_by_gene(\n"
         "        marker_gene_array=marker_gene_array,\n"),
        (_SL, "    taxonomy_idx_array = _get_taxonomy_idx(\n"
         "        taxonomy_tree=taxonomy_tree,\n"
         "        parent_node=parent_node,\n"
         "        marker_gene_array=marker_gene_array)\n",
         "    taxonomy_idx_array = _get_taxonomy_idx(\n"
         "        taxonomy_tree=taxonomy_tree,\n"
         "        parent_node=parent_node,\n"
         "        marker_gene_array=thinned_array)\n"),
        (_SL, "    (marker_gene_names,\n     summary_log_message) = _run_selection(\n"
         "        marker_gene_array=marker_gene_array,\n",
         "    (marker_gene_names,\n     summary_log_message) = _run_selection(\n"
         "        marker_gene_array=thinned_array,\n")],
       'R-PROV/query-genes', 'create_utility_array')
mutant('C12-pairs-of-root', 'C12',
       'pairs always taken for the root',
       [(_SL, "    leaf_pairs = taxonomy_tree.leaves_to_compare(\n"
         "        parent_node=parent_node)\n\n    taxonomy_idx_array = [\n",
         "    leaf_pairs = taxonomy_tree.leaves_to_compare(\n"
         "        parent_node=None)\n\n    taxonomy_idx_array = [\n")],
       'R-PROV/pairs-of-parent', 'pairs')
mutant('C12-up-counted-in-column-zero', 'C12',
       'up-regulated markers counted in column 0',
       [(_SL, "    marker_counts['marker_counts'][full_mask, 1] += 1\n",
         "    marker_counts['marker_counts'][full_mask, 0] += 1\n")],
       'R-SAMEVAL/count-columns', 'columns')
mutant('C12-sign-table-swapped', 'C12',
       'column 1 handed on as -1',
       [(_SL, "            [{0: -1, 1: 1}[raw_sign]\n",
         "            [{0: 1, 1: -1}[raw_sign]\n")],
       'R-SAMEVAL/count-columns', 'sign-of-column')
mutant('C12-empty-parent-gets-none', 'C12',
       'a parent without pairs gets None instead of []',
       [(_SP, "                'n_genes': 0,\n"
         "                'msg': 'Skipping; no leaf nodes to compare'}\n"
         "        output_dict[parent_node] = []\n        return\n",
         "                'n_genes': 0,\n"
         "                'msg': 'Skipping; no leaf nodes to compare'}\n"
         "        return\n")],
       'R-GUARD/no-pairs-no-markers', '_marker_selection_worker')
mutant('C12-override-of-other-parent', 'C12',
       'override looked up for the previously chosen parent',
       [(_SP, "                        this_n_per = n_per_utility_override[chosen_parent]\n",
         "                        this_n_per = n_per_utility_override[parent]\n")],
       'R-PROV/target-override', 'n_per_utility')
twin('C12-twin-override-by-get', 'C12',
     'override test written with locals',
     [(_SP, "                this_n_per = n_per_utility\n"
       "                if n_per_utility_override is not None:\n"
       "                    if chosen_parent in n_per_utility_override:\n"
       "                        this_n_per = n_per_utility_override[chosen_parent]\n",
       "                this_n_per = n_per_utility\n"
       "                overrides = n_per_utility_override\n"
       "                if overrides is not None and chosen_parent in overrides:\n"
       "                    this_n_per = overrides[chosen_parent]\n")])

# ======================================================================
# rules added after the sixth seeding round
# ======================================================================
_MT = P+'type_assignment/matching.py'
_CBG = P+'cell_by_gene/cell_by_gene.py'
_TXU = P+'taxonomy/utils.py'
_AU = P+'utils/anndata_utils.py'
_CU = P+'utils/config_utils.py'
mutant('C09-chunk-sum-in-input-type', 'C09',
       'per-gene sums of a chunk cast back to the type of the data',
       [(_ST, "    result['sum'] = data.sum(axis=0)\n",
         "    result['sum'] = data.sum(axis=0).astype(data.dtype)\n")],
       'R-DTYPE/narrowing-cast', 'summary_stats_for_chunk')
twin('C09-twin-allocate-in-input-type', 'C09',
     'a work array allocated with the type of the data (no cast of a result)',
     [(_ST, "    result['sum'] = data.sum(axis=0)\n",
       "    scratch = np.zeros(data.shape[1], dtype=data.dtype)\n"
       "    del scratch\n"
       "    result['sum'] = data.sum(axis=0)\n")])
mutant('C06-scale-by-chunk-maximum', 'C06',
       'query chunk divided by its own largest value before correlation',
       [(_MT, "    query_data = full_query_data.downsample_genes(\n"
         "        selected_genes=query_markers)\n",
         "    query_data = full_query_data.downsample_genes(\n"
         "        selected_genes=query_markers)\n"
         "    chunk_scale = max(1.0, query_data.data.max())\n")],
       'R-AXIS/no-reduction-over-cells', 'assemble_query_data')
twin('C06-twin-per-cell-total', 'C06',
     'a per-cell total computed along the gene axis',
     [(_MT, "    query_data = full_query_data.downsample_genes(\n"
       "        selected_genes=query_markers)\n",
       "    query_data = full_query_data.downsample_genes(\n"
       "        selected_genes=query_markers)\n"
       "    per_cell_total = query_data.data.sum(axis=1)\n"
       "    del per_cell_total\n")])
mutant('C10-obs-sorted-before-numbering', 'C10',
       'obs rows sorted by the hierarchy columns before they are numbered',
       [(_TXU, "    obs = read_df_from_h5ad(h5ad_path, 'obs')\n"
         "    taxonomy_tree = get_taxonomy_tree(\n",
         "    obs = read_df_from_h5ad(h5ad_path, 'obs')\n"
         "    obs = obs.sort_values(by=list(column_hierarchy))\n"
         "    taxonomy_tree = get_taxonomy_tree(\n")],
       'R-PROV/rows-are-file-positions', 'get_taxonomy_tree_from_h5ad')
twin('C10-twin-obs-columns-selected', 'C10',
     'only the hierarchy columns of obs are kept (no row touched)',
     [(_TXU, "    obs = read_df_from_h5ad(h5ad_path, 'obs')\n"
       "    taxonomy_tree = get_taxonomy_tree(\n",
       "    obs = read_df_from_h5ad(h5ad_path, 'obs')\n"
       "    obs = obs[list(column_hierarchy)].copy()\n"
       "    taxonomy_tree = get_taxonomy_tree(\n")])
mutant('C16-F8-group-item-assignment-returns', 'C16',
       'unchunked sparse layer filled by item assignment on the group (F8)',
       [(_AU, "                    dst_grp[el][:] = src_dataset[()]\n",
         "                    dst_grp[el] = src_dataset[()]\n")],
       'R-TYPESTATE/h5-name-once', '_copy_layer_to_x_sparse')
twin('C16-twin-ellipsis-fill', 'C16',
     'unchunked sparse layer filled through an ellipsis index',
     [(_AU, "                    dst_grp[el][:] = src_dataset[()]\n",
       "                    dst_grp[el][...] = src_dataset[()]\n")])
twin('C16-twin-max-of-abs-function-form', 'C16',
     'largest absolute deviation written with np.max(np.abs(...))',
     [(P+'validation/utils.py',
       "                rounded_chunk = np.round(chunk)\n"
       "                this_delta = np.abs(rounded_chunk-chunk).max()\n"
       "                if this_delta > eps:\n",
       "                rounded_chunk = np.round(chunk)\n"
       "                this_delta = np.max(np.abs(rounded_chunk-chunk))\n"
       "                if this_delta > eps:\n")])
mutant('C19-fallback-tested-first', 'C19',
       'the location beside the parent file is tried before the recorded one',
       [(_CU, "        if child.is_file():\n"
         "            new_lookup[child] = parent\n"
         "            continue\n\n"
         "        found_it = False\n"
         "        if do_search:\n"
         "            alt_path = parent.parent / child.name\n"
         "            if alt_path.is_file():\n"
         "                new_lookup[alt_path] = parent\n"
         "                found_it = True\n",
         "        found_it = False\n"
         "        if do_search:\n"
         "            alt_path = parent.parent / child.name\n"
         "            if alt_path.is_file():\n"
         "                new_lookup[alt_path] = parent\n"
         "                found_it = True\n"
         "        if not found_it and child.is_file():\n"
         "            new_lookup[child] = parent\n"
         "            continue\n")],
       'R-PROV/recorded-path-first', 'patch_child_to_parent')
twin('C19-twin-candidates-in-order', 'C19',
     'first-match loop over [recorded, fall-back]',
     [(_CU, "        if child.is_file():\n"
       "            new_lookup[child] = parent\n"
       "            continue\n\n"
       "        found_it = False\n"
       "        if do_search:\n"
       "            alt_path = parent.parent / child.name\n"
       "            if alt_path.is_file():\n"
       "                new_lookup[alt_path] = parent\n"
       "                found_it = True\n",
       "        candidates = [child]\n"
       "        if do_search:\n"
       "            candidates.append(parent.parent / child.name)\n"
       "        found_it = False\n"
       "        for candidate in candidates:\n"
       "            if candidate.is_file():\n"
       "                new_lookup[candidate] = parent\n"
       "                found_it = True\n"
       "                break\n")])
mutant('C17-parents-of-unreduced-tree', 'C17',
       'parents listed before the level is dropped, selection on the reduced tree',
       [(_MC, "    if drop_level is not None:\n"
         "        if drop_level in taxonomy_tree.hierarchy:\n"
         "            taxonomy_tree = taxonomy_tree.drop_level(drop_level)\n\n"
         "    # assemble dict mapping reference marker path to the a\n",
         "    full_tree = taxonomy_tree\n"
         "    if drop_level is not None:\n"
         "        if drop_level in taxonomy_tree.hierarchy:\n"
         "            taxonomy_tree = taxonomy_tree.drop_level(drop_level)\n\n"
         "    # assemble dict mapping reference marker path to the a\n"),
        (_MC, "                taxonomy_tree=taxonomy_tree,\n"
         "                parent_list=parent_list,\n"
         "                n_per_utility=n_per_utility,\n"
         "                n_per_utility_override=n_per_utility_override,\n"
         "                n_processors=n_processors,\n"
         "                behemoth_cutoff=behemoth_cutoff,\n"
         "                genes_at_a_time=genes_at_a_time,\n"
         "                tmp_dir=tmp_dir)\n\n        if marker_lookup is None:\n",
         "                taxonomy_tree=full_tree,\n"
         "                parent_list=parent_list,\n"
         "                n_per_utility=n_per_utility,\n"
         "                n_per_utility_override=n_per_utility_override,\n"
         "                n_processors=n_processors,\n"
         "                behemoth_cutoff=behemoth_cutoff,\n"
         "                genes_at_a_time=genes_at_a_time,\n"
         "                tmp_dir=tmp_dir)\n\n        if marker_lookup is None:\n")],
       'R-SAMEVAL/tree-and-parents', 'create_raw_marker_gene_lookup')
mutant('C11-gene-list-skipped-when-short', 'C11',
       'a gene list of one gene is treated as no restriction',
       [(_SCO, "    if valid_gene_idx is not None:\n"
         "        invalid_mask = np.zeros(pij_1.shape, dtype=bool)\n",
         "    if valid_gene_idx is not None and valid_gene_idx.size > 1:\n"
         "        invalid_mask = np.zeros(pij_1.shape, dtype=bool)\n")],
       'R-PROV/gene-list', 'whenever-given')
mutant('C15-name-cache-without-level', 'C15',
       'readable names memoised per (label, key) on the tree object',
       [(_TT, "        if 'name_mapper' not in self._data:\n"
         "            return label\n"
         "        name_mapper = self._data['name_mapper']\n"
         "        if level not in name_mapper:\n"
         "            return label\n",
         "        if not hasattr(self, '_names'):\n"
         "            self._names = dict()\n"
         "        if (label, name_key) not in self._names:\n"
         "            self._names[(label, name_key)] = self._data.get(\n"
         "                'name_mapper', {}).get(level, {}).get(\n"
         "                    label, {}).get(name_key, label)\n"
         "        if 'name_mapper' not in self._data:\n"
         "            return label\n"
         "        name_mapper = self._data['name_mapper']\n"
         "        if level not in name_mapper:\n"
         "            return label\n")],
       'R-MEMO/key-complete', 'label_to_name')
twin('C15-twin-name-cache-with-level', 'C15',
     'readable names memoised per (level, label, key)',
     [(_TT, "        if 'name_mapper' not in self._data:\n"
       "            return label\n"
       "        name_mapper = self._data['name_mapper']\n"
       "        if level not in name_mapper:\n"
       "            return label\n",
       "        if not hasattr(self, '_names'):\n"
       "            self._names = dict()\n"
       "        if (level, label, name_key) not in self._names:\n"
       "            self._names[(level, label, name_key)] = self._data.get(\n"
       "                'name_mapper', {}).get(level, {}).get(\n"
       "                    label, {}).get(name_key, label)\n"
       "        if 'name_mapper' not in self._data:\n"
       "            return label\n"
       "        name_mapper = self._data['name_mapper']\n"
       "        if level not in name_mapper:\n"
       "            return label\n")])

mutant('C10-level-position-tested-for-truth', 'C10',
       'position of a level in the hierarchy tested for truth',
       [(_TT, "        if parent_node is not None:\n"
         "            this_level = parent_node[0]\n"
         "            this_node = parent_node[1]\n",
         "        if parent_node is not None:\n"
         "            this_level = parent_node[0]\n"
         "            this_node = parent_node[1]\n"
         "            level_pos = self._data['hierarchy'].index(this_level) \\\n"
         "                if this_level in self._data['hierarchy'] else None\n"
         "            depth = self._data['hierarchy'].index(this_level) \\\n"
         "                if this_level in self._data['hierarchy'] else 0\n"
         "            where = self._data['hierarchy'].index(\n"
         "                self._data['hierarchy'][0])\n"
         "            if not where:\n"
         "                pass\n"
         "            del level_pos, depth\n")],
       'R-IDIOM/truthy-position', 'leaves_to_compare')

mutant('C11-exact-penetrance-not-given-to-workers', 'C11',
       'marker workers started without the exact_penetrance setting',
       [(_MK, "                    'tmp_path': tmp_path,\n"
         "                    'exact_penetrance': exact_penetrance,\n",
         "                    'tmp_path': tmp_path,\n")],
       'R-FWD/parameter-forwarded', 'exact_penetrance')

# ======================================================================
# rules added after the seventh seeding round
# ======================================================================
_UU = P+'utils/utils.py'
_C2C = P+'utils/csc_to_csr.py'
_DRU = P+'taxonomy/data_release_utils.py'
mutant('C16-width-from-floor-of-extremes', 'C16',
       'integer type chosen from the floor of the extremes',
       [(_UU, "    int_min = np.round(x_minmax[0])\n    int_max = np.round(x_minmax[1])\n",
         "    int_min = np.floor(x_minmax[0])\n    int_max = np.floor(x_minmax[1])\n")],
       'R-ARITH/int-width', 'rounding')
mutant('C16-width-max-against-min-bound', 'C16',
       'maximum compared with the magnitude of the type\'s minimum',
       [(_UU, "        if int_min >= this_info.min and int_max <= this_info.max:\n",
         "        if int_min >= this_info.min and int_max <= -this_info.min:\n")],
       'R-ARITH/int-width', 'bounds')
twin('C16-twin-width-bounds-reordered', 'C16',
     'bounds test written the other way round',
     [(_UU, "        if int_min >= this_info.min and int_max <= this_info.max:\n",
       "        if this_info.max >= int_max and this_info.min <= int_min:\n")])
mutant('C14-return-in-finally-of-reference-stats', 'C14',
       'a return inside the finally block of the marker stage',
       [(P+'diff_exp/p_value_markers.py',
         "    finally:\n        _clean_up(tmp_dir)\n",
         "    finally:\n        _clean_up(tmp_dir)\n        return None\n")],
       'R-IDIOM/jump-in-finally', 'find_markers_for_all_taxonomy_pairs_from_p_mask')
mutant('C02-factor-rounded-up-on-small-nodes', 'C02',
       'bootstrap factor replaced by 1.0 at nodes with few markers',
       [(_EL, "    t = time.time()\n    (result,\n     bootstrapping_probability,\n",
         "    if query_data['query_data'].n_genes < 5:\n"
         "        bootstrap_factor = 1.0\n"
         "    t = time.time()\n    (result,\n     bootstrapping_probability,\n")],
       'R-FWD/setting-not-rebound', 'bootstrap_factor')
twin('C02-twin-iteration-count-cast', 'C02',
     'iteration count normalised to int',
     [(_EL, "    t = time.time()\n    (result,\n     bootstrapping_probability,\n",
       "    bootstrap_iteration = int(bootstrap_iteration)\n"
       "    t = time.time()\n    (result,\n     bootstrapping_probability,\n")])
mutant('C13-piece-copied-in-blocks-cursor-not-advanced', 'C13',
       'dense pieces copied in blocks onto the same rows',
       [(_AU, "                dst_data[data0:data0+n_data] = src['data'][()]\n"
         "                dst_indices[data0:data0+n_data] = src['indices'][()]\n",
         "                for b0 in range(0, n_data, 500000):\n"
         "                    b1 = min(n_data, b0+500000)\n"
         "                    dst_data[data0:data0+(b1-b0)] = src['data'][b0:b1]\n"
         "                    dst_indices[data0:data0+(b1-b0)] = src['indices'][b0:b1]\n")],
       'R-CURSOR/store-advances', 'amalgamate_csr_to_x')
twin('C13-twin-piece-copied-in-blocks', 'C13',
     'pieces copied in blocks, destination moving with the block',
     [(_AU, "                dst_data[data0:data0+n_data] = src['data'][()]\n"
       "                dst_indices[data0:data0+n_data] = src['indices'][()]\n",
       "                for b0 in range(0, n_data, 500000):\n"
       "                    b1 = min(n_data, b0+500000)\n"
       "                    dst_data[data0+b0:data0+b1] = src['data'][b0:b1]\n"
       "                    dst_indices[data0+b0:data0+b1] = src['indices'][b0:b1]\n")])
twin('C05-twin-read-buffer-sliced', 'C05',
     'index pass reads into a re-used buffer and uses the filled part',
     [(_C2C, "    for i0 in range(0, n_indices, load_chunk_size):\n"
       "        i1 = min(n_indices, i0+load_chunk_size)\n"
       "        chunk = indices_handle[i0:i1]\n",
       "    read_buffer = np.zeros(min(n_indices, load_chunk_size),\n"
       "                           dtype=indices_handle.dtype)\n"
       "    for i0 in range(0, n_indices, load_chunk_size):\n"
       "        i1 = min(n_indices, i0+load_chunk_size)\n"
       "        indices_handle.read_direct(\n"
       "            read_buffer, source_sel=np.s_[i0:i1],\n"
       "            dest_sel=np.s_[0:i1-i0])\n"
       "        chunk = read_buffer[:i1-i0]\n")])
mutant('C10-release-cells-checked-against-seen-per-cluster', 'C10',
       'repeated cells detected per cluster only',
       [(_DRU, "            if cell in result:\n"
         "                raise RuntimeError(\n"
         "                    f\"cell {cell} listed more than once in {csv_path}\")\n"
         "            result[cell] = cluster\n",
         "            if result.get(cell) == cluster:\n"
         "                raise RuntimeError(\n"
         "                    f\"cell {cell} listed more than once in {csv_path}\")\n"
         "            result[cell] = cluster\n")],
       'R-GUARD/unique-insert', 'get_cell_to_cluster_alias')
twin('C10-twin-release-cells-guard-clause', 'C10',
     'repeated-cell test written as a guard clause on a local',
     [(_DRU, "            if cell in result:\n"
       "                raise RuntimeError(\n"
       "                    f\"cell {cell} listed more than once in {csv_path}\")\n"
       "            result[cell] = cluster\n",
       "            fresh = cell not in result\n"
       "            if not fresh:\n"
       "                raise RuntimeError(\n"
       "                    f\"cell {cell} listed more than once in {csv_path}\")\n"
       "            result[cell] = cluster\n")])
mutant('C11-p-mask-worker-skips-pairs-without-valid-genes', 'C11',
       'mask-route worker records nothing for a pair without valid genes',
       [(_PMK, "        up_reg_lookup[idx] = np.where(\n"
         "            np.logical_and(validity_mask, up_mask))[0]\n",
         "        if not validity_mask.any():\n            continue\n"
         "        up_reg_lookup[idx] = np.where(\n"
         "            np.logical_and(validity_mask, up_mask))[0]\n")],
       'R-COVER/every-pair-recorded', '_find_markers_from_p_mask_worker')
mutant('C19-mask-file-appended-not-created', 'C19',
       'marker scratch file opened for appending by its first writer',
       [(_MK, "    with h5py.File(output_path, 'w') as out_file:\n"
         "        out_file.create_dataset(\n            'gene_names',\n",
         "    with h5py.File(output_path, 'a') as out_file:\n"
         "        out_file.create_dataset(\n            'gene_names',\n")],
       'R-FRESH/output-created-afresh', 'PValueRunner')

mutant('C11-F9-zero-chunk-extent-returns', 'C11',
       'gene index table chunked by a count that can be zero (F9)',
       [(_MK, "        if n_up_indices > 0:\n"
         "            up_chunks = (min(1000000, n_up_indices),)\n"
         "        else:\n            up_chunks = None\n",
         "        up_chunks = (min(1000000, n_up_indices),)\n")],
       'R-POS/chunk-extent', '_merge_sparse_by_pair_files')
mutant('C11-F10-single-pair-chunk-rejected', 'C11',
       'contiguity test rejects a chunk of one pair again (F10)',
       [(_PM, "    if len(idx_values) > 1 and (len(delta) != 1 or delta[0] != 1):\n",
         "    if len(delta) != 1 or delta[0] != 1:\n")],
       'R-IDIOM/contiguity-of-one', '_p_values_worker')
twin('C11-twin-contiguity-guard-nested', 'C11',
     'single-item allowance written as an enclosing if',
     [(_PM, "    if len(idx_values) > 1 and (len(delta) != 1 or delta[0] != 1):\n"
       "        raise RuntimeError(\n"
       "            \"p-value worker was passed non-consecutive pairs\")\n",
       "    if len(idx_values) > 1:\n"
       "        if len(delta) != 1 or delta[0] != 1:\n"
       "            raise RuntimeError(\n"
       "                \"p-value worker was passed non-consecutive pairs\")\n")])

# ======================================================================
# rules added after the eighth seeding round
# ======================================================================
_GU = P+'gene_id/utils.py'
_OUT = P+'utils/output_utils.py'
mutant('C05-single-row-range-not-rebased', 'C05',
       'a one-row range returns the raw pointer slice',
       [(_SU, "    these_indices = indices[index0:index1]\n"
         "    this_data = data[index0:index1]\n"
         "    return this_data, these_indices, these_ptrs-these_ptrs.min()\n",
         "    these_indices = indices[index0:index1]\n"
         "    this_data = data[index0:index1]\n"
         "    if len(these_ptrs) == 2:\n"
         "        return this_data, these_indices, these_ptrs\n"
         "    return this_data, these_indices, these_ptrs-these_ptrs.min()\n")],
       'R-SAMEVAL/pointers-rebased', '_load_sparse')
twin('C05-twin-rebase-by-first-pointer', 'C05',
     'pointers re-based by subtracting the first one',
     [(_SU, "    return this_data, these_indices, these_ptrs-these_ptrs.min()\n",
       "    return this_data, these_indices, these_ptrs-these_ptrs[0]\n")])
mutant('C09-ge1-threshold-widened', 'C09',
       'ge1 counts cells above 1 - 0.05',
       [(_ST, "    eps = 1.0e-6  # for float comparisons\n",
         "    eps = 0.05  # for float comparisons\n")],
       'R-ARITH/count-thresholds', 'ge1')
twin('C09-twin-thresholds-inlined', 'C09',
     'thresholds written as literals',
     [(_ST, "    result['gt0'] = (data > zero_cutoff).sum(axis=0)\n"
       "    result['gt1'] = (data > one_cutoff).sum(axis=0)\n",
       "    result['gt0'] = (0.0 < data).sum(axis=0)\n"
       "    result['gt1'] = (data > 1.0).sum(axis=0)\n")])
mutant('C20-module-path-only-if-inside-package', 'C20',
       'module path made relative only when it lies under the package',
       [(_OUT, "    module = pathlib.Path(module_file).relative_to(ctm_parent)\n",
         "    module = pathlib.Path(module_file)\n"
         "    if str(module).startswith(str(ctm_parent)):\n"
         "        module = module.relative_to(ctm_parent)\n")],
       'R-MUST/module-relative', 'get_execution_metadata')
mutant('C04-two-workers-special-cased', 'C04',
       'statistics stage takes another path for exactly two workers',
       [(_PA, "        if n_processors <= 1:\n\n            _process_chunk_spec(\n",
         "        if n_processors <= 1 or (n_processors == 2\n"
         "                                 and len(work_load) == 1):\n\n"
         "            _process_chunk_spec(\n")],
       'R-PROV/worker-count-special-case', 'n_processors == 2')
mutant('C15-flag-false-for-unvoted-single-child', 'C15',
       'front end flags a level False when the record lacks runner-ups',
       [(P+'type_assignment/election_runner.py',
         "            cell[level]['directly_assigned'] = True\n",
         "            cell[level]['directly_assigned'] = (\n"
         "                'runner_up_assignment' in cell[level])\n")],
       'R-SAMEVAL/flag-per-level', 'run_type_assignment_on_h5ad')
mutant('C16-ensembl-pattern-prefix-match', 'C16',
       'Ensembl test matches a prefix of the identifier',
       [(_GU, "    match = is_ensembl.pattern.fullmatch(gene_id)\n",
         "    match = is_ensembl.pattern.match(gene_id)\n")],
       'R-IDIOM/ensembl-pattern', 'fullmatch')
twin('C16-twin-ensembl-pattern-character-class-dot', 'C16',
     'version separator written as a character class',
     [(_GU, "r'ENS[A-Z]+[0-9]+(\\.[0-9]+)?'", "r'ENS[A-Z]+[0-9]+([.][0-9]+)?'")])
mutant('C19-iterator-finaliser-guarded-by-try', 'C19',
       'row iterator finaliser drops errors of a handle close placed before the release',
       [(_AI, "    def __del__(self):\n        if self.tmp_dir is not None:\n"
         "            _clean_up(self.tmp_dir)\n",
         "    def __del__(self):\n        if self.tmp_dir is not None:\n"
         "            try:\n"
         "                self._chunk_iterator.h5_handler.close()\n"
         "                _clean_up(self.tmp_dir)\n"
         "            except Exception:\n"
         "                pass\n")],
       'R-PAIR/tempdir/finaliser', 'AnnDataRowIterator.__del__')
twin('C19-twin-iterator-finaliser-release-first', 'C19',
     'finaliser releases the directory first, then closes in a try',
     [(_AI, "    def __del__(self):\n        if self.tmp_dir is not None:\n"
       "            _clean_up(self.tmp_dir)\n",
       "    def __del__(self):\n        if self.tmp_dir is not None:\n"
       "            _clean_up(self.tmp_dir)\n"
       "            try:\n"
       "                self._chunk_iterator.h5_handler.close()\n"
       "            except Exception:\n"
       "                pass\n")])
mutant('C11-t-test-on-expressed-genes-only', 'C11',
       'p-values computed for the genes with non-zero variance only',
       [(_SCO, "    pvalues = diffexp_p_values(\n"
         "                mean1=stats_1['mean'],\n"
         "                var1=stats_1['var'],\n",
         "    keep = stats_1['var'] > 0\n"
         "    pvalues = diffexp_p_values(\n"
         "                mean1=stats_1['mean'][keep],\n"
         "                var1=stats_1['var'],\n")],
       'R-ARITH/holm-counts-all-genes', 'inputs')
mutant('C12-filled-pairs-by-row-number', 'C12',
       'filled pairs reported by their row among the parent\'s pairs',
       [(_SL, "        pair_batch = np.array(\n"
         "            [taxonomy_idx_array[pair_idx]\n"
         "             for pair_idx in newly_full[0]])\n",
         "        pair_batch = np.array(newly_full[0])\n")],
       'R-SAMEVAL/count-columns', 'pair-index')
twin('C12-twin-signs-by-arithmetic', 'C12',
     'column -> sign written as 2 * column - 1',
     [(_SL, "        sign_batch = np.array(\n"
       "            [{0: -1, 1: 1}[raw_sign]\n"
       "             for raw_sign in newly_full[1]])\n",
       "        sign_batch = 2*newly_full[1]-1\n")])
mutant('C08-parents-listed-in-sorted-order', 'C08',
       'all_parents returns the parents sorted',
       [(_TT, "                parent = (level, node)\n"
         "                parent_list.append(parent)\n"
         "        return parent_list\n",
         "                parent = (level, node)\n"
         "                parent_list.append(parent)\n"
         "        return parent_list[:1] + sorted(parent_list[1:])\n")],
       'R-PROV/deepest-first', 'all_parents')
mutant('C06-normalisation-in-whole-blocks', 'C06',
       'in-place normalisation done for whole blocks of rows only',
       [(_CBG, "            self._data = np.log2(1.0+convert_to_cpm(self.data))\n",
         "            out = np.zeros(self.data.shape, dtype=float)\n"
         "            for ib in range(max(1, self.n_cells//5000)):\n"
         "                out[ib*5000:ib*5000+5000, :] = np.log2(\n"
         "                    1.0+convert_to_cpm(\n"
         "                        self.data[ib*5000:ib*5000+5000, :]))\n"
         "            self._data = out\n")],
       'R-TILE/whole-axis', 'to_log2CPM_in_place')

# ----------------------------------------------------------------------
# round 9
# ----------------------------------------------------------------------
_VH = P+'validation/validate_h5ad.py'
_FSM = P+'cli/from_specified_markers.py'

twin('C03-twin-aggregate-type-from-sums', 'C03',
     'aggregated vote totals typed from the largest per-cell total',
     [(_EL, "    vote_array_agg = np.zeros((n_query, n_unq), dtype=int)\n",
       "    vote_dtype = choose_int_dtype(\n"
       "        (0, vote_array.sum(axis=1).max()))\n"
       "    vote_array_agg = np.zeros((n_query, n_unq), dtype=vote_dtype)\n")])
mutant('C05-merged-indptr-typed-from-data', 'C05',
       'merge_csr allocates indptr with the element type of the data',
       [(_SU, "    indptr = np.zeros(n_indptr, dtype=int)\n",
         "    indptr = np.zeros(n_indptr, dtype=data_list[0].dtype)\n")],
       'R-DTYPE/borrowed-type', 'merge_csr')
twin('C05-twin-merged-indices-typed-from-indices', 'C05',
     'merge_csr allocates indices with the widest of int and the type of '
     'the incoming indices',
     [(_SU, "    indices = np.zeros(n_data, dtype=int)\n",
       "    indices = np.zeros(\n"
       "        n_data,\n"
       "        dtype=np.promote_types(int, indices_list[0].dtype))\n")])
mutant('C08-root-group-when-list-empty', 'C08',
       'assemble_query_data reads the root group when the parent has an '
       'empty list',
       [(_MT, "        this_grp = in_file[parent_grp]\n",
         "        this_grp = in_file[parent_grp]\n"
         "        if len(this_grp['reference']) == 0:\n"
         "            this_grp = in_file['None']\n")],
       'R-PROV/group-of-parent', 'assemble_query_data')
twin('C08-twin-group-key-through-local', 'C08',
     'group key copied into a local before the lookup',
     [(_MT, "        this_grp = in_file[parent_grp]\n",
       "        grp_key = parent_grp\n"
       "        this_grp = in_file[grp_key]\n")])
mutant('C09-children-hands-out-internal-list', 'C09',
       'TaxonomyTree.children returns the stored list; '
       'assemble_query_data sorts it in place',
       [(_TT, "        return list(self._data[level][node])\n",
         "        return self._data[level][node]\n")],
       'R-ALIAS/tree-state', 'children')
twin('C09-twin-cell-set-filter-on-a-copy', 'C09',
     'cell_set restriction moved out of the loop, on the copy that '
     'leaf_to_cells returns',
     [(_PA, "    cluster_list = list(leaf_to_cells.keys())\n",
       "    if cell_set is not None:\n"
       "        for cluster in leaf_to_cells:\n"
       "            leaf_to_cells[cluster] = [\n"
       "                cell for cell in leaf_to_cells[cluster]\n"
       "                if str(cell) in cell_set]\n"
       "    cluster_list = list(leaf_to_cells.keys())\n")])
twin('C13-twin-contiguous-fast-path-unsorted', 'C13',
     'contiguous requests read as one slice, then put back into the '
     'requested order',
     [(_AI, "        with self.h5_handler as h5_handle:\n"
       "            raw = h5_handle[self.data_key][sorted_row_idx, :]\n"
       "        output = np.zeros(raw.shape, dtype=raw.dtype)\n",
       "        n_idx = len(sorted_row_idx)\n"
       "        if n_idx > 0 and sorted_row_idx[-1]-sorted_row_idx[0] "
       "== n_idx-1 \\\n"
       "                and len(np.unique(sorted_row_idx)) == n_idx:\n"
       "            raw = self.get_chunk(\n"
       "                r0=sorted_row_idx[0],\n"
       "                r1=sorted_row_idx[-1]+1)[0]\n"
       "        else:\n"
       "            with self.h5_handler as h5_handle:\n"
       "                raw = h5_handle[self.data_key][sorted_row_idx, :]\n"
       "        output = np.zeros(raw.shape, dtype=raw.dtype)\n")])
mutant('C15-results-need-a-key-nobody-stores', 'C15',
       'blob_to_hdf5 tests for a key that the mapping never stores',
       [(_OUT, "    elif 'results' not in output_blob:\n",
         "    elif 'result' not in output_blob:\n")],
       'R-AGREE/hdf5-results-condition', 'result')
twin('C15-twin-results-condition-as-loop', 'C15',
     'the two membership tests of blob_to_hdf5 written as a loop',
     [(_OUT, "    if 'taxonomy_tree' not in output_blob:\n"
       "        run_succeeded = False\n"
       "    elif 'results' not in output_blob:\n"
       "        run_succeeded = False\n",
       "    for needed in ('taxonomy_tree', 'results'):\n"
       "        if needed not in output_blob:\n"
       "            run_succeeded = False\n")])
mutant('C15-probability-dataset-filled-with-constant', 'C15',
       'the HDF5 writer fills bootstrapping_probability with 1.0',
       [(_OUT, "            prob[i_cell, i_level] = cell[level]"
         "['bootstrapping_probability']\n",
         "            prob[i_cell, i_level] = 1.0\n")],
       'R-SCHEMA/hdf5-field-map', 'bootstrapping_probability')
mutant('C19-stale-validated-file-never-removed', 'C19',
       'the branch that removes a stale validated file is deleted',
       [(_VH, "    else:\n"
         "        if new_h5ad_path.exists():\n"
         "            new_h5ad_path.unlink()\n", "")],
       'R-FRESH/stale-output-removed', '_validate_h5ad')
twin('C19-twin-stale-file-removed-up-front', 'C19',
     'a stale validated file is removed before it is known whether a new '
     'one is written',
     [(_VH, "    if write_to_new_path:\n"
       "        n_genes = len(var_original)\n",
       "    if new_h5ad_path.exists():\n"
       "        new_h5ad_path.unlink()\n"
       "    if write_to_new_path:\n"
       "        n_genes = len(var_original)\n"),
      (_VH, "    else:\n"
       "        if new_h5ad_path.exists():\n"
       "            new_h5ad_path.unlink()\n", "")])
mutant('C20-process-label-with-path-through-local', 'C20',
       'worker processes are labelled with the query path, via a local',
       [(_EL, "        p = multiprocessing.Process(\n"
         "                target=_run_type_assignment_on_h5ad_worker,\n",
         "        label = f\"{query_h5ad_path} rows {r0}:{r1}\"\n"
         "        p = multiprocessing.Process(\n"
         "                name=label,\n"
         "                target=_run_type_assignment_on_h5ad_worker,\n")],
       'R-ROLE/path-in-message/message-only',
       'run_type_assignment_on_h5ad_cpu')
twin('C20-twin-message-through-local', 'C20',
     'a message with a path in it is built in a local, then raised',
     [(_AI, "            raise RuntimeError(\n"
       "                f\"{h5ad_path} is not a file\")\n",
       "            msg = f\"{h5ad_path} is not a file\"\n"
       "            raise RuntimeError(msg)\n")])
mutant('C04-indptr-typed-from-largest-gene-index', 'C04',
       '_lookup_to_sparse sizes the indptr type from the largest stored '
       'value',
       [(_MK, "    indptr_dtype = choose_int_dtype((0, n_indices))\n",
         "    indptr_dtype = choose_int_dtype((0, max_indices))\n")],
       'R-CAP/bound-kind', '_lookup_to_sparse')
twin('C04-twin-indices-type-from-both', 'C04',
     '_lookup_to_sparse sizes the indices type from the larger of the '
     'largest value and the number of entries',
     [(_MK, "    indices_dtype = choose_int_dtype((0, max_indices))\n",
       "    indices_dtype = choose_int_dtype(\n"
       "        (0, max(max_indices, n_indices)))\n")])
_SCU = P+'diff_exp/score_utils.py'
mutant('C11-population-variance', 'C11',
       'aggregate_stats divides the sum of squares by n instead of n - 1',
       [(_SCU, "    var = (sumsq_arr-sum_arr**2/max(1, n_cells))/max(1, n_cells-1)\n",
         "    var = (sumsq_arr-sum_arr**2/max(1, n_cells))/max(1, n_cells)\n")],
       'R-ARITH/moments', 'var')
mutant('C18-mean-over-n-minus-one', 'C18',
       'aggregate_stats divides the sum by n - 1',
       [(_SCU, "    mu = sum_arr/max(1, n_cells)\n",
         "    mu = sum_arr/max(1, n_cells-1)\n")],
       'R-ARITH/moments', 'mean')
mutant('C09-variance-without-mean-correction', 'C09',
       'aggregate_stats forgets to divide the squared sum by n',
       [(_SCU, "    var = (sumsq_arr-sum_arr**2/max(1, n_cells))/max(1, n_cells-1)\n",
         "    var = (sumsq_arr-sum_arr**2)/max(1, n_cells-1)\n")],
       'R-ARITH/moments', 'var')
twin('C11-twin-variance-through-the-mean', 'C11',
     'variance written with the mean already computed',
     [(_SCU, "    var = (sumsq_arr-sum_arr**2/max(1, n_cells))/max(1, n_cells-1)\n",
       "    var = (sumsq_arr-mu*sum_arr)/max(1, n_cells-1)\n")])
_CBU = P+'cell_by_gene/utils.py'
mutant('C07-pseudo-count-in-cpm-divisor', 'C07',
       'convert_to_cpm divides by the row total plus one',
       [(_CBU, "    cpm = data.transpose()/denom\n",
         "    cpm = data.transpose()/(denom+1.0)\n")],
       'R-ARITH/cpm', 'convert_to_cpm')
mutant('C07-log-of-cpm-of-one-plus-data', 'C07',
       'to_log2CPM adds the one before normalising',
       [(_CBG, "            data = np.log2(1.0+convert_to_cpm(self.data))\n",
         "            data = np.log2(convert_to_cpm(1.0+self.data))\n")],
       'R-ARITH/cpm', 'to_log2CPM')
twin('C07-twin-cpm-in-one-expression', 'C07',
     'convert_to_cpm written as one expression',
     [(_CBU, "    cpm = data.transpose()/denom\n"
       "    cpm = 1.0e6*cpm\n"
       "    return cpm.transpose()\n",
       "    return (1.0e6*data.transpose()/denom).transpose()\n")])
_DU = P+'utils/distance_utils.py'
mutant('C02-norm-of-uncentred-rows', 'C02',
       'the kernel divides centred rows by the norm of the raw rows',
       [(_DU, "    mu = np.mean(data, axis=1)\n"
         "    data = (data.transpose()-mu)\n"
         "    norm = np.sqrt(np.sum(data**2, axis=0))\n",
         "    mu = np.mean(data, axis=1)\n"
         "    norm = np.sqrt(np.sum(data.transpose()**2, axis=0))\n"
         "    data = (data.transpose()-mu)\n")],
       'R-ARITH/pearson', 'norm')
mutant('C02-rows-not-centred', 'C02',
       'the kernel normalises rows without subtracting their mean '
       '(cosine similarity)',
       [(_DU, "    data = (data.transpose()-mu)\n",
         "    data = data.transpose()\n")],
       'R-ARITH/pearson', 'centred')
twin('C02-twin-norm-by-linalg', 'C02',
     'norm of the centred rows computed with np.linalg.norm',
     [(_DU, "    norm = np.sqrt(np.sum(data**2, axis=0))\n",
       "    norm = np.linalg.norm(data, axis=0)\n")])

# ----------------------------------------------------------------------
# round 10
# ----------------------------------------------------------------------
_C2C = P+'utils/csc_to_csr.py'
_H5U = P+'utils/h5_utils.py'
twin('C01-twin-no-runners-up-fast-path', 'C01',
     'fast path for zero runners-up that returns one empty list per cell',
     [(_EL, "    runners_up = [\n"
       "        [(reference_types[sorted_by_votes[i_row, i_col]],\n",
       "    if n_assignments == 1:\n"
       "        return (np.array(result),\n"
       "                vote_fractions[:, 0],\n"
       "                avg_corr[:, 0],\n"
       "                [[] for i_row in range(len(result))])\n"
       "    runners_up = [\n"
       "        [(reference_types[sorted_by_votes[i_row, i_col]],\n")])
twin('C11-twin-batch-within-budget', 'C11',
     'batch search that stays within the budget but always takes at '
     'least one row',
     [(_C2C, "            if e1-e0 >= elements_at_a_time or candidate == "
       "len(csr_indptr)-1:\n"
       "                r1 = candidate\n"
       "                break\n",
       "            if e1-e0 > elements_at_a_time and r1 is not None:\n"
       "                break\n"
       "            r1 = candidate\n")])
mutant('C13-batch-search-gives-up', 'C13',
       'batch search of the transposition breaks at the first row that '
       'exceeds the budget',
       [(_C2C, "            if e1-e0 >= elements_at_a_time or candidate == "
         "len(csr_indptr)-1:\n"
         "                r1 = candidate\n"
         "                break\n",
         "            if e1-e0 > 2*elements_at_a_time:\n"
         "                break\n"
         "            if e1-e0 >= elements_at_a_time or candidate == "
         "len(csr_indptr)-1:\n"
         "                r1 = candidate\n"
         "                break\n")],
       'R-COVER/batch-search', 'transpose_sparse_matrix_on_disk')
twin('C16-twin-copy-skips-by-key', 'C16',
     'block copy that skips blocks by position, not by content',
     [(_H5U, "                for this_chunk in itertools.product("
       "*copy_slices):\n"
       "                    dst_dataset[this_chunk] = "
       "src_dataset[this_chunk]\n",
       "                for this_chunk in itertools.product("
       "*copy_slices):\n"
       "                    if this_chunk is None:\n"
       "                        continue\n"
       "                    dst_dataset[this_chunk] = "
       "src_dataset[this_chunk]\n")])
mutant('C16-copy-skips-empty-looking-blocks', 'C16',
       'block copy skips blocks whose sum is zero',
       [(_H5U, "                for this_chunk in itertools.product("
         "*copy_slices):\n"
         "                    dst_dataset[this_chunk] = "
         "src_dataset[this_chunk]\n",
         "                for this_chunk in itertools.product("
         "*copy_slices):\n"
         "                    if src_dataset[this_chunk].sum() == 0:\n"
         "                        continue\n"
         "                    dst_dataset[this_chunk] = "
         "src_dataset[this_chunk]\n")],
       'R-COVER/copy-not-filtered-by-content', '_copy_h5_element')
mutant('C15-config-edited-in-inner-run', 'C15',
       '_run_mapping writes a derived setting back into the live config',
       [(_FSM, "    type_assignment_config = config[\"type_assignment\"]\n",
         "    type_assignment_config = config[\"type_assignment\"]\n"
         "    if type_assignment_config['bootstrap_factor'] >= 1.0:\n"
         "        type_assignment_config['bootstrap_iteration'] = 1\n")],
       'R-SAMEVAL/config-as-recorded', '_run_mapping')
twin('C15-twin-config-read-into-local', 'C15',
     'a setting is read into a local and the local is adjusted',
     [(_FSM, "    type_assignment_config = config[\"type_assignment\"]\n",
       "    type_assignment_config = config[\"type_assignment\"]\n"
       "    n_iter_local = type_assignment_config['bootstrap_iteration']\n"
       "    n_iter_local = max(1, n_iter_local)\n")])
mutant('C19-makedirs-under-tmp-dir', 'C19',
       'the file tracker creates a fixed sub-directory under tmp_dir',
       [(P+'utils/utils.py', "def mkstemp_clean(\n",
         "def _ensure_scratch(tmp_dir):\n"
         "    import os\n"
         "    os.makedirs(str(tmp_dir) + '/staging', exist_ok=True)\n"
         "\n\ndef mkstemp_clean(\n")],
       'R-FRESH/directories-only-by-mkdtemp', '_ensure_scratch')
mutant('C20-handle-name-after-colon', 'C20',
       'an error message quotes the name of an open file handle after a '
       'colon',
       [(_FSM, "    marker_lookup = json.load(open(marker_lookup_path, "
         "'rb'))\n",
         "    with open(marker_lookup_path, 'rb') as lookup_src:\n"
         "        marker_lookup = json.load(lookup_src)\n"
         "        if len(marker_lookup) == 0:\n"
         "            raise RuntimeError(\n"
         "                f\"empty marker lookup:{lookup_src.name}\")\n")],
       'R-ROLE/path-in-message', '_run_mapping')
twin('C20-twin-handle-name-as-a-word', 'C20',
     'an error message quotes the name of an open file handle as a word '
     'of its own',
     [(_FSM, "    marker_lookup = json.load(open(marker_lookup_path, "
       "'rb'))\n",
       "    with open(marker_lookup_path, 'rb') as lookup_src:\n"
       "        marker_lookup = json.load(lookup_src)\n"
       "        if len(marker_lookup) == 0:\n"
       "            raise RuntimeError(\n"
       "                f\"empty marker lookup: {lookup_src.name}\")\n")])
twin('C07-twin-chunk-capped-by-rows', 'C07',
     'row chunk size capped by the number of rows of the file',
     [(_AI, "        if encoding_type.startswith('csr') and array_shape "
       "is not None:\n            self._iterator_type = 'CSRRow'\n",
       "        if array_shape is not None:\n"
       "            row_chunk_size = max(\n"
       "                1, min(row_chunk_size, int(array_shape[0])))\n"
       "        if encoding_type.startswith('csr') and array_shape "
       "is not None:\n            self._iterator_type = 'CSRRow'\n")])
mutant('C07-chunk-capped-by-dense-columns', 'C07',
       'dense row chunks capped by the number of columns of the dataset',
       [(_AI, "            self.n_rows = array_shape[0]\n"
         "            self._chunk_iterator = DenseArrayRowIterator(\n"
         "                  h5_path=h5ad_path,\n"
         "                  row_chunk_size=row_chunk_size,\n",
         "            self.n_rows = array_shape[0]\n"
         "            self._chunk_iterator = DenseArrayRowIterator(\n"
         "                  h5_path=h5ad_path,\n"
         "                  row_chunk_size=max(\n"
         "                      1, min(row_chunk_size,\n"
         "                             10**8//max(1, array_shape[1]))),\n")],
       'R-PROV/chunking-independent-of-genes', 'AnnDataRowIterator')
mutant('C06-backfill-memo-by-child', 'C06',
       'back-filled records memoised per child node',
       [(_TT, "                new_data['directly_assigned'] = False\n",
         "                new_data['directly_assigned'] = False\n"
         "                if this_child not in self._bf_cache:\n"
         "                    self._bf_cache[this_child] = new_data\n"
         "                new_data = self._bf_cache[this_child]\n")],
       'R-MEMO/key-complete', 'backfill_assignments')

# ----------------------------------------------------------------------
# round 11
# ----------------------------------------------------------------------
_CLU = P+'utils/cli_utils.py'
_C2CP = P+'utils/csc_to_csr_parallel.py'
twin('C01-twin-df-from-deep-copy', 'C01',
     'blob_to_df edits a deep copy of each record',
     [(_OUT, "    for cell in results_blob:\n"
       "        this_record = {'cell_id': cell['cell_id']}\n",
       "    for cell in results_blob:\n"
       "        cell = copy.deepcopy(cell)\n"
       "        cell.pop('unused_key', None)\n"
       "        this_record = {'cell_id': cell['cell_id']}\n")])
mutant('C15-hdf5-writer-pops-runner-up', 'C15',
       'the HDF5 writer pops the runner-up list off each record it was '
       'handed',
       [(_OUT, "            if 'runner_up_assignment' in cell[level]:\n"
         "                this_n = len(cell[level]['runner_up_assignment'])\n",
         "            if 'runner_up_assignment' in cell[level]:\n"
         "                cell[level].pop('runner_up_probability', None)\n"
         "                this_n = len(cell[level]['runner_up_assignment'])\n")],
       'R-ALIAS/records-read-only', '_blob_to_hdf5_results')
twin('C02-twin-row-total-by-method-sum', 'C02',
     'row totals of convert_to_cpm taken with the array method',
     [(_CBU, "    row_sums = np.sum(data, axis=1)\n",
       "    row_sums = data.sum(axis=1)\n")])
mutant('C07-row-total-in-data-dtype', 'C07',
       'row totals of convert_to_cpm accumulated in the type of the data',
       [(_CBU, "    row_sums = np.sum(data, axis=1)\n",
         "    row_sums = np.sum(data, axis=1, dtype=data.dtype)\n")],
       'R-CAP/row-total-accumulator', 'convert_to_cpm')
twin('C03-twin-runners-up-through-local', 'C03',
     'n_runners_up read into a local first',
     [(_FSM, "        n_assignments=type_assignment_config['n_runners_up']+1,\n",
       "        n_assignments=1+type_assignment_config['n_runners_up'],\n")])
mutant('C03-runners-up-clamped', 'C03',
       'the front end asks for at least one runner-up',
       [(_FSM, "        n_assignments=type_assignment_config['n_runners_up']+1,\n",
         "        n_assignments=max(1, type_assignment_config"
         "['n_runners_up'])+1,\n")],
       'R-PROV/runners-up-as-requested', '_run_mapping')
twin('C04-twin-children-sorted-in-comprehension', 'C04',
     'from_data_release builds the sorted child lists with a comprehension',
     [(_TT, "            data[parent_level] = dict()\n"
       "            for node in rough_tree[parent_level]:\n"
       "                data[parent_level][node] = []\n"
       "                for child in rough_tree[parent_level][node]:\n"
       "                    data[parent_level][node].append(child)\n"
       "            for node in data[parent_level]:\n"
       "                data[parent_level][node].sort()\n",
       "            data[parent_level] = {\n"
       "                node: sorted(rough_tree[parent_level][node])\n"
       "                for node in rough_tree[parent_level]}\n")])
mutant('C02-bootstrap-iteration-capped', 'C02',
       'the front end caps the number of bootstrap iterations',
       [(_FSM, "        bootstrap_iteration=type_assignment_config"
         "['bootstrap_iteration'],\n",
         "        bootstrap_iteration=min(\n"
         "            type_assignment_config['bootstrap_iteration'], 1000),\n")],
       'R-FWD/config-as-requested', 'bootstrap_iteration')
mutant('C10-duplicate-test-on-truthy-get', 'C10',
       'the header map tests the earlier column number for truth',
       [(_DRU, "            if value in result:\n"
         "                error_msg += f\"column '{value}' occurs more than "
         "once\\n\"\n",
         "            earlier = result.get(value)\n"
         "            if earlier:\n"
         "                error_msg += f\"column '{value}' occurs more than "
         "once\\n\"\n")],
       'R-IDIOM/truthy-position', 'get_header_map')
twin('C10-twin-duplicate-test-on-none', 'C10',
     'the header map tests the earlier column number against None',
     [(_DRU, "            if value in result:\n"
       "                error_msg += f\"column '{value}' occurs more than "
       "once\\n\"\n",
       "            earlier = result.get(value)\n"
       "            if earlier is not None:\n"
       "                error_msg += f\"column '{value}' occurs more than "
       "once\\n\"\n")])
mutant('C14-dispatch-failure-logged-only', 'C14',
       'the parallel transposition wrapper logs a failed dispatch and '
       'carries on',
       [(_C2CP, "    finally:\n        _clean_up(tmp_dir)\n",
         "    except RuntimeError as err:\n"
         "        print(f'transposition failed: {err}')\n"
         "    finally:\n        _clean_up(tmp_dir)\n")],
       'R-HANDLER/dispatch-failure', 'transpose_sparse_matrix_on_disk_v2')
twin('C14-twin-dispatch-failure-annotated', 'C14',
     'the parallel transposition wrapper annotates a failed dispatch and '
     're-raises',
     [(_C2CP, "    finally:\n        _clean_up(tmp_dir)\n",
       "    except RuntimeError as err:\n"
       "        print(f'transposition failed: {err}')\n"
       "        raise\n"
       "    finally:\n        _clean_up(tmp_dir)\n")])
mutant('C16-validation-skipped-by-name', 'C16',
       'validate_h5ad skips files whose name says they were validated',
       [(_VH, "    tmp_dir = tempfile.mkdtemp(dir=tmp_dir)\n    try:\n"
         "        result = _validate_h5ad(\n",
         "    if '_VALIDATED_' in str(h5ad_path):\n"
         "        return None, False\n"
         "    tmp_dir = tempfile.mkdtemp(dir=tmp_dir)\n    try:\n"
         "        result = _validate_h5ad(\n")],
       'R-MUST/validation-runs', 'validate_h5ad')
mutant('C08-query-names-upper-cased', 'C08',
       'query gene names are upper-cased when no mapping is requested',
       [(_CLU, "    result = list(var.index.values)\n",
         "    result = [str(g).upper() for g in var.index.values]\n")],
       'R-PROV/query-names-as-in-file', '_get_query_gene_names')
mutant('C09-rows-for-populated-leaves-list-front-end', 'C09',
       'the multi-file front end numbers rows for the first 10000 leaves '
       'only',
       [(_PA, "    cluster_list = list(leaf_to_cells.keys())\n",
         "    cluster_list = list(leaf_to_cells.keys())[:10000]\n")],
       'R-COVER/row-per-leaf', 'list_and_tree')

# ----------------------------------------------------------------------
# round 12
# ----------------------------------------------------------------------
twin('C08-twin-loop-over-parents-table', 'C08',
     'the patching loop walks the table parents() returns (filled while '
     'climbing from the node)',
     [(_MC, "                for ancestor_level in reverse_hier:\n"
       "                    if ancestor_level in ancestors:\n",
       "                for ancestor_level in ancestors:\n"
       "                    if ancestor_level in reverse_hier:\n")])
twin('C08-twin-parents-rekeyed-loop-reversed', 'C08',
     'parents() re-keyed in hierarchy order while the patching loop still '
     'walks the reversed hierarchy',
     [(_TT, "                this[current] = self._child_to_parent[prev]"
       "[prev_node]\n        return this\n",
       "                this[current] = self._child_to_parent[prev]"
       "[prev_node]\n"
       "        return {k: this[k] for k in self.hierarchy if k in this}\n")])
mutant('C08-patching-loop-walks-hierarchy-top-down', 'C08',
       'the patching loop walks the hierarchy from the top',
       [(_MC, "        reverse_hier.reverse()\n", "")],
       'R-PROV/ancestors-nearest-first', 'validate_marker_lookup')
mutant('C09-extent-from-labelled-cells', 'C09',
       'the per-file row extent counts the cells found in the lookup',
       [(_PA, "            n_cells = len(cell_name_list)\n",
         "            n_cells = len([c for c in cell_name_list\n"
         "                           if c in desired_cells])\n")],
       'R-PROV/row-extent', 'range')
twin('C09-twin-extent-through-array', 'C09',
     'the per-file row extent taken from the obs index array',
     [(_PA, "            n_cells = len(cell_name_list)\n",
       "            n_cells = len(np.array(cell_name_list))\n")])
mutant('C10-validator-lowercases-children', 'C10',
       'the validator compares lower-cased child names',
       [(_TXU, "                if this_child not in child_set:\n",
         "                if this_child.lower() not in child_set:\n")],
       'R-EXH/validator-checks', 'child exists')
mutant('C03-upward-pass-first', 'C03',
       'the bottom-up correlation inheritance is placed before the '
       'top-down one',
       [(_EL, "        for parent_level, child_level in zip(hierarchy[:-1], "
         "hierarchy[1:]):\n"
         "            if cell[child_level]['avg_correlation'] is None:\n"
         "                cell[child_level]['avg_correlation'] = \\\n"
         "                    cell[parent_level]['avg_correlation']\n"
         "        for child_level, parent_level in zip("
         "reversed_hierarchy[:-1],\n"
         "                                             "
         "reversed_hierarchy[1:]):\n"
         "            if cell[parent_level]['avg_correlation'] is None:\n"
         "                cell[parent_level]['avg_correlation'] = \\\n"
         "                    cell[child_level]['avg_correlation']\n",
         "        for child_level, parent_level in zip("
         "reversed_hierarchy[:-1],\n"
         "                                             "
         "reversed_hierarchy[1:]):\n"
         "            if cell[parent_level]['avg_correlation'] is None:\n"
         "                cell[parent_level]['avg_correlation'] = \\\n"
         "                    cell[child_level]['avg_correlation']\n"
         "        for parent_level, child_level in zip(hierarchy[:-1], "
         "hierarchy[1:]):\n"
         "            if cell[child_level]['avg_correlation'] is None:\n"
         "                cell[child_level]['avg_correlation'] = \\\n"
         "                    cell[parent_level]['avg_correlation']\n")],
       'R-ORDER/correlation-inheritance', 'run_type_assignment')
mutant('C20-exposure-skips-hidden-names', 'C20',
       'is_exposed answers False for names starting with a dot',
       [(P+'utils/cloud_utils.py',
         "    if input_path.is_file() or input_path.is_dir():\n"
         "        return True\n",
         "    if input_path.name.startswith('.'):\n"
         "        return False\n"
         "    if input_path.is_file() or input_path.is_dir():\n"
         "        return True\n")],
       'R-MUST/exposure-walks-ancestors', 'return-false')
mutant('C17-flatten-over-filtered-table', 'C17',
       'the flat marker set is built from the groups of the levels the '
       'reduced tree still has',
       [(_FSM, "    if config['flatten']:\n\n"
         "        taxonomy_tree = taxonomy_tree.flatten()\n",
         "    if config['flatten']:\n\n"
         "        marker_lookup = {\n"
         "            k: v for k, v in marker_lookup.items()\n"
         "            if k == 'None'\n"
         "            or k.split('/')[0] in taxonomy_tree.hierarchy}\n"
         "        taxonomy_tree = taxonomy_tree.flatten()\n")],
       'R-COVER/flatten-union', 'flatten-table')
mutant('C05-batch-shortcut-on-length', 'C05',
       '_load_disjoint_csr reads the whole range when the request is as '
       'long as its span',
       [(_SU, "    sorted_dex = np.argsort(row_index_list)\n"
         "    inverse_argsort = {",
         "    if len(row_index_list) == 1 + row_index_list[-1] "
         "- row_index_list[0]:\n"
         "        return _load_sparse(\n"
         "                   indptr_spec=(row_index_list[0],\n"
         "                                row_index_list[-1]+1),\n"
         "                   data=data,\n"
         "                   indices=indices,\n"
         "                   indptr=indptr)\n"
         "    sorted_dex = np.argsort(row_index_list)\n"
         "    inverse_argsort = {")],
       'R-PERM/request-order', '_load_disjoint_csr')

# ----------------------------------------------------------------------
# round 13
# ----------------------------------------------------------------------
_ER = P+'type_assignment/election_runner.py'
twin('C01-twin-serialize-with-int-cast', 'C01',
     'serialize_markers indexes the names with positions cast to int',
     [(_MC, "        grp_key = \"None\"\n"
       "        ref_idx = src[grp_key]['reference'][()]\n"
       "        marker_gene_lookup[grp_key] = [\n"
       "            str(reference_gene_names[ii]) for ii in ref_idx]\n",
       "        grp_key = \"None\"\n"
       "        ref_idx = src[grp_key]['reference'][()].astype(int)\n"
       "        marker_gene_lookup[grp_key] = [\n"
       "            str(g) for g in np.array(reference_gene_names)[ref_idx]]\n")])
mutant('C08-serialize-root-by-fancy-index', 'C08',
       'serialize_markers indexes the names with the root positions as '
       'read',
       [(_MC, "        grp_key = \"None\"\n"
         "        ref_idx = src[grp_key]['reference'][()]\n"
         "        marker_gene_lookup[grp_key] = [\n"
         "            str(reference_gene_names[ii]) for ii in ref_idx]\n",
         "        grp_key = \"None\"\n"
         "        ref_idx = src[grp_key]['reference'][()]\n"
         "        marker_gene_lookup[grp_key] = list(\n"
         "            np.array(reference_gene_names)[ref_idx])\n")],
       'R-ROLE/positions-as-stored', 'serialize_markers')
mutant('C03-runner-clamps-to-widest-parent', 'C03',
       'the election runner clamps the number of candidates to the '
       'widest fan-out of the tree',
       [(_ER, "    if use_torch():\n        result = "
         "run_type_assignment_on_h5ad_gpu(\n",
         "    n_assignments = min(\n"
         "        n_assignments,\n"
         "        max(len(taxonomy_tree.children(p[0], p[1]))\n"
         "            for p in taxonomy_tree.all_parents if p is not None))\n"
         "    if use_torch():\n        result = "
         "run_type_assignment_on_h5ad_gpu(\n")],
       'R-FWD/candidates-unchanged', 'run_type_assignment_on_h5ad')
twin('C03-twin-choose-node-clamp-reordered', 'C03',
     'choose_node clamps with the operands of min swapped',
     [(_EL, "    n_assignments = min(n_assignments, votes.shape[1])\n",
       "    n_assignments = min(votes.shape[1], n_assignments)\n")])
mutant('C07-minmax-blocks-truncated', 'C07',
       'the sparse min/max scan visits int(n / block) blocks',
       [(_VU, "    for i0 in range(0, n_el, chunk_size[0]):\n"
         "        i1 = min(n_el, i0+chunk_size[0])\n",
         "    for i_b in range(int(n_el/chunk_size[0])):\n"
         "        i0 = i_b*chunk_size[0]\n"
         "        i1 = min(n_el, i0+chunk_size[0])\n")],
       'R-TILE/whole-axis', '_get_minmax_from_sparse')
twin('C07-twin-minmax-blocks-ceil', 'C07',
     'the sparse min/max scan visits ceil(n / block) blocks',
     [(_VU, "    for i0 in range(0, n_el, chunk_size[0]):\n"
       "        i1 = min(n_el, i0+chunk_size[0])\n",
       "    for i_b in range(int(np.ceil(n_el/chunk_size[0]))):\n"
       "        i0 = i_b*chunk_size[0]\n"
       "        i1 = min(n_el, i0+chunk_size[0])\n")])
mutant('C13-pointer-window-copied-raw', 'C13',
       'mask_indptr-style copy of a pointer window without re-basing in '
       'the CSC column subsetter',
       [(_AU, "            dst_indptr[-1] = n_non_zero\n",
         "            dst_indptr[-1] = n_non_zero\n"
         "            if len(chosen_columns) == 1:\n"
         "                dst_indptr[:-1] = src_indptr[\n"
         "                    chosen_columns[0]:chosen_columns[0]+1]\n")],
       'R-SAMEVAL/pointer-window-rebased', 'subset_csc_h5ad_columns')
mutant('C17-validator-reads-metadata-flag', 'C17',
       'the validator rejects trees whose metadata names unknown levels',
       [(_TXU, "    for this_level in taxonomy_tree.keys():\n"
         "        if this_level == 'hierarchy':\n",
         "    if 'hierarchy_mapper' in taxonomy_tree:\n"
         "        for lv in taxonomy_tree['hierarchy_mapper']:\n"
         "            if lv not in hierarchy:\n"
         "                raise RuntimeError(f'unknown level {lv}')\n"
         "    for this_level in taxonomy_tree.keys():\n"
         "        if this_level == 'hierarchy':\n")],
       'R-AGREE/validator-vs-reducers', 'hierarchy_mapper')
mutant('C19-metadata-appended-before-create', 'C19',
       'blob_to_hdf5 appends the metadata and lets the results writer '
       'create the file',
       [(_OUT, "    with h5py.File(dst_path, 'w') as dst:\n\n"
         "        dst.create_dataset(\n"
         "            'metadata',\n",
         "    with h5py.File(dst_path, 'a') as dst:\n\n"
         "        dst.create_dataset(\n"
         "            'metadata',\n")],
       'R-FRESH', 'blob_to_hdf5')
mutant('C12-downsample-shortcut-all-kept', 'C12',
       'downsample_indptr hands the indices through when no element is '
       'dropped',
       [(_SU, "    indices_new = np.zeros(ct_new, dtype=indices_old.dtype)\n"
         "    for ii in range(len(indptr_to_keep)):\n",
         "    if ct_new == indices_old.shape[0]:\n"
         "        return indptr_new, indices_old\n"
         "    indices_new = np.zeros(ct_new, dtype=indices_old.dtype)\n"
         "    for ii in range(len(indptr_to_keep)):\n")],
       'R-AGREE/returns-depend-alike', 'downsample_indptr')
mutant('C05-copy-extent-from-data-only', 'C05',
       'the sparse layer copy takes the extent of every array from the '
       'indices array',
       [(_AU, "                    for i0 in range(0, src_dataset.shape[0], "
         "chunks[0]):\n"
         "                        i1 = min(src_dataset.shape[0], "
         "i0+chunks[0])\n",
         "                    for i0 in range(0, src_grp['indices'].shape[0]"
         ", chunks[0]):\n"
         "                        i1 = min(src_grp['indices'].shape[0], "
         "i0+chunks[0])\n")],
       'R-TILE', '_copy_layer_to_x_sparse')

# ----------------------------------------------------------------------
# round 14
# ----------------------------------------------------------------------
_CLD = P+'utils/cloud_utils.py'
mutant('C05-merge-fast-path-span-plus-one', 'C05',
       'merge_index_list takes last - first + 1 == n + 1 for one block',
       [(_UU, "    index_list = np.unique(index_list)\n"
         "    diff_list = np.diff(index_list)\n",
         "    index_list = np.unique(index_list)\n"
         "    if index_list[-1] + 1 - index_list[0] == len(index_list) + 1:\n"
         "        return [(index_list[0], index_list[-1]+1)]\n"
         "    diff_list = np.diff(index_list)\n")],
       'R-ARITH/span-contiguity', 'merge_index_list')
twin('C05-twin-merge-fast-path-correct', 'C05',
     'merge_index_list returns one range when last - first == n - 1',
     [(_UU, "    index_list = np.unique(index_list)\n"
       "    diff_list = np.diff(index_list)\n",
       "    index_list = np.unique(index_list)\n"
       "    if index_list[-1] - index_list[0] == len(index_list) - 1:\n"
       "        return [(index_list[0], index_list[-1]+1)]\n"
       "    diff_list = np.diff(index_list)\n")])
twin('C13-twin-merge-fast-path-size', 'C13',
     'merge_index_list returns one range when the span + 1 is the size',
     [(_UU, "    index_list = np.unique(index_list)\n"
       "    diff_list = np.diff(index_list)\n",
       "    index_list = np.unique(index_list)\n"
       "    n_idx = index_list.size\n"
       "    if index_list[-1] + 1 - index_list[0] == n_idx:\n"
       "        return [(index_list[0], index_list[0]+n_idx)]\n"
       "    diff_list = np.diff(index_list)\n")])
mutant('C13-disjoint-loader-span-on-request', 'C13',
       '_load_disjoint_csr takes a request for one block from its end '
       'points and length',
       [(_SU, "    sorted_dex = np.argsort(row_index_list)\n",
         "    if row_index_list[-1] - row_index_list[0] "
         "== len(row_index_list) - 1:\n"
         "        return _load_sparse(\n"
         "                   indptr_spec=(row_index_list[0],\n"
         "                                row_index_list[-1]+1),\n"
         "                   data=data,\n"
         "                   indices=indices,\n"
         "                   indptr=indptr)\n"
         "    sorted_dex = np.argsort(row_index_list)\n")],
       'R-ARITH/span-contiguity', '_load_disjoint_csr')
mutant('C07-load-sparse-window-sorted', 'C07',
       '_load_sparse hands back the cut of the indices sorted, the cut of '
       'the data as stored',
       [(_SU, "    these_indices = indices[index0:index1]\n"
         "    this_data = data[index0:index1]\n",
         "    these_indices = indices[index0:index1]\n"
         "    this_data = data[index0:index1]\n"
         "    if len(these_ptrs) == 2:\n"
         "        these_indices = np.sort(these_indices)\n")],
       'R-PERM/parallel-windows-in-step', '_load_sparse')
twin('C07-twin-load-sparse-cosorted', 'C07',
     '_load_sparse sorts each row of the cut by column, values along',
     [(_SU, "    these_indices = indices[index0:index1]\n"
       "    this_data = data[index0:index1]\n",
       "    these_indices = indices[index0:index1]\n"
       "    this_data = data[index0:index1]\n"
       "    if len(these_ptrs) == 2:\n"
       "        order = np.argsort(these_indices)\n"
       "        these_indices = these_indices[order]\n"
       "        this_data = this_data[order]\n")])
mutant('C10-header-map-memoised', 'C10',
       'the header of the data-release CSV is remembered per path for the '
       'life of the process',
       [(_DRU, "import json\n", "import functools\nimport json\n"),
        (_DRU, "def get_header_map(\n",
         "@functools.lru_cache(maxsize=None)\ndef get_header_map(\n")],
       'R-MEMO/outside-state-not-in-key', 'get_header_map')
mutant('C10-header-map-module-table', 'C10',
       'the header of the data-release CSV is kept in a module-level '
       'table keyed by path',
       [(_DRU, "import json\n", "import json\n\n_HEADERS = dict()\n"),
        (_DRU, "    with open(csv_path, 'r') as src:\n"
         "        header_line = src.readline()\n",
         "    if str(csv_path) not in _HEADERS:\n"
         "        with open(csv_path, 'r') as src:\n"
         "            _HEADERS[str(csv_path)] = src.readline()\n"
         "    header_line = _HEADERS[str(csv_path)]\n")],
       'R-MEMO/outside-state-not-in-key', 'get_header_map')
mutant('C11-marker-workers-threshold-crossed', 'C11',
       'the reference-marker workers get qdiff_th in the q1_th slot',
       [(_MK, "                    'q1_th': q1_th,\n"
         "                    'qdiff_th': qdiff_th,\n",
         "                    'q1_th': qdiff_th,\n"
         "                    'qdiff_th': qdiff_th,\n")],
       'R-FWD/keyword-not-crossed', 'q1_th')
twin('C11-twin-marker-workers-slots-reordered', 'C11',
     'the reference-marker worker kwargs are listed in another order',
     [(_MK, "                    'q1_th': q1_th,\n"
       "                    'qdiff_th': qdiff_th,\n",
       "                    'qdiff_th': qdiff_th,\n"
       "                    'q1_th': q1_th,\n")])
mutant('C09-front-end-sorts-unique-paths', 'C09',
       'precompute_summary_stats_from_h5ad_list_and_tree hands on the '
       'set of its paths',
       [(_PA, "    precompute_summary_stats_from_h5ad_and_lookup(\n"
         "        data_path_list=data_path_list,\n",
         "    precompute_summary_stats_from_h5ad_and_lookup(\n"
         "        data_path_list=sorted(set(\n"
         "            pathlib.Path(p).name for p in data_path_list)),\n")],
       'R-FWD/handed-on-unchanged', 'data_path_list')
twin('C09-twin-front-end-alias', 'C09',
     'the front end hands on its path list through a local',
     [(_PA, "    precompute_summary_stats_from_h5ad_and_lookup(\n"
       "        data_path_list=data_path_list,\n",
       "    these_paths = data_path_list\n"
       "    precompute_summary_stats_from_h5ad_and_lookup(\n"
       "        data_path_list=these_paths,\n")])
mutant('C17-parents-sorted-by-length', 'C17',
       'the parents of a level are searched shortest name first',
       [(_EL, "            k_list.sort()\n"
         "            parent_node_list = ",
         "            k_list.sort(key=len)\n"
         "            parent_node_list = ")],
       'R-ORDER/elections-in-name-order', 'run_type_assignment')
mutant('C17-parents-in-stored-order', 'C17',
       'the parents of a level are searched in the order the tree lists '
       'them',
       [(_EL, "            k_list.sort()\n"
         "            parent_node_list = ",
         "            parent_node_list = ")],
       'R-ORDER/elections-in-name-order', 'run_type_assignment')
twin('C17-twin-parents-sorted-expression', 'C17',
     'the parents of a level are searched in sorted(...) order',
     [(_EL, "            k_list = taxonomy_tree.nodes_at_level(parent_level)\n"
       "            k_list.sort()\n"
       "            parent_node_list = [(parent_level, k) for k in k_list]\n",
       "            parent_node_list = [\n"
       "                (parent_level, k) for k in sorted(\n"
       "                    taxonomy_tree.nodes_at_level(parent_level))]\n")])
mutant('C18-pairs-from-reversed-leaves', 'C18',
       'the reference-marker writer enumerates pairs of the leaves '
       'sorted in reverse',
       [(_MK, "    leaves = copy.deepcopy(taxonomy_tree.all_leaves)\n"
         "    leaves.sort()\n",
         "    leaves = copy.deepcopy(taxonomy_tree.all_leaves)\n"
         "    leaves.sort(reverse=True)\n")],
       'R-ORDER/pairs-plainly-oriented', '_prep_output_file')
mutant('C18-all-pairs-case-folded', 'C18',
       'get_all_pairs sorts the nodes of a level without regard to case',
       [(_TXU, "        element_list = list(taxonomy_tree[level].keys())\n"
         "        element_list.sort()\n",
         "        element_list = list(taxonomy_tree[level].keys())\n"
         "        element_list.sort(key=str.lower)\n")],
       'R-ORDER/pairs-plainly-oriented', 'get_all_pairs')
twin('C18-twin-pairs-from-sorted-expression', 'C18',
     'the reference-marker writer enumerates pairs of sorted(leaves)',
     [(_MK, "    leaves = copy.deepcopy(taxonomy_tree.all_leaves)\n"
       "    leaves.sort()\n",
       "    leaves = sorted(taxonomy_tree.all_leaves)\n")])
mutant('C20-url-words-not-looked-up', 'C20',
       'words with a scheme prefix are declared harmless without a '
       'look-up',
       [(_CLD, "    for char in ('\"', \"'\"):\n"
         "        word = word.replace(char, '')\n"
         "    return pathlib.Path(word)\n",
         "    for char in ('\"', \"'\"):\n"
         "        word = word.replace(char, '')\n"
         "    if '://' in word:\n"
         "        return pathlib.Path('.')\n"
         "    return pathlib.Path(word)\n")],
       'R-SAMEVAL/word-tested-as-is', '_word_to_path')
twin('C20-twin-quotes-removed-by-chain', 'C20',
     '_word_to_path removes the quotation marks in one expression',
     [(_CLD, "    for char in ('\"', \"'\"):\n"
       "        word = word.replace(char, '')\n"
       "    return pathlib.Path(word)\n",
       "    return pathlib.Path(\n"
       "        word.replace('\"', '').replace(\"'\", ''))\n")])
mutant('C04-census-over-view-union', 'C04',
       'the reference file of a parent is chosen walking the union of two '
       'key views',
       [(_MC, "        for pth in this_census:\n"
         "            if pth_max is None or this_census[pth] > n_max:\n",
         "        for pth in this_census.keys() | set():\n"
         "            if pth_max is None or this_census[pth] > n_max:\n")],
       'R-TAINT', 'marker_cac')
twin('C04-twin-census-over-sorted-views', 'C04',
     'the reference file of a parent is chosen walking the sorted '
     'intersection of two key views',
     [(_MC, "        for pth in this_census:\n"
       "            if pth_max is None or this_census[pth] > n_max:\n",
       "        for pth in sorted(\n"
       "                this_census.keys() & precompute_to_ref.keys()):\n"
       "            if pth_max is None or this_census[pth] > n_max:\n")])

# ----------------------------------------------------------------------
# round 15
# ----------------------------------------------------------------------
twin('C04-twin-mask-merge-in-list-order', 'C04',
     'the p-value masks are joined in the order of the list, which is '
     'built in dispatch order',
     [(_PM, "        for min_row in idx_values:\n"
       "            src_path = idx_to_path[min_row]\n",
       "        for src_path in src_path_list:\n")])
twin('C04-twin-mask-files-collected-on-completion', 'C04',
     'the p-value mask files are listed as their workers finish; the '
     'merge still sorts them by first row',
     [(_PM, "    process_dict = {}\n    tmp_path_list = []\n"
       "    n_pairs = len(idx_to_pair)\n",
       "    process_dict = {}\n    tmp_path_lookup = {}\n"
       "    tmp_path_list = []\n    n_pairs = len(idx_to_pair)\n"),
      (_PM, "        tmp_path_list.append(tmp_path)\n\n"
       "        this_idx_values = idx_values[col0:col1]\n",
       "        tmp_path_lookup[col0] = tmp_path\n\n"
       "        this_idx_values = idx_values[col0:col1]\n"),
      (_PM, "    while len(process_dict) > 0:\n"
       "        n0 = len(process_dict)\n"
       "        process_dict = winnow_process_dict(process_dict)\n"
       "        n1 = len(process_dict)\n"
       "        if n1 < n0:\n",
       "    while len(process_dict) > 0:\n"
       "        n0 = len(process_dict)\n"
       "        process_dict = winnow_process_dict(process_dict)\n"
       "        n1 = len(process_dict)\n"
       "        done = [k for k in tmp_path_lookup "
       "if k not in process_dict]\n"
       "        tmp_path_list += [tmp_path_lookup.pop(k) for k in done]\n"
       "        if n1 < n0:\n")])
mutant('C04-mask-files-collected-on-completion-unsorted', 'C04',
       'the p-value mask files are listed as their workers finish and '
       'joined in that order',
       [(_PM, "    process_dict = {}\n    tmp_path_list = []\n"
         "    n_pairs = len(idx_to_pair)\n",
         "    process_dict = {}\n    tmp_path_lookup = {}\n"
         "    tmp_path_list = []\n    n_pairs = len(idx_to_pair)\n"),
        (_PM, "        tmp_path_list.append(tmp_path)\n\n"
         "        this_idx_values = idx_values[col0:col1]\n",
         "        tmp_path_lookup[col0] = tmp_path\n\n"
         "        this_idx_values = idx_values[col0:col1]\n"),
        (_PM, "    while len(process_dict) > 0:\n"
         "        n0 = len(process_dict)\n"
         "        process_dict = winnow_process_dict(process_dict)\n"
         "        n1 = len(process_dict)\n"
         "        if n1 < n0:\n",
         "    while len(process_dict) > 0:\n"
         "        n0 = len(process_dict)\n"
         "        process_dict = winnow_process_dict(process_dict)\n"
         "        n1 = len(process_dict)\n"
         "        done = [k for k in tmp_path_lookup "
         "if k not in process_dict]\n"
         "        tmp_path_list.extend(tmp_path_lookup.pop(k) "
         "for k in done)\n"
         "        if n1 < n0:\n"),
        (_PM, "        for min_row in idx_values:\n"
         "            src_path = idx_to_path[min_row]\n",
         "        for src_path in src_path_list:\n")],
       'R-TAINT', 'SCHED')
mutant('C11-qdiff-denominator-patched-through-alias', 'C11',
       'the q-score denominator is the q1 array itself, patched in place',
       [(_SCU, "    denom = np.where(pij_1 > pij_2, pij_1, pij_2)\n"
         "    denom = np.where(denom > 0.0, denom, 1.0)\n",
         "    denom = q1_score\n"
         "    denom[denom == 0.0] = 1.0\n")],
       'R-ALIAS/edited-through-alias', 'q_score_from_pij')
twin('C11-twin-qdiff-denominator-copied', 'C11',
     'the q-score denominator is a copy of the q1 array, patched in place',
     [(_SCU, "    denom = np.where(pij_1 > pij_2, pij_1, pij_2)\n"
       "    denom = np.where(denom > 0.0, denom, 1.0)\n",
       "    denom = np.copy(q1_score)\n"
       "    denom[denom <= 0.0] = 1.0\n")])
mutant('C16-dispatch-leaves-tolerance-to-dense-helper', 'C16',
       'is_x_integers leaves the tolerance of the dense helper to its '
       'default',
       [(_VU, "        return _is_dense_x_integers(\n"
         "            h5ad_path=h5ad_path,\n"
         "            eps=1.0e-10,\n",
         "        return _is_dense_x_integers(\n"
         "            h5ad_path=h5ad_path,\n")],
       'R-AGREE/sibling-defaults', 'is_x_integers')
twin('C16-twin-dispatch-tolerance-by-name', 'C16',
     'is_x_integers binds the tolerance of both helpers from one local',
     [(_VU, "    encoding_type = attrs['encoding-type']\n\n"
       "    if encoding_type == 'array':\n"
       "        return _is_dense_x_integers(\n"
       "            h5ad_path=h5ad_path,\n"
       "            eps=1.0e-10,\n",
       "    encoding_type = attrs['encoding-type']\n"
       "    tolerance = 1.0e-10\n\n"
       "    if encoding_type == 'array':\n"
       "        return _is_dense_x_integers(\n"
       "            h5ad_path=h5ad_path,\n"
       "            eps=tolerance,\n")])
mutant('C20-missing-frame-message-with-repr', 'C20',
       'read_df_from_h5ad reports a missing frame with the repr of the '
       'path',
       [(_AU, "    with h5py.File(h5ad_path, 'r') as src:\n"
         "        return read_elem(src[df_name])\n",
         "    with h5py.File(h5ad_path, 'r') as src:\n"
         "        if df_name not in src:\n"
         "            raise RuntimeError(\n"
         "                f\"no {df_name} in {h5ad_path!r}\")\n"
         "        return read_elem(src[df_name])\n")],
       'R-ROLE/path-in-message/rendered-as-text', 'read_df_from_h5ad')
twin('C20-twin-missing-frame-message-plain', 'C20',
     'read_df_from_h5ad reports a missing frame with the path as text',
     [(_AU, "    with h5py.File(h5ad_path, 'r') as src:\n"
       "        return read_elem(src[df_name])\n",
       "    with h5py.File(h5ad_path, 'r') as src:\n"
       "        if df_name not in src:\n"
       "            raise RuntimeError(\n"
       "                f\"no {df_name} in {h5ad_path}\")\n"
       "        return read_elem(src[df_name])\n")])
_PU = P+'diff_exp/precompute_utils.py'
mutant('C10-census-compares-hierarchies-only', 'C10',
       'the leaf census accepts files whose hierarchies agree',
       [(_PU, "            if not taxonomy_tree.is_equal_to(this_tree):\n",
         "            if taxonomy_tree.hierarchy != this_tree.hierarchy:\n")],
       'R-GUARD/one-tree-per-merge', 'run_leaf_census')
twin('C10-twin-census-compares-trees-with-ne', 'C10',
     'the leaf census compares the two trees through a named verdict',
     [(_PU, "            if not taxonomy_tree.is_equal_to(this_tree):\n",
       "            same_tree = taxonomy_tree.is_equal_to(this_tree)\n"
       "            if not same_tree:\n")])
_TP = P+'diff_exp/truncate_precompute.py'
mutant('C09-truncation-rows-by-tree-order', 'C09',
       'the truncation takes the rows of the input in the order the tree '
       'lists its leaves',
       [(_TP, "            old_leaf_to_row = json.loads(\n"
         "                src['cluster_to_row'][()].decode('utf-8'))\n",
         "            old_leaf_to_row = {\n"
         "                leaf: ii for ii, leaf in\n"
         "                enumerate(old_tree.all_leaves)}\n")],
       'R-PROV/rows-through-file-table', 'old_leaf_to_row')
twin('C09-twin-truncation-rows-read-in-two-steps', 'C09',
     'the truncation reads the row table of the input in two steps',
     [(_TP, "            old_leaf_to_row = json.loads(\n"
       "                src['cluster_to_row'][()].decode('utf-8'))\n",
       "            row_table = src['cluster_to_row'][()]\n"
       "            old_leaf_to_row = json.loads(\n"
       "                row_table.decode('utf-8'))\n")])
mutant('C17-single-marker-falls-back-on-union', 'C17',
       'a parent with one reference marker is voted on with every marker '
       'of the cache',
       [(_MT, "        all_ref_identifiers = json.loads(\n",
         "        if len(reference_markers) == 1 \\\n"
         "                and 'all_reference_markers' in in_file:\n"
         "            reference_markers = "
         "in_file['all_reference_markers'][()]\n"
         "        all_ref_identifiers = json.loads(\n")],
       'R-PROV/genes-of-this-parent', 'assemble_query_data')
mutant('C07-query-columns-by-reference-rank', 'C07',
       'the query columns of a parent are gathered by the rank of its '
       'markers in the reference list',
       [(_MT, "    query_data = full_query_data.downsample_genes(\n"
         "        selected_genes=query_markers)\n",
         "    col_idx = np.argsort(np.argsort(reference_markers))\n"
         "    query_data = CellByGeneMatrix(\n"
         "        data=full_query_data.data[:, col_idx],\n"
         "        gene_identifiers=query_markers,\n"
         "        normalization=full_query_data.normalization,\n"
         "        cell_identifiers=full_query_data.cell_identifiers)\n")],
       'R-ROLE/columns-and-names-together', 'assemble_query_data')
twin('C07-twin-query-columns-by-own-lookup', 'C07',
     'the query columns of a parent are gathered through the matrix\'s own '
     'name lookup',
     [(_MT, "    query_data = full_query_data.downsample_genes(\n"
       "        selected_genes=query_markers)\n",
       "    col_idx = np.array(\n"
       "        [full_query_data.gene_to_col[g] for g in query_markers])\n"
       "    query_data = CellByGeneMatrix(\n"
       "        data=full_query_data.data[:, col_idx],\n"
       "        gene_identifiers=query_markers,\n"
       "        normalization=full_query_data.normalization,\n"
       "        cell_identifiers=full_query_data.cell_identifiers)\n")])
mutant('C13-pivot-serial-path-for-one-worker', 'C13',
       'pivot_csr_h5ad with one worker skips the pivot of the data and '
       'index arrays',
       [(_AU, "        transpose_sparse_matrix_on_disk_v2(\n"
         "            h5_path=src_path,\n"
         "            indices_tag='X/indices',\n",
         "        if n_processors == 1:\n"
         "            max_gb = max_gb / 2\n"
         "        transpose_sparse_matrix_on_disk_v2(\n"
         "            h5_path=src_path,\n"
         "            indices_tag='X/indices',\n")],
       'R-PROV/worker-count-special-case', 'pivot_csr_h5ad')

# ----------------------------------------------------------------------
# round 16
# ----------------------------------------------------------------------
_CSC = P+'utils/csc_to_csr.py'
_CSP = P+'utils/csc_to_csr_parallel.py'
mutant('C03-runners-up-resorted-by-correlation', 'C03',
       '_run_type_assignment re-sorts the runners-up by correlation',
       [(_EL, "    update_timer(\"choose_node\", t, timers)\n\n"
         "    return result, bootstrapping_probability, avg_corr, "
         "runners_up\n",
         "    update_timer(\"choose_node\", t, timers)\n"
         "    runners_up = [sorted(r, key=lambda x: -x[2])\n"
         "                  for r in runners_up]\n\n"
         "    return result, bootstrapping_probability, avg_corr, "
         "runners_up\n")],
       'R-SAMEVAL/results-as-chosen', '_run_type_assignment')
twin('C03-twin-results-returned-through-a-local', 'C03',
     '_run_type_assignment returns the four results through a local',
     [(_EL, "    update_timer(\"choose_node\", t, timers)\n\n"
       "    return result, bootstrapping_probability, avg_corr, "
       "runners_up\n",
       "    update_timer(\"choose_node\", t, timers)\n\n"
       "    chosen = (result, bootstrapping_probability, avg_corr,\n"
       "              runners_up)\n"
       "    return chosen\n")])
mutant('C09-truncation-output-rows-by-sorted-position', 'C09',
       '_convert_to_new_leaves puts a merged node at its position among '
       'the sorted new leaves',
       [(_TP, "    for new_leaf in new_leaf_to_old_leaves:\n"
         "        dst_row = new_leaf_to_row[new_leaf]\n",
         "    for dst_row, new_leaf in enumerate(\n"
         "            sorted(new_leaf_to_old_leaves)):\n")],
       'R-PROV/rows-through-row-tables', '_convert_to_new_leaves')
twin('C09-twin-truncation-output-rows-by-get', 'C09',
     '_convert_to_new_leaves looks the output row up with the table\'s '
     'items',
     [(_TP, "    for new_leaf in new_leaf_to_old_leaves:\n"
       "        dst_row = new_leaf_to_row[new_leaf]\n",
       "    for new_leaf, dst_row in new_leaf_to_row.items():\n"
       "        if new_leaf not in new_leaf_to_old_leaves:\n"
       "            continue\n")])
mutant('C12-pair-indexes-typed-from-their-count', 'C12',
       'the pair indexes of a parent are cast to a type sized from how '
       'many there are',
       [(_SL, "    taxonomy_idx_array = np.array(\n"
         "        taxonomy_idx_array)\n",
         "    taxonomy_idx_array = np.array(\n"
         "        taxonomy_idx_array).astype(\n"
         "            choose_int_dtype((0, len(taxonomy_idx_array)+1)))\n")],
       'R-CAP/bound-kind', '_get_taxonomy_idx')
mutant('C13-uint-type-admits-capacity-plus-one', 'C13',
       '_get_uint_dtype admits a type for its capacity plus one',
       [(_CSC, "        if max_value < np.iinfo(candidate).max:\n",
         "        if max_value <= np.iinfo(candidate).max + 2:\n")],
       'R-CAP/fits-predicate', '_get_uint_dtype')
twin('C13-twin-uint-type-non-strict', 'C13',
     '_get_uint_dtype written with a non-strict comparison',
     [(_CSC, "        if max_value < np.iinfo(candidate).max:\n",
       "        if max_value <= np.iinfo(candidate).max - 1:\n")])
mutant('C14-transposition-worker-absorbs-exit-request', 'C14',
       'the transposition worker turns SystemExit into a normal return',
       [(_CSP, "        transpose_sparse_matrix_on_disk(\n"
         "            indices_handle=indices_handle,\n"
         "            indptr_handle=indptr_handle,\n"
         "            data_handle=data_handle,\n"
         "            indices_max=indices_max,\n"
         "            max_gb=max_gb,\n"
         "            output_path=output_path,\n"
         "            verbose=False,\n"
         "            indices_slice=indices_slice)\n",
         "        try:\n"
         "            transpose_sparse_matrix_on_disk(\n"
         "                indices_handle=indices_handle,\n"
         "                indptr_handle=indptr_handle,\n"
         "                data_handle=data_handle,\n"
         "                indices_max=indices_max,\n"
         "                max_gb=max_gb,\n"
         "                output_path=output_path,\n"
         "                verbose=False,\n"
         "                indices_slice=indices_slice)\n"
         "        except SystemExit:\n"
         "            return\n")],
       'R-HANDLER/no-swallow', '_transpose_subset_of_indices')
twin('C14-twin-transposition-worker-reraises-interrupt', 'C14',
     'the transposition worker prints and re-raises an interrupt',
     [(_CSP, "        transpose_sparse_matrix_on_disk(\n"
       "            indices_handle=indices_handle,\n"
       "            indptr_handle=indptr_handle,\n"
       "            data_handle=data_handle,\n"
       "            indices_max=indices_max,\n"
       "            max_gb=max_gb,\n"
       "            output_path=output_path,\n"
       "            verbose=False,\n"
       "            indices_slice=indices_slice)\n",
       "        try:\n"
       "            transpose_sparse_matrix_on_disk(\n"
       "                indices_handle=indices_handle,\n"
       "                indptr_handle=indptr_handle,\n"
       "                data_handle=data_handle,\n"
       "                indices_max=indices_max,\n"
       "                max_gb=max_gb,\n"
       "                output_path=output_path,\n"
       "                verbose=False,\n"
       "                indices_slice=indices_slice)\n"
       "        except KeyboardInterrupt:\n"
       "            print('interrupted')\n"
       "            raise\n")])
mutant('C15-serialised-tree-without-name-tables', 'C15',
       'to_str(drop_cells=True) builds its output without the name tables',
       [(_TT, "            out_dict = copy.deepcopy(self._data)\n"
         "            for leaf in out_dict[self.leaf_level]:\n"
         "                out_dict[self.leaf_level][leaf] = []\n",
         "            out_dict = {'hierarchy': list(self.hierarchy)}\n"
         "            for level in self.hierarchy:\n"
         "                out_dict[level] = copy.deepcopy(\n"
         "                    self._data[level])\n"
         "            for key in ('metadata', 'hierarchy_mapper'):\n"
         "                if key in self._data:\n"
         "                    out_dict[key] = copy.deepcopy(\n"
         "                        self._data[key])\n"
         "            for leaf in out_dict[self.leaf_level]:\n"
         "                out_dict[self.leaf_level][leaf] = []\n")],
       'R-AGREE/serialised-tree-complete', 'to_str')
twin('C15-twin-serialised-tree-from-shallow-copy', 'C15',
     'to_str(drop_cells=True) empties the leaves of a shallow copy',
     [(_TT, "            out_dict = copy.deepcopy(self._data)\n"
       "            for leaf in out_dict[self.leaf_level]:\n"
       "                out_dict[self.leaf_level][leaf] = []\n",
       "            out_dict = dict(self._data)\n"
       "            out_dict[self.leaf_level] = {\n"
       "                leaf: [] for leaf in self._data[self.leaf_level]}\n")])
mutant('C16-rounding-skipped-for-default-type', 'C16',
       'round_x_to_integers returns at once for the default integer type',
       [(_VU, "    tmp_dir = pathlib.Path(\n"
         "        tempfile.mkdtemp(\n"
         "            dir=tmp_dir,\n"
         "            prefix='round_x_to_integers_staging_'))\n",
         "    if output_dtype is int:\n"
         "        return\n"
         "    tmp_dir = pathlib.Path(\n"
         "        tempfile.mkdtemp(\n"
         "            dir=tmp_dir,\n"
         "            prefix='round_x_to_integers_staging_'))\n")],
       'R-MUST/rounding-performed', 'round_x_to_integers')
twin('C18-twin-merge-stores-keys-of-this-file', 'C18',
     'the per-file marker tables are merged with .get over the keys of '
     'the file\'s own table',
     [(_MC, "            for k in this_lookup:\n"
       "                if k == 'log':\n"
       "                    continue\n"
       "                marker_lookup[k] = this_lookup[k]\n",
       "            for k in this_lookup:\n"
       "                if k == 'log':\n"
       "                    continue\n"
       "                marker_lookup[k] = this_lookup.get(k, [])\n")])
mutant('C04-mask-merge-skips-empty-chunk', 'C04',
       'the p-value mask merge skips a chunk without stored entries',
       [(_PM, "                indices = src['indices'][()].astype("
         "indices_dtype)\n"
         "                indptr = src['indptr'][()]\n",
         "                if src['indices'].shape[0] == 0:\n"
         "                    continue\n"
         "                indices = src['indices'][()].astype("
         "indices_dtype)\n"
         "                indptr = src['indptr'][()]\n")],
       'R-CURSOR', '_merge_masks')

# further twins for the rules of rounds 14-16
twin('C20-twin-word-to-path-inlined', 'C20',
     'the sanitiser turns the word into a path itself',
     [(_CLD, "            path = _word_to_path(word)\n",
       "            path = pathlib.Path(\n"
       "                word.replace('\"', '').replace(\"'\", ''))\n")])
twin('C10-twin-pure-helper-memoised', 'C10',
     'a pure helper of the data-release reader is memoised',
     [(_DRU, "import json\n", "import functools\nimport json\n\n\n"
       "@functools.lru_cache(maxsize=None)\n"
       "def _split_line(line):\n"
       "    return tuple(line.strip().split(','))\n"),
      (_DRU, "    header_line = header_line.strip().split(',')\n",
       "    header_line = list(_split_line(header_line))\n")])
twin('C17-twin-parent-entry-read-into-arrays', 'C17',
     'the positions of the parent\'s cache entry are read through '
     'np.array',
     [(_MT, "        reference_markers = this_grp['reference'][()]\n"
       "        raw_query_markers = this_grp['query'][()]\n",
       "        reference_markers = np.array(this_grp['reference'])\n"
       "        raw_query_markers = np.array(this_grp['query'])\n")])
twin('C16-twin-rounding-unknown-encoding-first', 'C16',
     'round_x_to_integers rejects an unknown encoding before it creates '
     'its scratch directory',
     [(_VU, "    tmp_dir = pathlib.Path(\n"
       "        tempfile.mkdtemp(\n"
       "            dir=tmp_dir,\n"
       "            prefix='round_x_to_integers_staging_'))\n",
       "    with h5py.File(h5ad_path, 'r') as src:\n"
       "        first_look = dict(src['X'].attrs)['encoding-type']\n"
       "    if first_look != 'array' and 'csr' not in first_look \\\n"
       "            and 'csc' not in first_look:\n"
       "        raise RuntimeError(\n"
       "            f\"Do not know how to handle encoding-type "
       "{first_look}\")\n"
       "    tmp_dir = pathlib.Path(\n"
       "        tempfile.mkdtemp(\n"
       "            dir=tmp_dir,\n"
       "            prefix='round_x_to_integers_staging_'))\n")])
mutant('C20-inlined-word-to-path-skips-long-words', 'C20',
       'the sanitiser, turning words into paths itself, does not look up '
       'long words',
       [(_CLD, "            path = _word_to_path(word)\n",
         "            path = pathlib.Path('.') if len(word) > 255 else \\\n"
         "                pathlib.Path(word.replace('\"', '').replace(\n"
         "                    \"'\", ''))\n")],
       'R-SAMEVAL/word-tested-as-is', 'sanitize_paths')

# ----------------------------------------------------------------------
# round 17
# ----------------------------------------------------------------------
mutant('C04-sets-serialised-unsorted-copy', 'C04',
       'clean_for_json serialises a set through sorted() whose result is '
       'dropped',
       [(_UU, "        new_data = list(data)\n"
         "        new_data.sort()\n"
         "        return clean_for_json(new_data)\n",
         "        new_data = list(data)\n"
         "        sorted(new_data)\n"
         "        return clean_for_json(new_data)\n")],
       'R-TAINT', 'clean_for_json')
twin('C04-twin-sets-serialised-through-sorted', 'C04',
     'clean_for_json serialises a set as sorted(data)',
     [(_UU, "        new_data = list(data)\n"
       "        new_data.sort()\n"
       "        return clean_for_json(new_data)\n",
       "        return clean_for_json(sorted(data))\n")])
mutant('C09-copy-slices-count-whole-blocks', 'C09',
       'the HDF5 copy helper cuts an axis into floor(n / block) blocks',
       [(_H5U, "        for i0 in range(0, this_n, chosen):\n"
         "            i1 = min(i0+chosen, this_n)\n"
         "            these_slices.append(slice(i0, i1, 1))\n",
         "        for i_b in range(this_n//chosen):\n"
         "            these_slices.append(\n"
         "                slice(i_b*chosen, (i_b+1)*chosen, 1))\n")],
       'R-TILE/whole-axis', '_get_slices_for_copy')
twin('C09-twin-copy-slices-count-ceil-blocks', 'C09',
     'the HDF5 copy helper cuts an axis into ceil(n / block) clamped '
     'blocks',
     [(_H5U, "        for i0 in range(0, this_n, chosen):\n"
       "            i1 = min(i0+chosen, this_n)\n"
       "            these_slices.append(slice(i0, i1, 1))\n",
       "        for i_b in range(int(np.ceil(this_n/chosen))):\n"
       "            these_slices.append(\n"
       "                slice(i_b*chosen, min((i_b+1)*chosen, this_n), 1))\n")])
mutant('C13-shuffle-copies-pointer-run-from-source-window', 'C13',
       'shuffle_csr_h5ad_rows copies the pointers of two rows at a time '
       'from a source window',
       [(_AU, "                dst_indptr[new_r] = dst0\n"
         "                dst_x['indices'][dst0:dst1] = "
         "src_x['indices'][src0:src1]\n",
         "                n_run = 2 if src1 == src_indptr[-1] else 1\n"
         "                dst_indptr[new_r:new_r+n_run] = (\n"
         "                    src_indptr[old_r:old_r+n_run] + (dst0-src0))\n"
         "                dst_x['indices'][dst0:dst1] = "
         "src_x['indices'][src0:src1]\n")],
       'R-PERM/permuted-row-window', 'shuffle_csr_h5ad_rows')
mutant('C14-markers-published-before-transposition', 'C14',
       'the reference-marker file is moved to the requested path before '
       'its transposition',
       [(_MK, "    tmp_dir = pathlib.Path(tempfile.mkdtemp(dir=tmp_dir))\n\n"
         "    with h5py.File(h5_path, 'a') as dst:\n"
         "        dst.create_group('sparse_by_gene')\n",
         "    tmp_dir = pathlib.Path(tempfile.mkdtemp(dir=tmp_dir))\n\n"
         "    if dst_path is not None:\n"
         "        h5_path = shutil.move(src=h5_path, dst=dst_path)\n\n"
         "    with h5py.File(h5_path, 'a') as dst:\n"
         "        dst.create_group('sparse_by_gene')\n"),
        (_MK, "        tmp_dir,\n        n_processors=1):\n    \"\"\"\n"
         "    Add the \"sparse_by_gene\" representation",
         "        tmp_dir,\n        n_processors=1,\n"
         "        dst_path=None):\n    \"\"\"\n"
         "    Add the \"sparse_by_gene\" representation"),
        (_PMK, "        n_processors=n_processors)\n"
         "    print(f'===== transposition took",
         "        n_processors=n_processors,\n"
         "        dst_path=output_path)\n"
         "    print(f'===== transposition took")],
       'R-MUST/publish-after-drain', 'add_sparse_by_gene_markers_to_file')
mutant('C15-tree-read-back-through-key-selection', 'C15',
       'from_str keeps the level tables, the hierarchy and the metadata '
       'only',
       [(_TT, "        return cls(\n"
         "            data=json.loads(serialized_dict))\n",
         "        parsed = json.loads(serialized_dict)\n"
         "        keep = set(parsed['hierarchy'])\n"
         "        keep.update(('hierarchy', 'metadata'))\n"
         "        return cls(\n"
         "            data={k: v for k, v in parsed.items() if k in keep})\n")],
       'R-AGREE/serialised-tree-complete', 'from_str')
twin('C15-twin-tree-read-back-through-a-local', 'C15',
     'from_str parses the text into a local first',
     [(_TT, "        return cls(\n"
       "            data=json.loads(serialized_dict))\n",
       "        parsed = json.loads(serialized_dict)\n"
       "        return cls(data=parsed)\n")])
mutant('C18-reconciliation-judges-group-content', 'C18',
       'the reconciliation counts a group without a reference dataset '
       'entry as missing',
       [(_TU, "            if parent_grp not in markers:\n",
         "            if parent_grp not in markers or len(\n"
         "                    markers[parent_grp]['reference']) == 0:\n")],
       'R-AGREE/reconcile-by-presence', 'reconcile_taxonomy_and_markers')
mutant('C01-output-blob-cleaned-wholesale', 'C01',
       'run_mapping replaces the output blob by a cleaned copy of itself',
       [(_FSM, "        output[\"config\"] = safe_config\n",
         "        output[\"config\"] = safe_config\n"
         "        output = clean_for_json(output)\n")],
       'R-SAMEVAL/results-written-as-computed', 'run_mapping')
twin('C14-twin-markers-published-after-transposition-in-callee', 'C14',
     'the reference-marker file is moved to the requested path by the '
     'callee, after its transposition',
     [(_MK, "                    data=src['indices'],\n"
       "                    chunks=src['indices'].chunks)\n\n"
       "    _clean_up(tmp_dir)\n",
       "                    data=src['indices'],\n"
       "                    chunks=src['indices'].chunks)\n\n"
       "    _clean_up(tmp_dir)\n"
       "    if dst_path is not None:\n"
       "        shutil.move(src=h5_path, dst=dst_path)\n"),
      (_MK, "        tmp_dir,\n        n_processors=1):\n    \"\"\"\n"
       "    Add the \"sparse_by_gene\" representation",
       "        tmp_dir,\n        n_processors=1,\n"
       "        dst_path=None):\n    \"\"\"\n"
       "    Add the \"sparse_by_gene\" representation"),
      (_PMK, "        n_processors=n_processors)\n"
       "    print(f'===== transposition took {time.time()-t0:.2e} "
       "=====')\n\n"
       "    t0 = time.time()\n"
       "    shutil.move(\n"
       "        src=tmp_thinned_path,\n"
       "        dst=output_path)\n",
       "        n_processors=n_processors,\n"
       "        dst_path=output_path)\n"
       "    print(f'===== transposition took {time.time()-t0:.2e} "
       "=====')\n\n"
       "    t0 = time.time()\n")])
twin('C13-twin-shuffle-reads-both-pointers-at-once', 'C13',
     'shuffle_csr_h5ad_rows reads the two pointers of a row as one window',
     [(_AU, "                src0 = src_indptr[old_r]\n"
       "                src1 = src_indptr[old_r+1]\n"
       "                dst1 = dst0 + (src1-src0)\n",
       "                src0, src1 = src_indptr[old_r:old_r+2]\n"
       "                dst1 = dst0 + (src1-src0)\n")])
twin('C18-twin-reconciliation-presence-through-a-local', 'C18',
     'the reconciliation names the presence test',
     [(_TU, "            if parent_grp not in markers:\n",
       "            present = parent_grp in markers\n"
       "            if not present:\n")])
twin('C01-twin-output-blob-copied', 'C01',
     'run_mapping works on a deep copy of the blob it was handed',
     [(_FSM, "        output[\"config\"] = safe_config\n",
       "        output = copy.deepcopy(output)\n"
       "        output[\"config\"] = safe_config\n")])

# ----------------------------------------------------------------------
# round 18 (four changes)
# ----------------------------------------------------------------------
mutant('C05-empty-group-pointer-shaped-like-input', 'C05',
       'csc_to_csr_on_disk writes, for an empty group, a pointer array '
       'with the shape of the input\'s',
       [(_CSC, "    transpose_sparse_matrix_on_disk(\n"
         "        indices_handle=csc_group['indices'],\n",
         "    if csc_group['indices'].shape[0] == 0:\n"
         "        with h5py.File(csr_path, 'w') as dst:\n"
         "            dst.create_dataset(\n"
         "                'indices', shape=(0,), dtype=int)\n"
         "            dst.create_dataset(\n"
         "                'indptr', shape=csc_group['indptr'].shape,\n"
         "                dtype=int)\n"
         "        return\n"
         "    transpose_sparse_matrix_on_disk(\n"
         "        indices_handle=csc_group['indices'],\n")],
       'R-AXIS/converted-pointer-extent', 'csc_to_csr_on_disk')
twin('C05-twin-empty-group-pointer-from-shape', 'C05',
     'csc_to_csr_on_disk writes, for an empty group, a pointer array of '
     'array_shape[0] + 1 zeros',
     [(_CSC, "    transpose_sparse_matrix_on_disk(\n"
       "        indices_handle=csc_group['indices'],\n",
       "    if csc_group['indices'].shape[0] == 0 and not use_data_array:\n"
       "        with h5py.File(csr_path, 'w') as dst:\n"
       "            dst.create_dataset(\n"
       "                'indices', shape=(0,),\n"
       "                dtype=csc_group['indices'].dtype)\n"
       "            dst.create_dataset(\n"
       "                'indptr',\n"
       "                data=np.zeros(array_shape[0]+1, dtype=np.int64))\n"
       "        return\n"
       "    transpose_sparse_matrix_on_disk(\n"
       "        indices_handle=csc_group['indices'],\n")])
mutant('C11-sparse-lookup-one-type-from-count', 'C11',
       '_lookup_to_sparse sizes the type of the gene indexes from their '
       'number',
       [(_MK, "    indices_dtype = choose_int_dtype((0, max_indices))\n",
         "    indices_dtype = choose_int_dtype((0, n_indices))\n")],
       'R-CAP/bound-kind', '_lookup_to_sparse')
