"""
Whole-package behaviour-preserving transformations ("global twins").

Each transformation rewrites every module of a scratch copy of the package
in a way that cannot change behaviour; every check must stay silent
(exit 0) on the result.  This guards against rules that key on spelling
(names of locals, layout, line numbers, quote style, operator form) rather
than on resolved program structure.

  reformat       ast.unparse of every module (comments gone, quotes and
                 parentheses normalised, line numbers changed)
  rename-locals  every local variable of every function (not parameters,
                 not globals, not names bound by import) gets a suffix
  opaque-locals  the same locals get meaningless names (x1_, x2_, ...)
  kw-reverse     keyword arguments of every call in reverse order
  flip-compare   a < b -> b > a, a == b -> b == a (single comparisons)
  hoist-args     the first argument of a statement-level call is computed
                 into a local first
  aug-assign     x += e  ->  x = x + e   for plain local names
  negate-if      if c: A else: B  ->  if not c: B else: A   (two-armed ifs
                 without elif)
  pad            a `pass` statement is added at the top of every function

Usage:  python -m sa.selftest.global_twins [--keep] [--only T] [PROPS...]
The scratch copies live outside /repo and /verif and are removed at once.
The transformed code is analysed, never executed.
"""
import ast
import builtins
import multiprocessing
import os
import pathlib
import shutil
import sys
import time

from .driver import make_copy, _scratch_root

BUILTINS = set(dir(builtins))


# --------------------------------------------------------------- rename

class _Scope(ast.NodeVisitor):
    """collect, for one function, the names that are safe to rename"""

    def __init__(self, fn, module_names):
        self.fn = fn
        self.module_names = module_names
        self.stored = set()
        self.blocked = set()
        a = fn.args
        for x in a.posonlyargs + a.args + a.kwonlyargs:
            self.blocked.add(x.arg)
        if a.vararg:
            self.blocked.add(a.vararg.arg)
        if a.kwarg:
            self.blocked.add(a.kwarg.arg)
        self.nested = False
        for st in fn.body:
            self.visit(st)

    def visit_FunctionDef(self, n):
        self.nested = True
    visit_AsyncFunctionDef = visit_FunctionDef
    visit_Lambda = visit_FunctionDef
    visit_ClassDef = visit_FunctionDef

    def visit_Global(self, n):
        self.blocked.update(n.names)
    visit_Nonlocal = visit_Global

    def visit_Import(self, n):
        for al in n.names:
            self.blocked.add((al.asname or al.name).split('.')[0])
    visit_ImportFrom = visit_Import

    def visit_ExceptHandler(self, n):
        if n.name:
            self.blocked.add(n.name)
        self.generic_visit(n)

    def visit_Name(self, n):
        if isinstance(n.ctx, (ast.Store, ast.Del)):
            self.stored.add(n.id)

    def renamable(self):
        if self.nested:
            return set()
        return {x for x in self.stored
                if x not in self.blocked and x not in self.module_names
                and x not in BUILTINS and not x.startswith('__')}


class _Renamer(ast.NodeTransformer):
    def __init__(self, names, suffix):
        self.names = names
        self.suffix = suffix
        # suffix None: opaque names (x1_, x2_, ...) that keep nothing of
        # the original spelling
        self.map = {nm: f'x{i + 1}_' for i, nm in enumerate(sorted(names))}

    def visit_Name(self, n):
        if n.id in self.names:
            n.id = (n.id + self.suffix) if self.suffix is not None \
                else self.map[n.id]
        return n


def t_rename_locals(tree, suffix='_rn'):
    module_names = set()
    for st in tree.body:
        for x in ast.walk(st):
            if isinstance(x, (ast.FunctionDef, ast.ClassDef)):
                module_names.add(x.name)
            elif isinstance(x, ast.alias):
                module_names.add((x.asname or x.name).split('.')[0])
        if isinstance(st, ast.Assign):
            for t in st.targets:
                for x in ast.walk(t):
                    if isinstance(x, ast.Name):
                        module_names.add(x.id)
    for fn in ast.walk(tree):
        if isinstance(fn, (ast.FunctionDef, ast.AsyncFunctionDef)):
            sc = _Scope(fn, module_names)
            names = sc.renamable()
            if names:
                r = _Renamer(names, suffix)
                fn.body = [r.visit(st) for st in fn.body]
    return tree


# ------------------------------------------------------------ aug-assign

class _Aug(ast.NodeTransformer):
    def visit_AugAssign(self, n):
        if isinstance(n.target, ast.Name) and isinstance(
                n.op, (ast.Add, ast.Sub, ast.Mult)):
            # only for names that hold numbers is `x = x + e` the same as
            # `x += e` in general; for lists += mutates in place.  Restrict
            # to right-hand sides that are visibly numeric.
            v = n.value
            numeric = isinstance(v, ast.Constant) and isinstance(
                v.value, (int, float)) and not isinstance(v.value, bool)
            if numeric:
                return ast.copy_location(ast.Assign(
                    targets=[ast.Name(id=n.target.id, ctx=ast.Store())],
                    value=ast.BinOp(left=ast.Name(id=n.target.id,
                                                  ctx=ast.Load()),
                                    op=n.op, right=v)), n)
        return n


def t_aug_assign(tree):
    return _Aug().visit(tree)


# -------------------------------------------------------------- negate-if

class _Neg(ast.NodeTransformer):
    def visit_If(self, n):
        self.generic_visit(n)
        if n.orelse and not (len(n.orelse) == 1
                             and isinstance(n.orelse[0], ast.If)):
            test = n.test
            if isinstance(test, ast.UnaryOp) and isinstance(
                    test.op, ast.Not):
                new = test.operand
            else:
                new = ast.UnaryOp(op=ast.Not(), operand=test)
            n.test = new
            n.body, n.orelse = n.orelse, n.body
        return n


def t_negate_if(tree):
    return _Neg().visit(tree)


# -------------------------------------------------------------------- pad

def t_pad(tree):
    for fn in ast.walk(tree):
        if isinstance(fn, (ast.FunctionDef, ast.AsyncFunctionDef)):
            i = 0
            if fn.body and isinstance(fn.body[0], ast.Expr) and isinstance(
                    fn.body[0].value, ast.Constant) and isinstance(
                        fn.body[0].value.value, str):
                i = 1
            fn.body.insert(i, ast.Pass())
    return tree


def t_reformat(tree):
    return tree


class _KwRev(ast.NodeTransformer):
    def visit_Call(self, n):
        self.generic_visit(n)
        if len(n.keywords) > 1 and all(k.arg for k in n.keywords):
            n.keywords = list(reversed(n.keywords))
        return n


def t_kw_reverse(tree):
    return _KwRev().visit(tree)


_FLIP = {ast.Lt: ast.Gt, ast.Gt: ast.Lt, ast.LtE: ast.GtE, ast.GtE: ast.LtE,
         ast.Eq: ast.Eq, ast.NotEq: ast.NotEq}


class _Flip(ast.NodeTransformer):
    def visit_Compare(self, n):
        self.generic_visit(n)
        if len(n.ops) == 1 and type(n.ops[0]) in _FLIP:
            l, r = n.left, n.comparators[0]
            # numpy arrays compare element-wise either way round; keep
            # constants on the right of `==` so that `x == None`-style
            # idioms are not produced the other way round
            n.left, n.comparators = r, [l]
            n.ops = [_FLIP[type(n.ops[0])]()]
        return n


def t_flip_compare(tree):
    return _Flip().visit(tree)


class _Hoist(ast.NodeTransformer):
    """`y = f(g(a), b)`  ->  `h1_ = g(a); y = f(h1_, b)` for the first
    positional or keyword argument of a statement-level call that is itself
    a call, a subscript or an arithmetic expression (evaluation order is
    kept: the hoisted argument is the first thing the statement evaluates
    after the callee name)"""

    def __init__(self):
        self.k = 0

    def _hoist(self, st, call):
        if not isinstance(call, ast.Call) or not isinstance(
                call.func, (ast.Name, ast.Attribute)):
            return [st]
        # the callee expression must be a plain dotted name
        f = call.func
        while isinstance(f, ast.Attribute):
            f = f.value
        if not isinstance(f, ast.Name):
            return [st]
        if any(isinstance(a, ast.Starred) for a in call.args):
            return [st]
        cands = list(call.args[:1]) if call.args else [
            k.value for k in call.keywords[:1] if k.arg]
        if not cands:
            return [st]
        a = cands[0]
        if not isinstance(a, (ast.Call, ast.Subscript, ast.BinOp)):
            return [st]
        if any(isinstance(x, (ast.Lambda, ast.NamedExpr, ast.Yield,
                              ast.Await)) for x in ast.walk(a)):
            return [st]
        self.k += 1
        nm = f'h{self.k}_'
        pre = ast.Assign(targets=[ast.Name(id=nm, ctx=ast.Store())],
                         value=a)
        if call.args:
            call.args[0] = ast.Name(id=nm, ctx=ast.Load())
        else:
            call.keywords[0].value = ast.Name(id=nm, ctx=ast.Load())
        return [ast.copy_location(pre, st), st]

    def _block(self, stmts):
        out = []
        for st in stmts:
            st = self.generic_visit(st)
            if isinstance(st, ast.Assign) and len(st.targets) == 1 \
                    and isinstance(st.targets[0], ast.Name):
                out += self._hoist(st, st.value)
            elif isinstance(st, ast.Expr):
                out += self._hoist(st, st.value)
            else:
                out.append(st)
        return out

    def visit_FunctionDef(self, n):
        n.body = self._block(n.body)
        return n

    def visit_For(self, n):
        n.body = self._block(n.body)
        n.orelse = self._block(n.orelse)
        return n

    def visit_If(self, n):
        n.body = self._block(n.body)
        n.orelse = self._block(n.orelse)
        return n

    def visit_With(self, n):
        n.body = self._block(n.body)
        return n


def t_hoist_args(tree):
    return _Hoist().visit(tree)


class _Commute(ast.NodeTransformer):
    """`2 * n` <-> `n * 2`, `x + 1` <-> `1 + x` where one operand is a
    numeric literal (numbers and arrays commute; a string or list operand
    cannot be combined with a number by these operators anyway)"""

    def visit_BinOp(self, n):
        self.generic_visit(n)
        if isinstance(n.op, (ast.Mult, ast.Add)):
            def num(x):
                return isinstance(x, ast.Constant) and isinstance(
                    x.value, (int, float)) and not isinstance(
                        x.value, bool)
            if num(n.left) != num(n.right):
                n.left, n.right = n.right, n.left
        return n


def t_commute_const(tree):
    return _Commute().visit(tree)


class _TempReturn(ast.NodeTransformer):
    """`return expr` -> `r_ = expr; return r_` (not for bare names,
    constants or generators' returns)"""

    def _block(self, stmts):
        out = []
        for st in stmts:
            st = self.generic_visit(st)
            if isinstance(st, ast.Return) and st.value is not None \
                    and not isinstance(st.value, (ast.Name, ast.Constant)):
                pre = ast.Assign(
                    targets=[ast.Name(id='r_tmp_', ctx=ast.Store())],
                    value=st.value)
                ast.copy_location(pre, st)
                st.value = ast.Name(id='r_tmp_', ctx=ast.Load())
                out += [pre, st]
            else:
                out.append(st)
        return out

    def generic_visit(self, node):
        node = super().generic_visit(node)
        for field in ('body', 'orelse', 'finalbody'):
            v = getattr(node, field, None)
            if isinstance(v, list) and v and isinstance(v[0], ast.stmt):
                setattr(node, field, self._block_shallow(v))
        return node

    def _block_shallow(self, stmts):
        out = []
        for st in stmts:
            if isinstance(st, ast.Return) and st.value is not None \
                    and not isinstance(st.value, (ast.Name, ast.Constant)):
                pre = ast.Assign(
                    targets=[ast.Name(id='r_tmp_', ctx=ast.Store())],
                    value=st.value)
                ast.copy_location(pre, st)
                st.value = ast.Name(id='r_tmp_', ctx=ast.Load())
                out += [pre, st]
            else:
                out.append(st)
        return out


def t_temp_return(tree):
    return _TempReturn().visit(tree)


class _TempCond(ast.NodeTransformer):
    """`if cond:` -> `c1_ = cond; if c1_:` for `if` statements that stand
    in a statement list of their own (not an `elif`: its condition must
    not be evaluated before the preceding tests)"""

    def __init__(self):
        self.k = 0

    def _block(self, stmts):
        out = []
        for st in stmts:
            if isinstance(st, ast.If) and not isinstance(
                    st.test, (ast.Name, ast.Constant)) and not any(
                        isinstance(x, (ast.NamedExpr, ast.Await, ast.Yield))
                        for x in ast.walk(st.test)):
                self.k += 1
                nm = f'c{self.k}_'
                pre = ast.Assign(
                    targets=[ast.Name(id=nm, ctx=ast.Store())],
                    value=st.test)
                ast.copy_location(pre, st)
                st.test = ast.copy_location(
                    ast.Name(id=nm, ctx=ast.Load()), st)
                out += [pre, st]
            else:
                out.append(st)
        return out

    def generic_visit(self, node):
        node = super().generic_visit(node)
        for field in ('body', 'orelse', 'finalbody'):
            v = getattr(node, field, None)
            if not (isinstance(v, list) and v
                    and isinstance(v[0], ast.stmt)):
                continue
            if field == 'orelse' and isinstance(node, ast.If) \
                    and len(v) == 1 and isinstance(v[0], ast.If):
                continue        # elif
            setattr(node, field, self._block(v))
        return node


def t_temp_cond(tree):
    return _TempCond().visit(tree)


class _EarlyContinue(ast.NodeTransformer):
    """a loop body that ends in `if c: <block>` (no else) becomes
    `if not c: continue` followed by the block"""

    def visit_For(self, n):
        self.generic_visit(n)
        if n.body and isinstance(n.body[-1], ast.If) \
                and not n.body[-1].orelse and not n.orelse:
            iff = n.body[-1]
            guard = ast.If(
                test=ast.UnaryOp(op=ast.Not(), operand=iff.test),
                body=[ast.Continue()], orelse=[])
            ast.copy_location(guard, iff)
            ast.copy_location(guard.test, iff)
            ast.copy_location(guard.body[0], iff)
            n.body = n.body[:-1] + [guard] + iff.body
        return n


def t_early_continue(tree):
    return _EarlyContinue().visit(tree)


class _CompToLoop(ast.NodeTransformer):
    """`x = [e for t in it if c]` -> `x = []` + loop with append;
    `x = {k: v for t in it if c}` -> `x = dict()` + loop with store.  Only
    for single-generator comprehensions assigned to a plain name at
    statement level, whose loop variables occur nowhere else in the
    function (a for-loop's variables outlive the loop, a comprehension's
    do not) and that do not mention the name they are assigned to."""

    def visit_FunctionDef(self, fn):
        self.generic_visit(fn)
        counts = dict()
        for x in ast.walk(fn):
            if isinstance(x, ast.Name):
                counts[x.id] = counts.get(x.id, 0) + 1
            elif isinstance(x, ast.arg):
                counts[x.arg] = counts.get(x.arg, 0) + 1

        def inside(comp):
            c = dict()
            for x in ast.walk(comp):
                if isinstance(x, ast.Name):
                    c[x.id] = c.get(x.id, 0) + 1
            return c

        def rewrite(stmts):
            out = []
            for st in stmts:
                for field in ('body', 'orelse', 'finalbody'):
                    v = getattr(st, field, None)
                    if isinstance(v, list) and v and isinstance(
                            v[0], ast.stmt):
                        setattr(st, field, rewrite(v))
                if isinstance(st, ast.Try):
                    for h in st.handlers:
                        h.body = rewrite(h.body)
                if isinstance(st, ast.With):
                    pass
                ok = (isinstance(st, ast.Assign) and len(st.targets) == 1
                      and isinstance(st.targets[0], ast.Name)
                      and isinstance(st.value, (ast.ListComp, ast.DictComp))
                      and len(st.value.generators) == 1
                      and not st.value.generators[0].is_async)
                if ok:
                    comp = st.value
                    g = comp.generators[0]
                    tnames = {x.id for x in ast.walk(g.target)
                              if isinstance(x, ast.Name)}
                    ins = inside(comp)
                    name = st.targets[0].id
                    if name in ins or any(
                            counts.get(t, 0) != ins.get(t, 0)
                            for t in tnames) or any(
                                isinstance(x, (ast.ListComp, ast.DictComp,
                                               ast.SetComp, ast.GeneratorExp,
                                               ast.Lambda))
                                for x in ast.walk(comp) if x is not comp):
                        ok = False
                if not ok:
                    out.append(st)
                    continue
                if isinstance(comp, ast.ListComp):
                    init = ast.Assign(
                        targets=[ast.Name(id=name, ctx=ast.Store())],
                        value=ast.List(elts=[], ctx=ast.Load()))
                    act = ast.Expr(value=ast.Call(
                        func=ast.Attribute(
                            value=ast.Name(id=name, ctx=ast.Load()),
                            attr='append', ctx=ast.Load()),
                        args=[comp.elt], keywords=[]))
                else:
                    init = ast.Assign(
                        targets=[ast.Name(id=name, ctx=ast.Store())],
                        value=ast.Call(func=ast.Name(id='dict',
                                                     ctx=ast.Load()),
                                       args=[], keywords=[]))
                    act = ast.Assign(
                        targets=[ast.Subscript(
                            value=ast.Name(id=name, ctx=ast.Load()),
                            slice=comp.key, ctx=ast.Store())],
                        value=comp.value)
                body = [act]
                for cond in reversed(g.ifs):
                    body = [ast.If(test=cond, body=body, orelse=[])]
                loop = ast.For(target=g.target, iter=g.iter, body=body,
                               orelse=[])
                for nd in (init, loop):
                    ast.copy_location(nd, st)
                    ast.fix_missing_locations(nd)
                out += [init, loop]
            return out
        fn.body = rewrite(fn.body)
        return fn


def t_comp_to_loop(tree):
    return _CompToLoop().visit(tree)


class _FStringToFormat(ast.NodeTransformer):
    """f"a {x} b {y.name}" -> "a {} b {}".format(x, y.name) for f-strings
    without conversions or format specs (literal braces are doubled)"""

    def visit_JoinedStr(self, node):
        self.generic_visit(node)
        parts = []
        args = []
        for v in node.values:
            if isinstance(v, ast.Constant):
                parts.append(str(v.value).replace('{', '{{').replace(
                    '}', '}}'))
            elif isinstance(v, ast.FormattedValue):
                if v.conversion != -1 or v.format_spec is not None:
                    return node
                parts.append('{}')
                args.append(v.value)
            else:
                return node
        if not args:
            return node
        new = ast.Call(
            func=ast.Attribute(value=ast.Constant(value=''.join(parts)),
                               attr='format', ctx=ast.Load()),
            args=args, keywords=[])
        return ast.copy_location(new, node)


def t_fstring_to_format(tree):
    return _FStringToFormat().visit(tree)


class _SplitAnd(ast.NodeTransformer):
    """`if a and b: X` (no else) -> `if a:` + `if b: X`"""

    def visit_If(self, node):
        self.generic_visit(node)
        if isinstance(node.test, ast.BoolOp) and isinstance(
                node.test.op, ast.And) and not node.orelse \
                and len(node.test.values) == 2:
            a, b = node.test.values
            inner = ast.If(test=b, body=node.body, orelse=[])
            ast.copy_location(inner, node)
            node.test = a
            node.body = [inner]
        return node


def t_split_and(tree):
    return _SplitAnd().visit(tree)


class _WithMerge(ast.NodeTransformer):
    """`with A as a:` whose whole body is `with B as b: ...` becomes
    `with A as a, B as b: ...`"""

    def visit_With(self, node):
        self.generic_visit(node)
        while len(node.body) == 1 and isinstance(node.body[0], ast.With):
            inner = node.body[0]
            node.items = node.items + inner.items
            node.body = inner.body
        return node


def t_with_merge(tree):
    return _WithMerge().visit(tree)


class _UnpackSplit(ast.NodeTransformer):
    """`a, b = f(...)` (plain names, a call on the right) ->
    `u_tmp_ = f(...); a = u_tmp_[0]; b = u_tmp_[1]`"""

    def __init__(self):
        self.k = 0

    def _rewrite(self, stmts):
        out = []
        for st in stmts:
            if isinstance(st, ast.Assign) and len(st.targets) == 1 \
                    and isinstance(st.targets[0], ast.Tuple) \
                    and all(isinstance(e, ast.Name)
                            for e in st.targets[0].elts) \
                    and isinstance(st.value, ast.Call):
                self.k += 1
                tmp = f'u_tmp_{self.k}_'
                first = ast.Assign(
                    targets=[ast.Name(id=tmp, ctx=ast.Store())],
                    value=st.value)
                ast.copy_location(first, st)
                out.append(first)
                for i, e in enumerate(st.targets[0].elts):
                    a = ast.Assign(
                        targets=[ast.Name(id=e.id, ctx=ast.Store())],
                        value=ast.Subscript(
                            value=ast.Name(id=tmp, ctx=ast.Load()),
                            slice=ast.Constant(value=i), ctx=ast.Load()))
                    ast.copy_location(a, st)
                    out.append(a)
            else:
                out.append(st)
        return out

    def generic_visit(self, node):
        node = super().generic_visit(node)
        for field in ('body', 'orelse', 'finalbody'):
            v = getattr(node, field, None)
            if isinstance(v, list) and v and isinstance(v[0], ast.stmt):
                setattr(node, field, self._rewrite(v))
        return node


def t_unpack_split(tree):
    return _UnpackSplit().visit(tree)


class _TernaryToIf(ast.NodeTransformer):
    """`x = a if c else b` -> if c: x = a / else: x = b"""

    def _rewrite(self, stmts):
        out = []
        for st in stmts:
            if isinstance(st, ast.Assign) and len(st.targets) == 1 \
                    and isinstance(st.targets[0], ast.Name) \
                    and isinstance(st.value, ast.IfExp):
                v = st.value
                a = ast.Assign(targets=[ast.Name(id=st.targets[0].id,
                                                 ctx=ast.Store())],
                               value=v.body)
                b = ast.Assign(targets=[ast.Name(id=st.targets[0].id,
                                                 ctx=ast.Store())],
                               value=v.orelse)
                new = ast.If(test=v.test, body=[a], orelse=[b])
                for nd in (a, b, new):
                    ast.copy_location(nd, st)
                out.append(new)
            else:
                out.append(st)
        return out

    def generic_visit(self, node):
        node = super().generic_visit(node)
        for field in ('body', 'orelse', 'finalbody'):
            v = getattr(node, field, None)
            if isinstance(v, list) and v and isinstance(v[0], ast.stmt):
                setattr(node, field, self._rewrite(v))
        return node


def t_ternary_to_if(tree):
    return _TernaryToIf().visit(tree)


class _DictToStores(ast.NodeTransformer):
    """`d = {'a': x, 'b': y}` (constant string keys, at statement level)
    -> `d = dict(); d['a'] = x; d['b'] = y` when the values do not mention
    d"""

    def _rewrite(self, stmts):
        out = []
        for st in stmts:
            ok = (isinstance(st, ast.Assign) and len(st.targets) == 1
                  and isinstance(st.targets[0], ast.Name)
                  and isinstance(st.value, ast.Dict) and st.value.keys
                  and all(isinstance(k, ast.Constant) and isinstance(
                      k.value, str) for k in st.value.keys))
            if ok:
                name = st.targets[0].id
                if any(isinstance(x, ast.Name) and x.id == name
                       for v in st.value.values for x in ast.walk(v)):
                    ok = False
            if not ok:
                out.append(st)
                continue
            init = ast.Assign(
                targets=[ast.Name(id=name, ctx=ast.Store())],
                value=ast.Call(func=ast.Name(id='dict', ctx=ast.Load()),
                               args=[], keywords=[]))
            ast.copy_location(init, st)
            out.append(init)
            for k, v in zip(st.value.keys, st.value.values):
                a = ast.Assign(
                    targets=[ast.Subscript(
                        value=ast.Name(id=name, ctx=ast.Load()),
                        slice=k, ctx=ast.Store())], value=v)
                ast.copy_location(a, st)
                out.append(a)
        return out

    def generic_visit(self, node):
        node = super().generic_visit(node)
        for field in ('body', 'orelse', 'finalbody'):
            v = getattr(node, field, None)
            if isinstance(v, list) and v and isinstance(v[0], ast.stmt):
                setattr(node, field, self._rewrite(v))
        return node


def t_dict_to_stores(tree):
    return _DictToStores().visit(tree)


def t_opaque_locals(tree):
    return t_rename_locals(tree, suffix=None)


TRANSFORMS = {
    'reformat': t_reformat,
    'rename-locals': t_rename_locals,
    'opaque-locals': t_opaque_locals,
    'kw-reverse': t_kw_reverse,
    'flip-compare': t_flip_compare,
    'hoist-args': t_hoist_args,
    'aug-assign': t_aug_assign,
    'negate-if': t_negate_if,
    'pad': t_pad,
    'commute-const': t_commute_const,
    'temp-return': t_temp_return,
    'temp-cond': t_temp_cond,
    'early-continue': t_early_continue,
    'comp-to-loop': t_comp_to_loop,
    'fstring-to-format': t_fstring_to_format,
    'split-and': t_split_and,
    'with-merge': t_with_merge,
    'unpack-split': t_unpack_split,
    'ternary-to-if': t_ternary_to_if,
    'dict-to-stores': t_dict_to_stores,
}


def transform_tree(root, name):
    fn = TRANSFORMS[name]
    pkg = pathlib.Path(root) / 'src' / 'cell_type_mapper'
    n = 0
    for p in sorted(pkg.rglob('*.py')):
        src = p.read_text()
        tree = ast.parse(src)
        tree = fn(tree)
        ast.fix_missing_locations(tree)
        out = ast.unparse(tree) + '\n'
        compile(out, str(p), 'exec')
        p.write_text(out)
        n += 1
    return n


def _job(job):
    repo, tname, prop, keep = job
    from ..run import analyse
    root = _scratch_root()
    t0 = time.time()
    try:
        make_copy(repo, root)
        transform_tree(root, tname)
        try:
            code, ev, ctx = analyse(prop, root, 'quick', write_evidence=False,
                                    quiet=True)
            detail = []
            for o in ctx.obligations:
                if not o.ok:
                    detail.append(f'{o.rule} {o.key}: {o.detail}'[:300])
        except AnalysisErrorT as e:   # noqa
            code, detail = 2, [str(e)[:300]]
        return (tname, prop, code, detail, time.time() - t0,
                root if keep else None)
    except Exception as e:   # pragma: no cover
        import traceback
        return (tname, prop, 3, [traceback.format_exc()[-800:]],
                time.time() - t0, root if keep else None)
    finally:
        if not keep:
            shutil.rmtree(root, ignore_errors=True)


from ..core.loader import AnalysisError as AnalysisErrorT   # noqa: E402


def main(argv=None):
    import argparse
    from ..run import CLAIMED
    ap = argparse.ArgumentParser()
    ap.add_argument('props', nargs='*')
    ap.add_argument('--repo', default=os.environ.get('VERIF_REPO', '/repo'))
    ap.add_argument('--only')
    ap.add_argument('--keep', action='store_true')
    ap.add_argument('--jobs', type=int, default=16)
    a = ap.parse_args(argv)
    props = a.props or list(CLAIMED)
    names = [a.only] if a.only else list(TRANSFORMS)
    jobs = [(a.repo, t, p, a.keep) for t in names for p in props]
    bad = 0
    with multiprocessing.Pool(a.jobs) as pool:
        for tname, prop, code, detail, dt, root in pool.imap_unordered(
                _job, jobs):
            status = 'silent' if code == 0 else f'EXIT {code}'
            print(f'{tname:14s} {prop} {status} {dt:5.1f}s'
                  + (f'  kept at {root}' if root else ''))
            if code:
                bad += 1
                for d in detail[:8]:
                    print('      ', d)
    print(f'global twins: {len(jobs) - bad}/{len(jobs)} silent')
    return 1 if bad else 0


if __name__ == '__main__':
    sys.exit(main())
