"""
R-ARMS: the two arms of `if log is None ... else ...` agree on raising.

The repo reports an error either by `raise X(msg)` (no log) or by
`log.error(msg)` (CommandLog.error raises).  A condition that is an error
without a log must be an error with one (Engler-style contradiction rule).
"""
import ast

from ..core.cfg import cfg_of
from ..core.defuse import rd_of
from ..core.loader import unparse


def _log_test(test):
    """(var, none_edge) if test is `<v> is None` / `<v> is not None` for a
    log-like variable: returns the edge label on which v is None"""
    if isinstance(test, ast.UnaryOp) and isinstance(test.op, ast.Not):
        r = _log_test(test.operand)
        if r is None:
            return None
        return r[0], ('false' if r[1] == 'true' else 'true')
    if isinstance(test, ast.Compare) and len(test.ops) == 1 \
            and isinstance(test.comparators[0], ast.Constant) \
            and test.comparators[0].value is None:
        v = test.left
        name = None
        if isinstance(v, ast.Name):
            name = v.id
        elif isinstance(v, ast.Attribute):
            name = v.attr
        if name is None or 'log' not in name.lower():
            return None
        if isinstance(test.ops[0], (ast.Is, ast.Eq)):
            return name, 'true'
        if isinstance(test.ops[0], (ast.IsNot, ast.NotEq)):
            return name, 'false'
    return None


def arm_kind(stmts, logvar):
    """'raises' if every path through the arm ends in raise / log.error;
    'warns' if it emits a warning / message and continues; 'silent'
    otherwise"""
    if not stmts:
        return 'silent'
    last = stmts[-1]
    raises = False
    if isinstance(last, ast.Raise):
        raises = True
    if isinstance(last, ast.Expr) and isinstance(last.value, ast.Call):
        f = last.value.func
        if isinstance(f, ast.Attribute) and f.attr == 'error':
            raises = True
    if isinstance(last, ast.If):
        a = arm_kind(last.body, logvar)
        b = arm_kind(last.orelse, logvar)
        if a == 'raises' and b == 'raises':
            raises = True
    if raises:
        return 'raises'
    for s in stmts:
        for sub in ast.walk(s):
            if isinstance(sub, ast.Call):
                f = sub.func
                nm = f.attr if isinstance(f, ast.Attribute) else (
                    f.id if isinstance(f, ast.Name) else '')
                if nm in ('warn', 'warning', 'print', 'info', 'benchmark',
                          'env', 'add_msg'):
                    return 'warns'
    return 'silent'


def check_arms(ctx, fi, rule='R-ARMS/log-arms'):
    """all two-armed log conditionals of fi; returns number found"""
    ctx.touch(fi)
    n = 0
    for node in ast.walk(fi.node):
        if not isinstance(node, ast.If):
            continue
        lt = _log_test(node.test)
        if lt is None:
            continue
        name, none_edge = lt
        if not node.orelse:
            # one-armed: `if log is not None: log.info(...)` -- fine unless
            # it is an error arm with no counterpart
            k = arm_kind(node.body, name)
            if k == 'raises':
                n += 1
                nxt = _next_stmt(node)
                cont = isinstance(nxt, ast.Raise) or (
                    isinstance(nxt, ast.Expr) and isinstance(
                        nxt.value, ast.Call) and isinstance(
                            nxt.value.func, ast.Attribute)
                    and nxt.value.func.attr == 'error')
                key = f'{fi.qual}:{unparse(node.test)}@{_anchor(node)}'
                ctx.ob(rule, key, fi.loc(node), cont,
                       'error in both cases (the other case raises right '
                       'after)' if cont else
                       f'`if {unparse(node.test)}` raises, but when the '
                       'condition is false the function carries on: the '
                       'same input is an error with a log and accepted '
                       'without one (or vice versa)')
            continue
        n += 1
        a = arm_kind(node.body, name)
        b = arm_kind(node.orelse, name)
        key = f'{fi.qual}:{unparse(node.test)}@{_anchor(node)}'
        if (a == 'raises') != (b == 'raises'):
            bad = 'else' if a == 'raises' else 'if'
            ctx.fail(rule, key, fi.loc(node),
                     f'the two arms of `if {unparse(node.test)}` disagree: '
                     f'one raises, the `{bad}` arm only '
                     f'{"warns" if (b if bad == "else" else a) == "warns" else "continues"}'
                     ' -- the same condition is an error in one '
                     'configuration and accepted in the other')
        else:
            ctx.ok(rule, key, fi.loc(node),
                   f'both arms {"raise" if a == "raises" else "continue"}')
    return n


def _next_stmt(node):
    p = getattr(node, '_parent', None)
    for field in ('body', 'orelse', 'finalbody'):
        seq = getattr(p, field, None)
        if isinstance(seq, list) and node in seq:
            i = seq.index(node)
            if i + 1 < len(seq):
                return seq[i+1]
    return None


def _anchor(node):
    """a stable description of where the conditional sits: the text of the
    first statement of its body"""
    try:
        return unparse(node.body[0])[:40]
    except Exception:
        return ''


def check_error_raises(ctx, rule='R-ARMS/log-error-raises'):
    """CommandLog.error raises on every path"""
    fi = ctx.db.fn('cli.cli_log:CommandLog.error')
    cfg = cfg_of(fi)
    p = cfg.path(cfg.entry, {cfg.exit},
                 edge_ok=lambda a, b, lab: lab != 'exc')
    ctx.ob(rule, 'CommandLog.error', fi.loc(), p is None,
           'CommandLog.error raises on every path' if p is None else
           'CommandLog.error can return normally: every `log.error(msg)` '
           'in the package then lets an invalid input pass',
           witness=cfg.fmt_path(p) if p else None)
