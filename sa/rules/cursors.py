"""
R-CURSOR: write cursors of the on-disk / in-buffer assembly loops.

A *cursor* is a variable (a scalar, or an element `c[k]` of an array of
per-row cursors) that a loop advances by the amount it has just written:

    buf[a:b] = piece            # b - a is the amount
    cursor += amount

The rule: some slice-store of that loop whose extent mentions the same
amount takes its start from the cursor (the start's data slice contains the
cursor variable).  If none does, the loop advances a cursor that nothing
reads: successive pieces for the same destination are then placed by some
other, non-advancing expression and overwrite each other (or leave holes).
That is a necessary condition of every "append the next piece" loop in the
transposition, amalgamation and loading code; it does not decide that the
amounts themselves are right.
"""
import ast

from ..core.slicing import backward_slice
from ..core.loader import unparse


def _innermost_loop(n):
    p = getattr(n, '_parent', None)
    while p is not None and not isinstance(
            p, (ast.For, ast.While, ast.FunctionDef, ast.AsyncFunctionDef)):
        p = getattr(p, '_parent', None)
    return p if isinstance(p, (ast.For, ast.While)) else None


def _inside(n, loop):
    p = getattr(n, '_parent', None)
    while p is not None:
        if p is loop:
            return True
        p = getattr(p, '_parent', None)
    return False


def _base(e):
    while isinstance(e, (ast.Subscript, ast.Attribute)):
        e = e.value
    return e.id if isinstance(e, ast.Name) else None


def _slice_stores(fi):
    out = []
    for n in ast.walk(fi.node):
        if not isinstance(n, ast.Assign):
            continue
        for tg in n.targets:
            if not isinstance(tg, ast.Subscript):
                continue
            sl = tg.slice
            if isinstance(sl, ast.Slice):
                sls = [sl]
            elif isinstance(sl, ast.Tuple):
                sls = [x for x in sl.elts if isinstance(x, ast.Slice)]
            else:
                sls = []
            for s in sls:
                if s.lower is not None and s.upper is not None:
                    out.append((n, tg, s))
    return out


def cursor_sites(fi):
    """[(aug statement, cursor name, [(store stmt, target, uses cursor)])]
    for every advancing cursor that is paired with at least one
    slice-store of its loop"""
    stores = _slice_stores(fi)
    if not stores:
        return []
    out = []
    slices = dict()
    for a in ast.walk(fi.node):
        if not (isinstance(a, ast.AugAssign) and isinstance(a.op, ast.Add)):
            continue
        loop = _innermost_loop(a)
        if loop is None:
            continue
        cur = _base(a.target)
        if cur is None:
            continue
        amount = {x.id for x in ast.walk(a.value) if isinstance(x, ast.Name)}
        if not amount:
            continue
        paired = []
        for (st, tg, s) in stores:
            if not _inside(st, loop):
                continue
            key = id(s)
            if key not in slices:
                slices[key] = (backward_slice(fi, s.lower).names,
                               backward_slice(fi, s.upper).names)
            lo, up = slices[key]
            if not (amount & up):
                continue
            paired.append((st, tg, cur in lo))
        if paired:
            out.append((a, cur, paired))
    return out


def check_cursors(ctx, fi, rule='R-CURSOR/used'):
    n = 0
    for (a, cur, paired) in cursor_sites(fi):
        n += 1
        ok = any(u for (_s, _t, u) in paired)
        ctx.touch(fi)
        ctx.ob(rule, f'{fi.qual}:{_role(a)}', fi.loc(a), ok,
               f'the cursor `{cur}` positions '
               + ', '.join(sorted({unparse(t.value)[:30]
                                   for (_s, t, u) in paired if u}))
               if ok else
               f'`{unparse(a)[:60]}` advances a cursor that none of the '
               'stores of its loop ('
               + ', '.join(sorted({unparse(t)[:40]
                                   for (_s, t, _u) in paired}))
               + ') takes its position from: pieces written for the same '
               'destination in different iterations land on the same '
               'place')
    return n


def _role(a):
    """instance key without local names: the shape of the cursor update"""
    tg = a.target
    shape = 'scalar'
    if isinstance(tg, ast.Subscript):
        shape = 'element'
    elif isinstance(tg, ast.Attribute):
        shape = 'attribute'
    loop = _innermost_loop(a)
    kind = type(loop).__name__.lower() if loop is not None else 'none'
    # ordinal among the cursor updates of the same loop
    sibs = [n for n in ast.walk(loop) if isinstance(n, ast.AugAssign)
            and isinstance(n.op, ast.Add) and _innermost_loop(n) is loop] \
        if loop is not None else [a]
    sibs.sort(key=lambda n: (n.lineno, n.col_offset))
    k = next((i for i, n in enumerate(sibs) if n is a), 0)
    outer = [n for n in ast.walk(_func_of(a))
             if isinstance(n, (ast.For, ast.While))]
    outer.sort(key=lambda n: (n.lineno, n.col_offset))
    li = next((i for i, n in enumerate(outer) if n is loop), 0)
    return f'{kind}#{li}:cursor#{k}:{shape}'


def _func_of(n):
    p = n
    while p is not None and not isinstance(
            p, (ast.FunctionDef, ast.AsyncFunctionDef)):
        p = getattr(p, '_parent', None)
    return p


def check_bookkeeping(ctx, fi, rule='R-CURSOR/bookkeeping'):
    """in a loop that appends pieces under a cursor, the per-item record
    `table[i] = cursor` (where item i starts) is made in every iteration:
    an iteration that skips it -- also for an empty piece -- leaves the
    start of that item at its initial value, and the items after it are
    read from the wrong place"""
    from . import coverage as CV
    from ..core.cfg import cfg_of
    n = 0
    loops = dict()
    for (a, cur, paired) in cursor_sites(fi):
        lp = _innermost_loop(a)
        if isinstance(lp, ast.For):
            loops.setdefault(id(lp), (lp, set()))[1].add(cur)
    cfg = cfg_of(fi)
    for (lp, curs) in loops.values():
        lvars = {x.id for x in ast.walk(lp.target)
                 if isinstance(x, ast.Name)}
        recs = []
        for st in ast.walk(lp):
            if isinstance(st, ast.Assign) and len(st.targets) == 1 \
                    and isinstance(st.targets[0], ast.Subscript) \
                    and _innermost_loop(st) is lp:
                tg = st.targets[0]
                idx = {x.id for x in ast.walk(tg.slice)
                       if isinstance(x, ast.Name)}
                val = {x.id for x in ast.walk(st.value)
                       if isinstance(x, ast.Name)}
                if not isinstance(tg.slice, (ast.Slice, ast.Tuple)) \
                        and idx and idx <= lvars and (val & curs):
                    recs.append(st)
        for k, st in enumerate(recs):
            n += 1

            def act(node, _st=st):
                return node.ast is _st
            CV.check_cover(
                ctx, fi, rule, f'{fi.qual}:{_role_loop(lp)}:record#{k}',
                lp, act, what='item',
                consequence=f'`{unparse(st)[:50]}` is not executed for it, '
                'so the recorded start of that item (and the extent of '
                'its neighbour) is wrong')
    return n


def _role_loop(loop):
    fn = _func_of(loop)
    outer = [n for n in ast.walk(fn) if isinstance(n, (ast.For, ast.While))]
    outer.sort(key=lambda n: (n.lineno, n.col_offset))
    return f'loop#{next((i for i, n in enumerate(outer) if n is loop), 0)}'


def check_advance(ctx, fi, rule='R-CURSOR/advance'):
    """the cursor is advanced in every iteration of its loop.  An iteration
    may skip the advance only under a test that the *amount* it would have
    advanced by is zero (`if n == 0: continue` where the cursor moves by
    n): skipping under any other condition -- in particular because some
    other quantity of the piece is zero -- leaves the cursor behind, and
    every later piece lands on top of an earlier one."""
    from . import coverage as CV
    n = 0
    seen = set()
    for (a, cur, paired) in cursor_sites(fi):
        lp = _innermost_loop(a)
        if lp is None or id(a) in seen:
            continue
        seen.add(id(a))
        amount = {x.id for x in ast.walk(a.value) if isinstance(x, ast.Name)}

        def allow(test, edge, _am=amount):
            if not (CV.is_emptiness_test(test) and edge == 'true'):
                return False
            names = {x.id for x in ast.walk(test) if isinstance(x, ast.Name)}
            return bool(names) and names <= _am

        def act(node, _a=a):
            return node.ast is _a
        n += 1
        CV.check_cover(
            ctx, fi, rule, f'{fi.qual}:{_role(a)}', lp, act, allow=allow,
            what='piece',
            consequence=f'`{unparse(a)[:50]}` is skipped for it although '
            'the piece may occupy room, so the pieces after it are placed '
            'too early')
    return n
