"""
R-PAIR for scratch space: every mkdtemp / mkstemp_clean acquisition is
released on all paths to the required exit set, directly, by transfer of
ownership, or by being nested under a directory that a calling frame
releases (DESIGN.md appendix B.1).
"""
import ast

from ..core.cfg import cfg_of
from ..core.defuse import rd_of
from ..core.loader import FunctionInfo, ClassInfo, unparse
from ..core.resolve import resolve_callee, ext_name, bind_args, \
    process_target

CLEANUP_FN = 'utils.utils:_clean_up'
MKSTEMP_FN = 'utils.utils:mkstemp_clean'
IDENTITY = ('pathlib.Path', 'str', 'os.path.abspath', 'os.fspath',
            'pathlib.PosixPath')

IO_EXTERNALS = {
    'open', 'h5py.File', 'json.load', 'json.loads', 'tempfile.mkdtemp',
    'tempfile.mkstemp', 'shutil.copy', 'shutil.move', 'shutil.copyfile',
    'shutil.rmtree', 'anndata.read_h5ad', 'os.remove', 'os.unlink',
    'anndata.experimental.read_elem', 'anndata.experimental.write_elem',
    'anndata.io.read_elem', 'anndata.io.write_elem', 'pandas.read_csv'}


def strip_identity(db, fi, e):
    """peel pathlib.Path(x) / str(x) / x.resolve() wrappers"""
    while True:
        if isinstance(e, ast.Call):
            t = resolve_callee(db, fi, e)
            if ext_name(t) in IDENTITY and e.args:
                e = e.args[0]
                continue
            if isinstance(e.func, ast.Attribute) and e.func.attr in (
                    'resolve', 'absolute', 'expanduser') and not e.args:
                e = e.func.value
                continue
        return e


class Acquisition(object):
    def __init__(self, fi, call, kind):
        self.fi = fi
        self.call = call
        self.kind = kind              # 'dir' | 'file'
        self.bound = None             # ('var', name, stmt) | ('self', attr,
        #                               stmt) | ('return', stmt) | None
        self.dir_expr = None

    @property
    def key(self):
        b = ''
        if self.bound:
            b = self.bound[1] if self.bound[0] in ('var', 'self') else \
                'return'
            if self.bound[0] == 'self':
                b = 'self.' + b
        fn = 'mkdtemp' if self.kind == 'dir' else 'mkstemp_clean'
        return f'{self.fi.qual}:{b}={fn}(dir={unparse(self.dir_expr)})'


def find_acquisitions(db, in_scope=None):
    out = []
    for fi in db.iter_functions(in_scope):
        for n in ast.walk(fi.node):
            if not isinstance(n, ast.Call):
                continue
            if _owner_fn(n) is not fi.node:
                continue
            t = resolve_callee(db, fi, n)
            kind = None
            if ext_name(t) == 'tempfile.mkdtemp':
                kind = 'dir'
            elif isinstance(t, FunctionInfo) and t.qual == MKSTEMP_FN:
                kind = 'file'
            if kind is None:
                continue
            a = Acquisition(fi, n, kind)
            for kw in n.keywords:
                if kw.arg == 'dir':
                    a.dir_expr = kw.value
            if a.dir_expr is None and kind == 'dir' and len(n.args) >= 3:
                a.dir_expr = n.args[2]
            if a.dir_expr is None and kind == 'file' and n.args:
                a.dir_expr = n.args[0]
            # binding
            cur = n
            par = getattr(cur, '_parent', None)
            while isinstance(par, ast.Call) and cur in par.args:
                t2 = resolve_callee(db, fi, par)
                if ext_name(t2) in IDENTITY:
                    cur = par
                    par = getattr(cur, '_parent', None)
                else:
                    break
            if isinstance(par, ast.Assign) and par.value is cur \
                    and len(par.targets) == 1:
                tg = par.targets[0]
                if isinstance(tg, ast.Name):
                    a.bound = ('var', tg.id, par)
                elif isinstance(tg, ast.Attribute) and isinstance(
                        tg.value, ast.Name) and tg.value.id == 'self':
                    a.bound = ('self', tg.attr, par)
            elif isinstance(par, ast.Return):
                a.bound = ('return', None, par)
            out.append(a)
    return out


def _owner_fn(n):
    p = getattr(n, '_parent', None)
    while p is not None and not isinstance(p, (ast.FunctionDef,
                                               ast.AsyncFunctionDef)):
        p = getattr(p, '_parent', None)
    return p


def definite_raiser(db, fi, node, cfg):
    """can this CFG node definitely fail (explicit raise, call into the
    package, or an I/O external)?"""
    if node.kind == 'raise':
        return True
    for c in cfg.calls_in(node):
        t = resolve_callee(db, fi, c)
        if isinstance(t, FunctionInfo) and t.qual == CLEANUP_FN:
            # a failing release is outside what the property speaks of
            continue
        if isinstance(t, (FunctionInfo, ClassInfo)):
            return True
        if ext_name(t) in IO_EXTERNALS:
            return True
        if isinstance(c.func, ast.Attribute) and c.func.attr in (
                'error', 'unlink', 'create_dataset', 'write', 'read'):
            return True
    return False


class TempDirChecker(object):

    def __init__(self, ctx, entry_exc_roots=()):
        self.ctx = ctx
        self.db = ctx.db
        self.cg = ctx.cg
        self._released_cache = dict()
        self._stack = set()

    # -- derived definitions ------------------------------------------------
    def _derived_defs(self, fi, stmt):
        """ids of Defs in fi that hold the value acquired at `stmt`
        (transitively through identity wrappers and plain copies)"""
        rd = rd_of(fi)
        db = self.db
        derived = set()
        for d in rd.defs:
            if d.stmt is stmt and d.kind == 'assign':
                derived.add(d.id)
        changed = True
        while changed:
            changed = False
            for d in rd.defs:
                if d.id in derived or d.kind != 'assign' or d.path:
                    continue
                v = strip_identity(db, fi, d.value)
                if isinstance(v, ast.Name):
                    rds = rd.reaching(v.id, d.node)
                    if rds and all(x.id in derived for x in rds):
                        derived.add(d.id)
                        changed = True
        return derived

    def _arg_hits(self, fi, e, nid, derived):
        """does expression e (at cfg node nid) denote a derived value?"""
        rd = rd_of(fi)
        v = strip_identity(self.db, fi, e)
        if isinstance(v, ast.Name):
            rds = rd.reaching(v.id, nid)
            return any(x.id in derived for x in rds)
        return False

    def _release_nodes(self, fi, derived, self_attr=None):
        """cfg node ids at which a derived value is released / handed over"""
        db = self.db
        cfg = cfg_of(fi)
        rd = rd_of(fi)
        out = dict()
        for node in cfg.nodes:
            if node.id not in rd.live:
                continue
            for c in cfg.calls_in(node):
                t = resolve_callee(db, fi, c)
                nm = ext_name(t)
                args = []
                if isinstance(t, FunctionInfo) and t.qual == CLEANUP_FN:
                    args = list(c.args) + [k.value for k in c.keywords]
                elif nm in ('shutil.rmtree', 'os.remove', 'os.unlink',
                            'os.rmdir'):
                    args = c.args[:1]
                elif nm == 'shutil.move':
                    args = [a for a in (c.args[:1] + [
                        k.value for k in c.keywords if k.arg == 'src'])]
                elif isinstance(c.func, ast.Attribute) and c.func.attr in (
                        'unlink', 'rmdir') and not isinstance(
                            t, FunctionInfo):
                    args = [c.func.value]
                for a in args:
                    if self_attr is not None and isinstance(
                            a, ast.Attribute) and isinstance(
                                a.value, ast.Name) and a.value.id == 'self' \
                            and a.attr == self_attr:
                        out[node.id] = 'release'
                    elif self._arg_hits(fi, a, node.id, derived):
                        out[node.id] = 'release'
            if node.kind == 'return' and node.ast.value is not None:
                for sub in ast.walk(node.ast.value):
                    if isinstance(sub, ast.Name) and self._arg_hits(
                            fi, sub, node.id, derived):
                        out[node.id] = 'returned'
        return out

    def _none_pruner(self, fi, derived):
        """edge filter: after the acquisition the variable is not None"""
        cfg = cfg_of(fi)
        rd = rd_of(fi)

        def verdict(test, nid):
            # returns True/False if decided, None otherwise
            if isinstance(test, ast.UnaryOp) and isinstance(test.op,
                                                            ast.Not):
                v = verdict(test.operand, nid)
                return None if v is None else (not v)
            if isinstance(test, ast.Name):
                if self._arg_hits(fi, test, nid, derived):
                    return True
                return None
            if isinstance(test, ast.Compare) and len(test.ops) == 1 \
                    and isinstance(test.comparators[0], ast.Constant) \
                    and test.comparators[0].value is None:
                if self._arg_hits(fi, test.left, nid, derived):
                    if isinstance(test.ops[0], (ast.IsNot, ast.NotEq)):
                        return True
                    if isinstance(test.ops[0], (ast.Is, ast.Eq)):
                        return False
            return None

        def edge_ok(a, b, lab):
            n = cfg.nodes[a]
            if n.kind == 'if' and lab in ('true', 'false'):
                v = verdict(n.ast.test, a)
                if v is True and lab == 'false':
                    return False
                if v is False and lab == 'true':
                    return False
            return True
        return edge_ok

    # -- the in-frame check ---------------------------------------------------
    def in_frame(self, acq, mode):
        """(ok, witness path or None, how)"""
        fi = acq.fi
        db = self.db
        cfg = cfg_of(fi)
        rd = rd_of(fi)
        if acq.bound is None:
            return False, None, 'value is not bound to a name'
        if acq.bound[0] == 'return':
            return True, None, 'returned to the caller'
        stmt = acq.bound[2]
        nodes = [n for n in cfg.nodes_of(stmt) if n.id in rd.live]
        if not nodes:
            return True, None, 'unreachable'
        if acq.bound[0] == 'self':
            # owner object: its class must release the attribute in __del__
            cls = fi.cls
            ok = False
            if cls is not None:
                d = db.find_method(cls, '__del__')
                if d is not None:
                    rel = self._release_nodes(d, set(),
                                              self_attr=acq.bound[1])
                    ok = bool(rel)
                    # nested temp file under a released self attr
            if ok:
                return True, None, f'owned by {cls.name}, released in ' \
                                   '__del__'
            # file under a directory attribute that __del__ releases
            if cls is not None and acq.dir_expr is not None \
                    and isinstance(acq.dir_expr, ast.Attribute) \
                    and isinstance(acq.dir_expr.value, ast.Name) \
                    and acq.dir_expr.value.id == 'self':
                d = db.find_method(cls, '__del__')
                if d is not None and self._release_nodes(
                        d, set(), self_attr=acq.dir_expr.attr):
                    return True, None, (
                        f'under self.{acq.dir_expr.attr}, which '
                        f'{cls.name}.__del__ releases')
            return False, None, ('stored on self but the class has no '
                                 '__del__ releasing it')
        derived = self._derived_defs(fi, stmt)
        # parent acquisitions in the same frame
        parents = set()
        if acq.dir_expr is not None:
            v = strip_identity(db, fi, acq.dir_expr)
            if isinstance(v, ast.Name):
                # every acquisition of this frame with the definitions
                # that hold its value (through copies / Path() wrappers)
                frame_acqs = []
                for d0 in rd.defs:
                    if d0.kind == 'assign' and d0.stmt is not None \
                            and _is_acquisition_value(db, fi, d0.value):
                        frame_acqs.append(self._derived_defs(fi, d0.stmt))
                for n in nodes:
                    for d in rd.reaching(v.id, n.id):
                        for ds in frame_acqs:
                            if d.id in ds:
                                parents |= ds
            elif isinstance(v, ast.Attribute) and isinstance(
                    v.value, ast.Name) and v.value.id == 'self' \
                    and fi.cls is not None:
                d = db.find_method(fi.cls, '__del__')
                if d is not None and self._release_nodes(
                        d, set(), self_attr=v.attr):
                    return True, None, (f'under self.{v.attr}, released in '
                                        f'{fi.cls.name}.__del__')
        rel = self._release_nodes(fi, derived | parents)
        prune = self._none_pruner(fi, derived)
        exits = {cfg.exit}
        if mode == 'EXC':
            exits = {cfg.exit, cfg.exc_exit}

        def edge_ok(a, b, lab):
            if not prune(a, b, lab):
                return False
            if lab == 'exc':
                if mode != 'EXC':
                    return False
                return definite_raiser(db, fi, cfg.nodes[a], cfg)
            return True
        for n in nodes:
            # the acquisition itself failing is not a leak
            starts = [t for (t, lab) in cfg.succ[n.id] if lab != 'exc']
            for s in starts:
                if s in rel:
                    continue
                if s in exits:
                    return False, [n.id, s], 'in-frame'
                p = cfg.path(s, exits, avoid=lambda x: x.id in rel,
                             edge_ok=edge_ok)
                if p is not None:
                    return False, [n.id] + p, 'in-frame'
        how = 'released in this frame on every path'
        if any(v == 'returned' for v in rel.values()):
            how = 'released or returned on every path'
        return True, None, how

    # -- inheritance -----------------------------------------------------------
    def released(self, acq, mode, allowed_callers=None):
        """(ok, detail, witness)"""
        ok, wit, how = self.in_frame(acq, mode)
        if ok:
            return True, how, None
        fi = acq.fi
        cfg = cfg_of(fi)
        witness = cfg.fmt_path(wit) if wit else []
        # nested under a directory parameter that every caller releases?
        if acq.dir_expr is None:
            return False, 'no dir= argument: created in the system temp ' \
                          'directory and ' + how, witness
        roots = self._param_roots(fi, acq.dir_expr, acq)
        if not roots:
            return False, (f'not released on every {mode} path and '
                           f'`dir={unparse(acq.dir_expr)}` is not a '
                           'directory owned by a caller'), witness
        for p in roots:
            ok2, why = self.param_released(fi, p, mode, allowed_callers)
            if not ok2:
                return False, (f'not released in this frame on every '
                               f'{mode} path, and the parent directory '
                               f'parameter `{p}` is not released by every '
                               f'caller: {why}'), witness
        return True, (f'nested under parameter '
                      f'`{"/".join(sorted(roots))}`, which every caller '
                      'releases'), None

    def _param_roots(self, fi, e, acq):
        """parameters of fi whose value the dir expression denotes"""
        rd = rd_of(fi)
        cfg = cfg_of(fi)
        v = strip_identity(self.db, fi, e)
        out = set()
        if isinstance(v, ast.Name):
            stmt = acq.bound[2] if acq.bound and acq.bound[0] != 'return' \
                else None
            nodes = cfg.node_of_expr(v)
            for n in nodes:
                if n.id not in rd.live:
                    continue
                for d in rd.reaching(v.id, n.id):
                    if d.kind == 'param':
                        out.add(d.name)
                    elif d.kind == 'assign':
                        vv = strip_identity(self.db, fi, d.value)
                        if isinstance(vv, ast.Name):
                            for d2 in rd.reaching(vv.id, d.node):
                                if d2.kind == 'param':
                                    out.add(d2.name)
                                else:
                                    return set()
                        elif isinstance(vv, ast.Constant) \
                                and vv.value is None:
                            continue
                        else:
                            return set()
                    else:
                        return set()
        return out

    def param_released(self, fi, param, mode, allowed_callers=None,
                       depth=0):
        """does every caller of fi release the directory it passes as
        `param`?  (ok, reason)"""
        key = (fi.qual, param, mode,
               None if allowed_callers is None else id(allowed_callers))
        if key in self._released_cache:
            return self._released_cache[key]
        if key in self._stack or depth > 8:
            return True, 'recursive'
        self._stack.add(key)
        try:
            res = self._param_released(fi, param, mode, allowed_callers,
                                       depth)
        finally:
            self._stack.discard(key)
        self._released_cache[key] = res
        return res

    def _callers(self, fi):
        """(caller FunctionInfo, call node, arg mapping)"""
        db = self.db
        out = []
        target_qual = fi.qual
        for q, sites in self.cg.sites.items():
            cfi = db.functions.get(q)
            if cfi is None:
                continue
            for (call, t) in sites:
                if t is not fi:
                    continue
                pt = process_target(db, cfi, call)
                if pt is not None and pt[0] is fi:
                    mapping = pt[1] if isinstance(pt[1], dict) else {}
                else:
                    mapping, _ = bind_args(fi, call)
                out.append((cfi, call, mapping))
        return out

    def _param_released(self, fi, param, mode, allowed_callers, depth):
        callers = self._callers(fi)
        if fi.name == '__init__' and fi.cls is not None:
            pass
        if allowed_callers is not None:
            callers = [c for c in callers if c[0].qual in allowed_callers]
        if not callers:
            return False, (f'{fi.qual} has no caller in the package: '
                           f'`{param}` is the scratch directory the user '
                           'gave')
        for (cfi, call, mapping) in callers:
            a = mapping.get(param)
            if a is None:
                d = fi.defaults.get(param)
                if d is not None and isinstance(d, ast.Constant) \
                        and d.value is None:
                    continue
                return False, (f'{cfi.qual} L{call.lineno} does not pass '
                               f'`{param}`')
            ok, why = self.arg_released(cfi, call, a, mode,
                                        allowed_callers, depth)
            if not ok:
                return False, (f'{cfi.qual} L{call.lineno} passes '
                               f'`{unparse(a)}`: {why}')
        return True, 'all callers release it'

    def arg_released(self, cfi, call, a, mode, allowed_callers, depth):
        db = self.db
        rd = rd_of(cfi)
        cfg = cfg_of(cfi)
        v = strip_identity(db, cfi, a)
        if isinstance(v, ast.Constant) and v.value is None:
            return True, 'None'
        if isinstance(v, ast.Attribute) and isinstance(v.value, ast.Name) \
                and v.value.id == 'self' and cfi.cls is not None:
            d = db.find_method(cfi.cls, '__del__')
            if d is not None and self._release_nodes(d, set(),
                                                     self_attr=v.attr):
                return True, f'self.{v.attr} released in __del__'
            return False, f'self.{v.attr} is never released'
        if not isinstance(v, ast.Name):
            return False, 'a scratch root taken from the configuration'
        nodes = [n for n in cfg.node_of_expr(v) if n.id in rd.live]
        for n in nodes:
            for d in rd.reaching(v.id, n.id):
                if d.kind == 'param':
                    ok, why = self.param_released(cfi, d.name, mode,
                                                  allowed_callers, depth+1)
                    if not ok:
                        return False, why
                elif d.kind == 'assign':
                    vv = strip_identity(db, cfi, d.value)
                    if isinstance(vv, ast.Constant) and vv.value is None:
                        continue
                    if _is_acquisition_value(db, cfi, d.value):
                        acq = _acq_from_stmt(db, cfi, d.stmt)
                        if acq is None:
                            return False, 'unrecognised acquisition'
                        ok, how, _w = self.released(acq, mode,
                                                    allowed_callers)
                        if not ok:
                            return False, (f'`{d.name}` acquired at '
                                           f'L{d.stmt.lineno} is itself not '
                                           f'released on every {mode} path')
                    elif isinstance(vv, ast.Name):
                        ok, why = self.arg_released(
                            cfi, call, vv, mode, allowed_callers, depth+1)
                        if not ok:
                            return False, why
                    else:
                        return False, (f'`{unparse(d.value)}` is a scratch '
                                       'root taken from the configuration')
                else:
                    return False, f'`{v.id}` bound by {d.kind}'
        return True, 'released by the caller'


def _is_acquisition_value(db, fi, value):
    v = strip_identity(db, fi, value)
    if isinstance(v, ast.Call):
        t = resolve_callee(db, fi, v)
        if ext_name(t) == 'tempfile.mkdtemp':
            return True
        if isinstance(t, FunctionInfo) and t.qual == MKSTEMP_FN:
            return True
    return False


def _acq_from_stmt(db, fi, stmt):
    for a in find_acquisitions(db, lambda m: m is fi.module):
        if a.fi is fi and a.bound and a.bound[0] != 'return' \
                and a.bound[2] is stmt:
            return a
    return None
