"""
Record-key extraction for the per-cell / per-level result records
(dicts keyed by constant strings that travel through JSON, CSV and HDF5).
"""
import ast

from ..core.cfg import cfg_of
from ..core.defuse import rd_of, Expander
from ..core import terms as T
from ..core.loader import unparse


def _const_key(e):
    if isinstance(e, ast.Constant) and isinstance(e.value, str):
        return e.value
    return None


def level_record_reads(fi):
    """{key: ast} for constant keys read as X[<non-const>]['key'] (a field
    of a per-level record) and, under the pseudo level '<cell>', keys read
    as X['key'] from what is subscripted elsewhere by a non-constant
    level"""
    out = dict()
    for n in ast.walk(fi.node):
        if isinstance(n, ast.Subscript) and isinstance(n.ctx, ast.Load):
            k = _const_key(n.slice)
            if k is None:
                continue
            b = n.value
            if isinstance(b, ast.Subscript) and _const_key(b.slice) is None \
                    and not isinstance(b.slice, ast.Slice):
                out.setdefault(k, n)
        if isinstance(n, ast.Compare) and len(n.ops) == 1 and isinstance(
                n.ops[0], (ast.In, ast.NotIn)):
            # 'key' in X[level]  -- an optional read
            pass
    return out


def level_record_writes(fi):
    """{key: ast} for constant keys written into a per-level record:
    dict literals stored as X[i][level] = {...}, stores X[level]['k'] = v,
    and stores R['k'] = v where R is later stored as X[level] = R"""
    out = dict()
    record_vars = set()
    for n in ast.walk(fi.node):
        if isinstance(n, ast.Assign):
            for t in n.targets:
                if isinstance(t, ast.Subscript) and _const_key(
                        t.slice) is None and isinstance(n.value, ast.Name):
                    record_vars.add(n.value.id)
    for n in ast.walk(fi.node):
        if not isinstance(n, ast.Assign):
            continue
        for t in n.targets:
            if not isinstance(t, ast.Subscript):
                continue
            k = _const_key(t.slice)
            if k is None:
                # X[..][level] = {...}
                if isinstance(n.value, ast.Dict) and isinstance(
                        t.value, ast.Subscript):
                    for kk in n.value.keys:
                        ck = _const_key(kk)
                        if ck is not None:
                            out.setdefault(ck, n)
                continue
            b = t.value
            if isinstance(b, ast.Subscript) and _const_key(b.slice) is None:
                # X[level]['k'] = v creates the key unless the function
                # also reads that key (then it only rewrites a field that
                # must already exist)
                if not _reads_key(fi, k):
                    out.setdefault(k, n)
            elif isinstance(b, ast.Name) and b.id in record_vars:
                out.setdefault(k, n)           # R['k'] = v ; X[level] = R
    return out


def _reads_key(fi, k):
    for n in ast.walk(fi.node):
        if isinstance(n, ast.Subscript) and isinstance(n.ctx, ast.Load) \
                and _const_key(n.slice) == k:
            return True
    return False


def cell_record_keys_written(fi):
    """keys stored directly on the per-cell record: X[i]['k'] = v"""
    out = dict()
    for n in ast.walk(fi.node):
        if isinstance(n, ast.Assign):
            for t in n.targets:
                if isinstance(t, ast.Subscript) and _const_key(t.slice) \
                        and isinstance(t.value, ast.Subscript) \
                        and _const_key(t.value.slice) is None \
                        and not _reads_key(fi, _const_key(t.slice)):
                    out.setdefault(_const_key(t.slice), n)
    return out


def record_keys_in_term(term):
    """constant keys K occurring as  X[<non-const>]['K']  in a term"""
    out = set()
    for x in subterms_no_counters(term):
        if x[0] == 'sub' and x[2][0] == 'const' and x[2][1].startswith("'"):
            b = x[1]
            if b[0] == 'sub' and b[2][0] != 'const':
                out.add(x[2][1].strip("'"))
    return out


def subterms_no_counters(t):
    """sub-terms, not descending into loop counters (elements of a
    range(...) / enumerate index), whose provenance is positional only"""
    stack = [t]
    while stack:
        x = stack.pop()
        if isinstance(x, frozenset):
            stack.extend(x)
            continue
        if not isinstance(x, tuple):
            continue
        if x and x[0] == 'iterelem' and T.call_name(x[1]) == 'range':
            continue
        if x and isinstance(x[0], str):
            yield x
        for y in x:
            if isinstance(y, (tuple, frozenset)):
                stack.append(y)
