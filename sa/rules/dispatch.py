"""
R-EXH: dispatch on the closed vocabulary of anndata `encoding-type`
values is folded for each member by conditional constant propagation.
"""
import ast

from ..core.cfg import cfg_of
from ..core.constprop import feasible, UNKNOWN
from ..core.defuse import rd_of
from ..core.loader import unparse

ENCODINGS = ('array', 'csr_matrix', 'csc_matrix')


def _is_enc_subscript(e):
    return (isinstance(e, ast.Subscript)
            and isinstance(e.slice, ast.Constant)
            and e.slice.value == 'encoding-type')


def mentions_encoding(fi):
    for n in ast.walk(fi.node):
        if _is_enc_subscript(n) and isinstance(n.ctx, ast.Load):
            return True
    return False


def fold(fi, member, extra=None):
    """feasible CFG region of fi when the encoding-type attribute read in
    fi has the value `member` (and is present)"""
    def assume(e, env):
        if _is_enc_subscript(e):
            return member
        if isinstance(e, ast.Compare) and len(e.ops) == 1 and isinstance(
                e.left, ast.Constant) and e.left.value == 'encoding-type':
            if isinstance(e.ops[0], ast.In):
                return True
            if isinstance(e.ops[0], ast.NotIn):
                return False
        if extra is not None:
            return extra(e, env)
        return UNKNOWN
    return feasible(fi, assume, follow_exc=False)


def dispatch_tests(fi):
    """`if` nodes whose test depends on the encoding value"""
    cfg = cfg_of(fi)
    rd = rd_of(fi)
    enc_vars = set()
    for n in ast.walk(fi.node):
        if isinstance(n, ast.Assign) and _is_enc_subscript(n.value):
            for t in n.targets:
                if isinstance(t, ast.Name):
                    enc_vars.add(t.id)
    out = []
    for node in cfg.nodes:
        if node.kind != 'if' or node.id not in rd.live:
            continue
        dep = False
        for sub in ast.walk(node.ast.test):
            if _is_enc_subscript(sub):
                dep = True
            if isinstance(sub, ast.Name) and sub.id in enc_vars:
                dep = True
        if dep:
            out.append(node)
    return out


def check_total_dispatch(ctx, fi, rule, members=ENCODINGS, label=None):
    """every member reaches a normal continuation: it is not forced into
    a raise"""
    ctx.touch(fi)
    cfg = cfg_of(fi)
    tests = dispatch_tests(fi)
    label = label or fi.qual
    if not tests:
        ctx.fail(rule, f'{label}:dispatch', fi.loc(),
                 'no test of the encoding-type value found in a function '
                 'listed as an encoding dispatcher')
        return {}
    regions = dict()
    for m in members:
        f = fold(fi, m)
        regions[m] = f
        ok = cfg.exit in f.nodes
        # which arm: the dispatch tests whose true edge is feasible
        arms = sorted(n.lineno for n in tests
                      if any(a == n.id and lab == 'true'
                             for (a, b, lab) in f.edges))
        ctx.ob(rule, f'{label}:{m}', fi.loc(), ok,
               f"encoding '{m}' reaches a normal continuation (arms taken "
               f'at lines {arms})' if ok else
               f"encoding '{m}' can only end in a raise: this encoding is "
               'not handled',
               witness=[f'dispatch tests at lines '
                        f'{sorted(n.lineno for n in tests)}'])
    return regions


def feasible_calls(fi, region, name):
    """is a call whose callee text ends with `name` in the feasible
    region?"""
    cfg = cfg_of(fi)
    for nid in region.nodes:
        node = cfg.nodes[nid]
        for c in cfg.calls_in(node):
            t = unparse(c.func)
            if t == name or t.endswith('.' + name):
                return True
    return False
