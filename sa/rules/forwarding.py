"""
R-FWD/parameter-forwarded: a setting travels down the call chain.

The pipeline hands its settings (normalization, bootstrap_iteration, rng,
n_processors, tmp_dir, layer, ...) from the command-line front end down to
the workers through parameters that keep their name at every level, and
almost every callee gives such a parameter a default.  A call that omits a
setting its caller holds does not fail: the callee silently falls back to
its default (normalization='log2CPM', n_assignments=10, tmp_dir=None, ...)
and the run proceeds with a configuration other than the requested one.

The rule: where the caller has a parameter p (in the given set of names)
and the callee has a parameter p with a default, the call binds p --
positionally, by keyword, or through a `**settings` dict whose literal
lists it.  Calls that expand a dict the analysis cannot see into are not
judged.
"""
import ast

from ..core.defuse import rd_of
from ..core.cfg import cfg_of
from ..core.loader import FunctionInfo, unparse
from ..core.resolve import resolve_callee, bind_args


def _defaults(t):
    a = t.node.args
    pos = [x.arg for x in a.posonlyargs + a.args]
    out = dict(zip(pos[len(pos) - len(a.defaults):], a.defaults))
    for x, dv in zip(a.kwonlyargs, a.kw_defaults):
        if dv is not None:
            out[x.arg] = dv
    return out


def _star_keys(fi, call):
    """keys supplied through **name where name is a dict literal with
    constant keys (possibly extended by name['k'] = ...); None if some
    expansion cannot be resolved"""
    rd = rd_of(fi)
    cfg = cfg_of(fi)
    keys = set()
    for k in call.keywords:
        if k.arg is not None:
            continue
        v = k.value
        if isinstance(v, ast.Dict):
            if not all(isinstance(x, ast.Constant) for x in v.keys):
                return None
            keys |= {x.value for x in v.keys}
            continue
        if not isinstance(v, ast.Name):
            return None
        ns = [x for x in cfg.node_of_expr(call) if x.id in rd.live]
        if not ns:
            return None
        for d in rd.reaching(v.id, ns[0].id):
            dv = getattr(d, 'value', None)
            if d.kind == 'assign' and isinstance(dv, ast.Dict) and all(
                    isinstance(x, ast.Constant) for x in dv.keys):
                keys |= {x.value for x in dv.keys}
            elif d.kind == 'assign' and isinstance(dv, ast.Call) \
                    and isinstance(dv.func, ast.Name) \
                    and dv.func.id == 'dict' and not dv.args:
                keys |= {kw.arg for kw in dv.keywords if kw.arg}
            else:
                return None
        for (mn, astn, how) in rd.mutations(v.id):
            if isinstance(astn, ast.Assign):
                tg = astn.targets[0]
                if isinstance(tg, ast.Subscript) and isinstance(
                        tg.slice, ast.Constant):
                    keys.add(tg.slice.value)
                else:
                    return None
            elif isinstance(astn, ast.Call):
                return None
    return keys


# names that are run settings (scalars / switches chosen by the user), as
# opposed to data that is legitimately transformed on the way down
SETTINGS = {
    'bootstrap_iteration', 'bootstrap_factor', 'bootstrap_factor_lookup',
    'n_assignments', 'normalization', 'rng', 'n_per_utility',
    'genes_at_a_time', 'p_th', 'q1_th', 'qdiff_th', 'log2_fold_th',
    'q1_min_th', 'qdiff_min_th', 'log2_fold_min_th', 'n_valid',
    'exact_penetrance', 'drop_level', 'flatten', 'layer', 'round_to_int',
    'n_processors', 'chunk_size', 'rows_at_a_time', 'max_gb', 'cloud_safe',
    'behemoth_cutoff', 'n_per_utility_override', 'min_markers', 'boring_t',
    'big_nu', 'expected_max', 'tmp_dir', 'row_chunk_size',
}


def check_forwarding(ctx, names, rule='R-FWD/parameter-forwarded',
                     in_scope=None):
    db = ctx.db
    n = 0
    for fi in db.iter_functions(in_scope):
        if fi.module.short.startswith(('gpu_utils', 'corr.')):
            continue
        fparams = (set(fi.params) - {'self', 'cls'}) & set(names)
        if not fparams:
            continue
        for c in ast.walk(fi.node):
            if not isinstance(c, ast.Call):
                continue
            t = resolve_callee(db, fi, c)
            if not isinstance(t, FunctionInfo) or t is fi:
                continue
            dflt = _defaults(t)
            cand = [p for p in dflt if p in fparams]
            if not cand:
                continue
            if any(isinstance(a, ast.Starred) for a in c.args):
                continue
            star = None
            if any(k.arg is None for k in c.keywords):
                star = _star_keys(fi, c)
                if star is None:
                    continue
            try:
                mapping, _ = bind_args(t, c)
            except Exception:
                continue
            for p in cand:
                n += 1
                bound = mapping.get(p) is not None or (
                    star is not None and p in star)
                ctx.touch(fi)
                ctx.ob(rule, f'{fi.qual}->{t.qual}:{p}', fi.loc(c), bound,
                       f'`{p}` is handed on to {t.name}' if bound else
                       f'{fi.name} holds `{p}` but calls {t.name} without '
                       f'it: {t.name} falls back to its default '
                       f'`{p}={unparse(dflt[p])[:30]}`, whatever the '
                       'caller was asked to use')
    # ... and a setting is not replaced on the way (see below)
    n += check_settings_not_rebound(ctx, set(names) & SETTINGS,
                                    in_scope=in_scope)
    # workers started with Process(target=f, kwargs={...}): the same
    # obligation for the literal kwargs
    from . import workers as W
    for site in W.find_spawn_sites(db, in_scope):
        fi = site.fi
        if fi.module.short.startswith(('gpu_utils', 'corr.')):
            continue
        if site.target is None or site.kwargs is None:
            continue
        fparams = (set(fi.params) - {'self', 'cls'}) & set(names)
        dflt = _defaults(site.target)
        for p in [q for q in dflt if q in fparams]:
            n += 1
            bound = p in site.kwargs
            ctx.touch(fi)
            ctx.ob(rule, f'{fi.qual}=>{site.target.qual}:{p}',
                   fi.loc(site.call), bound,
                   f'`{p}` is handed to the worker {site.target.name}'
                   if bound else
                   f'{fi.name} holds `{p}` but starts the worker '
                   f'{site.target.name} without it: the worker falls back '
                   f'to its default `{p}={unparse(dflt[p])[:30]}`')
    return n


def check_settings_not_rebound(ctx, names, rule='R-FWD/setting-not-rebound',
                               in_scope=None):
    """a run setting that a function receives (bootstrap_iteration,
    bootstrap_factor, normalization, n_per_utility, ...) is what the run
    was asked to use.  Inside the pipeline it may be normalised (`p =
    int(p)`, `p = pathlib.Path(p)`) or defaulted (`if p is None: p = ...`),
    but not replaced by another value on some condition: the run then
    silently uses a setting nobody asked for."""
    from ..core.guards import none_facts
    db = ctx.db
    n = 0
    for fi in db.iter_functions(in_scope):
        if fi.module.short.startswith(('gpu_utils', 'corr.')):
            continue
        fparams = (set(fi.params) - {'self', 'cls'}) & set(names)
        if not fparams:
            continue
        cfg = rd = None
        for st in ast.walk(fi.node):
            tgt = None
            if isinstance(st, ast.Assign) and len(st.targets) == 1 \
                    and isinstance(st.targets[0], ast.Name):
                tgt, val = st.targets[0].id, st.value
            elif isinstance(st, ast.AugAssign) and isinstance(
                    st.target, ast.Name):
                tgt, val = st.target.id, None
            if tgt not in fparams:
                continue
            n += 1
            ok = False
            if val is not None and any(
                    isinstance(x, ast.Name) and x.id == tgt
                    for x in ast.walk(val)):
                ok = True           # derived from itself
            if not ok and val is not None:
                # ... possibly through a local
                from ..core.slicing import backward_slice
                if cfg is None:
                    cfg = cfg_of(fi)
                    rd = rd_of(fi)
                ns0 = [x for x in cfg.nodes_of(st) if x.id in rd.live]
                if ns0:
                    sl = backward_slice(fi, val, ns0[0].id)
                    ok = tgt in sl.params or tgt in sl.names
            if not ok and val is not None:
                if cfg is None:
                    cfg = cfg_of(fi)
                    rd = rd_of(fi)
                ns = [x for x in cfg.nodes_of(st) if x.id in rd.live]
                if ns:
                    is_none, _nn = none_facts(cfg, rd, ns[0].id)
                    ok = any(isinstance(e, ast.Name) and e.id == tgt
                             for e in is_none)
                else:
                    ok = True       # dead code
            ctx.touch(fi)
            ctx.ob(rule, f'{fi.qual}:{tgt}#{n - 1}', fi.loc(st), ok,
                   f'`{tgt}` is only normalised or defaulted' if ok else
                   f'`{unparse(st)[:60]}` replaces the setting `{tgt}` the '
                   f'function was given: from here on the run uses '
                   'another value than the one it was asked to use')
    return n


CONFIGURED = {
    # callee keyword -> path below `config` it has to be, symbolically
    'n_processors': ('type_assignment', 'n_processors'),
    'chunk_size': ('type_assignment', 'chunk_size'),
    'bootstrap_iteration': ('type_assignment', 'bootstrap_iteration'),
    'normalization': ('type_assignment', 'normalization'),
    'min_markers': ('type_assignment', 'min_markers'),
    'max_gb': ('max_gb',),
}


def check_config_settings_as_requested(
        ctx, names, fn_qual='cli.from_specified_markers:_run_mapping',
        rule='R-FWD/config-as-requested'):
    """the mapping front end hands the stages the settings of the run as
    they stand in the configuration: the symbolic value of each such
    keyword argument is exactly `config[...][name]` on every path -- no
    second alternative, no default, no adjustment computed from the data
    in between (the record written to the outputs is the configuration,
    and the property quantifies over what was asked for)."""
    from ..core.defuse import Expander, fmt_term
    db = ctx.db
    fi = db.fn(fn_qual)
    ctx.touch(fi)
    cfg = cfg_of(fi)
    rd = rd_of(fi)
    ex = Expander(fi)
    n = 0
    for node in cfg.nodes:
        if node.id not in rd.live:
            continue
        for c in cfg.calls_in(node):
            t = resolve_callee(db, fi, c)
            if not isinstance(t, FunctionInfo):
                continue
            for kw in c.keywords:
                if kw.arg not in names or kw.arg not in CONFIGURED \
                        or kw.arg not in t.params:
                    continue
                want = ('param', 'config')
                for k in CONFIGURED[kw.arg]:
                    want = ('sub', want, ('const', repr(k)))
                term = ex.expand(kw.value, node.id)
                n += 1
                ok = term == want
                ctx.ob(rule, f'{fi.name}:{t.name}:{kw.arg}', fi.loc(c), ok,
                       f'`{kw.arg}` is the configured value' if ok else
                       f'`{kw.arg}={unparse(kw.value)[:30]}` handed to '
                       f'{t.name} is {fmt_term(term)[:80]}, not the '
                       'configured '
                       + ''.join(f"[{k!r}]" for k in CONFIGURED[kw.arg])
                       + ': on some path the stage runs with a setting '
                       'that was not asked for')
    return n


def check_keywords_not_crossed(ctx, fi, rule='R-FWD/keyword-not-crossed'):
    """in a call with keywords (or a dict of keyword arguments for a
    worker) where one slot is named like a local that is handed over in the
    same call, each such slot gets its namesake: `q1_min_th=q1_min_th,
    qdiff_min_th=q1_min_th` hands the worker one threshold twice and drops
    the other."""
    import ast
    n = 0
    for c in ast.walk(fi.node):
        pairs = []
        if isinstance(c, ast.Call) and c.keywords:
            pairs = [(k.arg, k.value) for k in c.keywords
                     if k.arg is not None]
        elif isinstance(c, ast.Dict) and c.keys and all(
                isinstance(k, ast.Constant) and isinstance(k.value, str)
                for k in c.keys):
            pairs = [(k.value, v) for k, v in zip(c.keys, c.values)]
        if len(pairs) < 2:
            continue
        slots = {k for k, _ in pairs}
        for k, v in pairs:
            if not isinstance(v, ast.Name):
                continue
            # both the slot and the value name something handed over here
            if v.id in slots and any(
                    isinstance(v2, ast.Name) and v2.id == v.id
                    for k2, v2 in pairs if k2 == v.id):
                n += 1
                ok = v.id == k
                ctx.touch(fi)
                if not ok and any(
                        k2 == v.id and isinstance(v2, ast.Name)
                        and v2.id == k for k2, v2 in pairs):
                    # a deliberate exchange (n_rows=n_cols, n_cols=n_rows:
                    # the transposed view): both values are handed over
                    continue
                if not ok:
                    # ... and the caller has a value of that name to give
                    from ..core.cfg import cfg_of
                    from ..core.defuse import rd_of
                    rd = rd_of(fi)
                    have = k in fi.params or any(
                        rd.reaching(k, nd.id)
                        for nd in cfg_of(fi).node_of_expr(v)
                        if nd.id in rd.live)
                    if not have:
                        continue
                    ctx.ob(rule, f'{fi.qual}:{k}<-{v.id}', fi.loc(v), False,
                           f'slot `{k}` is given `{v.id}`, which this same '
                           f'call also hands to its own slot `{v.id}`: '
                           f'`{k}` of the caller is dropped and the callee '
                           'works with one value in two roles')
    if n:
        ctx.ob(rule, f'{fi.qual}:slots', fi.loc(fi.node), True,
               f'{n} namesake slot(s) get their namesakes')
    return n


def _defaults_of(fi):
    a = fi.node.args
    out = {}
    pos = a.posonlyargs + a.args
    for p, d in zip(pos[len(pos) - len(a.defaults):], a.defaults):
        out[p.arg] = d
    for p, d in zip(a.kwonlyargs, a.kw_defaults):
        if d is not None:
            out[p.arg] = d
    return out


def check_sibling_defaults_bound(ctx, fi, rule='R-AGREE/sibling-defaults'):
    """a dispatcher that hands the same job to one of several helpers,
    depending on the encoding / the kind of its input, gets the same job
    done only if the helpers run with the same settings.  Where two
    helpers called in different arms of one if-chain have a parameter of
    the same name whose *defaults differ*, every such call binds the
    parameter: leaving it out makes the answer depend on the arm (dense
    data judged with one tolerance, sparse data with another)."""
    import ast
    from ..core.resolve import resolve_callee, bind_args
    from ..core.loader import FunctionInfo, parent, unparse
    db = ctx.db
    n = 0

    def arm_of(call):
        """(root If of the chain, index of the arm) for the nearest chain"""
        node = call
        child = None
        while node is not None and node is not fi.node:
            p = parent(node)
            if isinstance(p, ast.If) and node is not p.test:
                # climb to the root of the elif chain
                arm = 0 if node in p.body else 1
                root = p
                path = [arm]
                while isinstance(parent(root), ast.If) and parent(
                        root).orelse == [root]:
                    root = parent(root)
                    path.append(1)
                return root, tuple(path)
            child = node
            node = p
        return None, None

    calls = []
    for c in ast.walk(fi.node):
        if isinstance(c, ast.Call):
            t = resolve_callee(db, fi, c)
            if isinstance(t, FunctionInfo) and t is not fi:
                root, arm = arm_of(c)
                if root is not None:
                    calls.append((c, t, root, arm))
    seen = set()
    for i, (c1, t1, r1, a1) in enumerate(calls):
        for (c2, t2, r2, a2) in calls[i + 1:]:
            if r1 is not r2 or a1 == a2 or t1 is t2:
                continue
            d1, d2 = _defaults_of(t1), _defaults_of(t2)
            for p in sorted(set(d1) & set(d2)):
                if ast.dump(d1[p]) == ast.dump(d2[p]):
                    continue
                if p in ('verbose',):
                    # progress printing only: no result depends on it
                    continue
                for c, t in ((c1, t1), (c2, t2)):
                    key = (id(c), p)
                    if key in seen:
                        continue
                    seen.add(key)
                    m, _ = bind_args(t, c)
                    bound = m.get(p) is not None or any(
                        k.arg is None for k in c.keywords)
                    n += 1
                    ctx.touch(fi)
                    ctx.ob(rule, f'{fi.qual}:{t.name}.{p}', fi.loc(c),
                           bound,
                           f'`{p}` is bound in the call of {t.name}'
                           if bound else
                           f'{fi.name} calls {t1.name} and {t2.name} in '
                           f'different arms of one test; their defaults '
                           f'for `{p}` differ ({unparse(d1[p])} / '
                           f'{unparse(d2[p])}) and this call of {t.name} '
                           f'leaves `{p}` out: the same request is '
                           'answered with another setting depending on '
                           'the arm')
    return n
