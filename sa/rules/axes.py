"""
C5: axis-role typing of the numeric kernel (units-of-measure style).

Arrays are typed by a tuple of axis roles, e.g. ('C', 'G') = cells x genes.
The bodies of the kernel functions are interpreted abstractly against the
signatures in sa/specs/axes.json: element-wise operators broadcast
(right-aligned; aligned roles must be equal), reductions remove an axis,
arg-reductions yield integers *valued in* the removed axis, transposes
reverse, np.dot contracts equal inner roles, fancy indexing gathers.  A
role mismatch, a return type different from the declared one, or a
reduction / sort / contraction along an axis declared per-cell ('C', 'Q')
is reported.  An expression the interpreter cannot type is an analysis
error, not a violation.
"""
import ast
import json
import pathlib

from ..core.loader import unparse, AnalysisError

_SPEC = pathlib.Path(__file__).resolve().parent.parent / 'specs' / \
    'axes.json'


class Arr(object):
    def __init__(self, roles, vin=None, ident=False, dtype=None):
        self.roles = tuple(roles)
        self.vin = vin            # role the integer values index into
        self.ident = ident        # identity index (arange)
        self.dtype = dtype

    def __repr__(self):
        s = '(' + ','.join(self.roles) + ')'
        if self.vin:
            s += f'->{self.vin}'
        return s

    def __eq__(self, o):
        return isinstance(o, Arr) and self.roles == o.roles \
            and self.vin == o.vin

    def __hash__(self):
        return hash((self.roles, self.vin))


class Scalar(object):
    def __init__(self, of=None):
        self.of = of       # e.g. ('shape', role)

    def __repr__(self):
        return f'scalar{self.of or ""}'


class Lst(object):
    def __init__(self, elem=None):
        self.elem = elem

    def __repr__(self):
        return f'list[{self.elem}]'


class Tup(object):
    def __init__(self, elems):
        self.elems = list(elems)

    def __repr__(self):
        return 'tuple' + repr(self.elems)


class Opaque(object):
    def __init__(self, what=''):
        self.what = what

    def __repr__(self):
        return f'opaque({self.what})'


class TypeErr(Exception):
    def __init__(self, node, msg):
        self.node = node
        self.msg = msg


class Untypable(Exception):
    def __init__(self, node, msg):
        self.node = node
        self.msg = msg


REDUCERS = {'sum', 'mean', 'max', 'min', 'std', 'var', 'median', 'prod',
            'any', 'all', 'nansum', 'nanmean', 'ptp', 'amax', 'amin',
            'nanmax', 'nanmin', 'count_nonzero'}
ARG_REDUCERS = {'argmax', 'argmin'}
ELEMENTWISE = {'sqrt', 'log2', 'log', 'exp', 'abs', 'square', 'round',
               'ceil', 'floor', 'logical_not', 'isnan', 'copy', 'float',
               'astype', 'nan_to_num'}
BINARY_FN = {'logical_and', 'logical_or', 'maximum', 'minimum', 'add',
             'subtract', 'multiply', 'divide', 'power'}


def load_spec():
    return json.loads(_SPEC.read_text())


def broadcast(node, a, b):
    """result of an element-wise binary operation"""
    if isinstance(a, Scalar) or a is None:
        return b if isinstance(b, Arr) else Scalar()
    if isinstance(b, Scalar) or b is None:
        return a if isinstance(a, Arr) else Scalar()
    if not isinstance(a, Arr) or not isinstance(b, Arr):
        raise Untypable(node, f'element-wise op on {a} and {b}')
    ra, rb = list(a.roles), list(b.roles)
    n = max(len(ra), len(rb))
    ra = [None]*(n-len(ra)) + ra
    rb = [None]*(n-len(rb)) + rb
    out = []
    for x, y in zip(ra, rb):
        if x is None:
            out.append(y)
        elif y is None:
            out.append(x)
        elif x == y:
            out.append(x)
        else:
            raise TypeErr(node, f'broadcast aligns axis {x} with axis {y} '
                                f'({a} vs {b})')
    return Arr(out)


class Interp(object):

    def __init__(self, db, fi, sig, config, spec, per_cell=('C', 'Q')):
        self.db = db
        self.fi = fi
        self.sig = sig
        self.config = config
        self.spec = spec
        self.per_cell = set(per_cell)
        self.env = dict()
        self.returns = []
        self.violations = []      # (node, message)
        self.n_ops = 0
        for p, roles in sig.get('params', {}).items():
            self.env[p] = Arr(roles) if roles is not None else Opaque(p)
        for p, v in config.items():
            if p not in ('returns', 'valued'):
                self.env[p] = ('const', v)
        for p in fi.params:
            if p not in self.env:
                self.env[p] = Opaque(p)

    # ------------------------------------------------------------------
    def run(self):
        try:
            self.block(self.fi.node.body)
        except _Return:
            pass
        return self.returns

    def block(self, stmts):
        for s in stmts:
            self.stmt(s)

    def cell_reduction(self, node, arr, axis_role, what):
        if axis_role in self.per_cell:
            self.violations.append((
                node, f'{what} along the per-cell axis {axis_role} of '
                      f'{arr}: the value for one cell depends on the '
                      'other cells of the chunk'))

    def stmt(self, s):
        if isinstance(s, ast.Expr):
            if isinstance(s.value, ast.Constant):
                return
            self.ev(s.value)
            return
        if isinstance(s, ast.Assign):
            v = self.ev(s.value)
            for t in s.targets:
                self.assign(t, v, s)
            return
        if isinstance(s, ast.AugAssign):
            v = self.ev(s.value)
            if isinstance(s.target, ast.Name):
                old = self.env.get(s.target.id)
                if isinstance(old, Arr) or isinstance(v, Arr):
                    self.env[s.target.id] = broadcast(s, old, v)
            elif isinstance(s.target, ast.Subscript):
                tgt = self.ev(s.target)
                if isinstance(tgt, Arr) and isinstance(v, Arr):
                    broadcast(s, tgt, v)
            return
        if isinstance(s, ast.Return):
            self.returns.append((s, self.ev(s.value) if s.value else None))
            raise _Return()
        if isinstance(s, ast.If):
            t = self.static_test(s.test)
            if t is True:
                self.block(s.body)
            elif t is False:
                self.block(s.orelse)
            else:
                # both arms, joined environments (first wins on conflict)
                saved = dict(self.env)
                r1 = r2 = False
                try:
                    self.block(s.body)
                except _Return:
                    r1 = True
                env1 = self.env
                self.env = dict(saved)
                try:
                    self.block(s.orelse)
                except _Return:
                    r2 = True
                if r1 and r2:
                    raise _Return()
                if r2 or (not r1 and False):
                    self.env = env1
                elif not r1:
                    for k, v in env1.items():
                        self.env.setdefault(k, v)
            return
        if isinstance(s, ast.For):
            it = self.ev(s.iter)
            elem = self.elem_of(s.iter, it)
            self.assign(s.target, elem, s)
            try:
                self.block(s.body)
            except _Return:
                pass
            return
        if isinstance(s, (ast.Pass, ast.Import, ast.ImportFrom,
                          ast.Raise, ast.Assert, ast.Delete)):
            return
        if isinstance(s, ast.With):
            self.block(s.body)
            return
        raise Untypable(s, f'statement {type(s).__name__}')

    def static_test(self, t):
        """value of a test on configuration constants"""
        if isinstance(t, ast.Call) and unparse(t.func) in (
                'use_torch', 'is_torch_available'):
            return False
        if isinstance(t, ast.UnaryOp) and isinstance(t.op, ast.Not):
            v = self.static_test(t.operand)
            return None if v is None else (not v)
        if isinstance(t, ast.Name):
            v = self.env.get(t.id)
            if isinstance(v, tuple) and v[0] == 'const':
                return bool(v[1])
            return None
        if isinstance(t, ast.Compare) and len(t.ops) == 1:
            l = t.left
            if isinstance(l, ast.Name):
                v = self.env.get(l.id)
                c = t.comparators[0]
                if isinstance(v, tuple) and v[0] == 'const' and isinstance(
                        c, ast.Constant):
                    if isinstance(t.ops[0], (ast.Is, ast.Eq)):
                        return v[1] == c.value
                    if isinstance(t.ops[0], (ast.IsNot, ast.NotEq)):
                        return v[1] != c.value
            return None
        if isinstance(t, ast.BoolOp):
            vals = [self.static_test(x) for x in t.values]
            if isinstance(t.op, ast.And):
                if any(v is False for v in vals):
                    return False
                if all(v is True for v in vals):
                    return True
            else:
                if any(v is True for v in vals):
                    return True
                if all(v is False for v in vals):
                    return False
            return None
        return None

    def assign(self, target, v, node):
        if isinstance(target, ast.Name):
            self.env[target.id] = v
        elif isinstance(target, (ast.Tuple, ast.List)):
            if isinstance(v, Tup) and len(v.elems) == len(target.elts):
                for t, e in zip(target.elts, v.elems):
                    self.assign(t, e, node)
            else:
                for t in target.elts:
                    self.assign(t, Opaque('unpack'), node)
        elif isinstance(target, ast.Subscript):
            # A[idx] = v : shapes must be compatible where known
            base = self.ev(target.value)
            if isinstance(base, Arr):
                sub = self.index(target, base, store=True)
                if isinstance(sub, Arr) and isinstance(v, Arr):
                    broadcast(node, sub, v)
        # attribute stores: ignore

    def elem_of(self, iter_node, it):
        if isinstance(it, Lst):
            return it.elem if it.elem is not None else Opaque('elem')
        if isinstance(it, Tup):
            return it.elems[0] if it.elems else Opaque('elem')
        if isinstance(it, Arr):
            if len(it.roles) >= 1:
                self.n_ops += 1
                return Arr(it.roles[1:], it.vin) if len(it.roles) > 1 \
                    else Scalar()
        if isinstance(it, Scalar) or isinstance(it, Opaque):
            return Scalar()
        return Opaque('elem')

    # ------------------------------------------------------------------
    def ev(self, e):
        if e is None:
            return None
        if isinstance(e, ast.Constant):
            return Scalar()
        if isinstance(e, ast.Name):
            v = self.env.get(e.id)
            if v is None:
                return Opaque(e.id)
            if isinstance(v, tuple) and v[0] == 'const':
                return Scalar()
            return v
        if isinstance(e, ast.Tuple):
            return Tup([self.ev(x) for x in e.elts])
        if isinstance(e, ast.List):
            if not e.elts:
                return Lst(None)
            return Lst(self.ev(e.elts[0]))
        if isinstance(e, ast.ListComp):
            saved = dict(self.env)
            for g in e.generators:
                it = self.ev(g.iter)
                self.assign(g.target, self.elem_of(g.iter, it), e)
            el = self.ev(e.elt)
            self.env = saved
            return Lst(el)
        if isinstance(e, ast.BinOp):
            a = self.ev(e.left)
            b = self.ev(e.right)
            if isinstance(a, (Arr, Scalar)) and isinstance(b, (Arr,
                                                               Scalar)):
                self.n_ops += 1
                return broadcast(e, a, b)
            if isinstance(a, Lst) and isinstance(e.op, ast.Mult):
                return a
            if isinstance(a, Opaque) or isinstance(b, Opaque):
                return Scalar()
            raise Untypable(e, f'binary op on {a} and {b}')
        if isinstance(e, ast.UnaryOp):
            return self.ev(e.operand)
        if isinstance(e, ast.Compare):
            a = self.ev(e.left)
            b = self.ev(e.comparators[0])
            if isinstance(a, Arr) or isinstance(b, Arr):
                self.n_ops += 1
                return broadcast(e, a if isinstance(a, (Arr, Scalar))
                                 else Scalar(),
                                 b if isinstance(b, (Arr, Scalar))
                                 else Scalar())
            return Scalar()
        if isinstance(e, ast.BoolOp):
            for v in e.values:
                self.ev(v)
            return Scalar()
        if isinstance(e, ast.IfExp):
            return self.ev(e.body)
        if isinstance(e, ast.Attribute):
            b = self.ev(e.value)
            if isinstance(b, Arr):
                if e.attr == 'T':
                    return Arr(tuple(reversed(b.roles)))
                if e.attr == 'shape':
                    return Tup([Scalar(('shape', r)) for r in b.roles])
                if e.attr in ('dtype', 'size', 'ndim'):
                    return Scalar()
                if e.attr == 'data':
                    return b
            if isinstance(b, Opaque):
                return Opaque(f'{b.what}.{e.attr}')
            return Opaque(e.attr)
        if isinstance(e, ast.Subscript):
            b = self.ev(e.value)
            if isinstance(b, Arr):
                return self.index(e, b)
            if isinstance(b, Tup):
                if isinstance(e.slice, ast.Constant) and isinstance(
                        e.slice.value, int) and -len(b.elems) <= \
                        e.slice.value < len(b.elems):
                    return b.elems[e.slice.value]
                return Opaque('tuple-item')
            if isinstance(b, Lst):
                return b.elem if b.elem is not None else Opaque('item')
            return Opaque('item')
        if isinstance(e, ast.Call):
            return self.call(e)
        if isinstance(e, ast.JoinedStr):
            return Scalar()
        if isinstance(e, (ast.Dict, ast.DictComp, ast.SetComp,
                          ast.GeneratorExp, ast.Set)):
            return Opaque('container')
        if isinstance(e, ast.Lambda):
            return Opaque('lambda')
        raise Untypable(e, f'expression {type(e).__name__}')

    def axis_arg(self, call, pos=1):
        for kw in call.keywords:
            if kw.arg in ('axis', 'dim'):
                return kw.value
        if len(call.args) > pos:
            return call.args[pos]
        return None

    def axis_value(self, node):
        if node is None:
            return None
        if isinstance(node, ast.Constant) and isinstance(node.value, int):
            return node.value
        if isinstance(node, ast.UnaryOp) and isinstance(
                node.op, ast.USub) and isinstance(
                    node.operand, ast.Constant):
            return -node.operand.value
        raise Untypable(node, 'non-constant axis')

    def reduce(self, call, arr, axis_node, name, arg=False):
        self.n_ops += 1
        if axis_node is None:
            for r in arr.roles:
                self.cell_reduction(call, arr, r, f'`{name}` over all axes')
            return Scalar()
        k = self.axis_value(axis_node)
        if not (-len(arr.roles) <= k < len(arr.roles)):
            raise TypeErr(call, f'axis {k} out of range for {arr}')
        role = arr.roles[k]
        self.cell_reduction(call, arr, role, f'`{name}`')
        rest = tuple(r for i, r in enumerate(arr.roles)
                     if i != (k % len(arr.roles)))
        if arg:
            return Arr(rest, vin=role)
        return Arr(rest) if rest else Scalar()

    def call(self, c):
        f = c.func
        nm = f.attr if isinstance(f, ast.Attribute) else (
            f.id if isinstance(f, ast.Name) else None)
        # method on an array?
        recv = None
        is_np = isinstance(f, ast.Attribute) and isinstance(
            f.value, ast.Name) and f.value.id in ('np', 'numpy', 'torch')
        # np.linalg.norm(x, axis=k): a reduction along k like np.sum
        is_linalg = isinstance(f, ast.Attribute) and isinstance(
            f.value, ast.Attribute) and f.value.attr == 'linalg' \
            and isinstance(f.value.value, ast.Name) \
            and f.value.value.id in ('np', 'numpy', 'torch')
        if is_linalg and nm == 'norm' and c.args:
            a = self.ev(c.args[0])
            if isinstance(a, Arr):
                return self.reduce(c, a, self.axis_arg(c, 1), 'sum', False)
            return Scalar()
        if isinstance(f, ast.Attribute) and not is_np:
            recv = self.ev(f.value)
        args = c.args
        if nm in REDUCERS | ARG_REDUCERS:
            if isinstance(recv, Arr):
                return self.reduce(c, recv, self.axis_arg(c, 0), nm,
                                   nm in ARG_REDUCERS)
            if is_np and args:
                a = self.ev(args[0])
                if isinstance(a, Arr):
                    return self.reduce(c, a, self.axis_arg(c, 1), nm,
                                       nm in ARG_REDUCERS)
                return Scalar()
            if nm in ('max', 'min', 'sum', 'any', 'all') and not is_np:
                for a in args:
                    self.ev(a)
                return Scalar()
        if nm in ('argsort', 'sort') and (is_np or isinstance(recv, Arr)):
            a = recv if isinstance(recv, Arr) else self.ev(args[0])
            if not isinstance(a, Arr):
                return Opaque('sort')
            ax = self.axis_arg(c, 0 if isinstance(recv, Arr) else 1)
            k = self.axis_value(ax) if ax is not None else -1
            role = a.roles[k]
            self.n_ops += 1
            self.cell_reduction(c, a, role, f'`{nm}`')
            return Arr(a.roles, vin=role if nm == 'argsort' else a.vin)
        if nm in ('transpose', 't') and (isinstance(recv, Arr) or is_np):
            a = recv if isinstance(recv, Arr) else self.ev(args[0])
            if isinstance(a, Arr):
                self.n_ops += 1
                return Arr(tuple(reversed(a.roles)), a.vin)
        if nm == 'dot' and is_np and len(args) == 2:
            a, b = self.ev(args[0]), self.ev(args[1])
            if isinstance(a, Arr) and isinstance(b, Arr) and len(
                    a.roles) == 2 and len(b.roles) == 2:
                self.n_ops += 1
                if a.roles[1] != b.roles[0]:
                    raise TypeErr(c, f'np.dot contracts axis {a.roles[1]} '
                                     f'of {a} with axis {b.roles[0]} of '
                                     f'{b}')
                self.cell_reduction(c, a, a.roles[1], '`dot`')
                return Arr((a.roles[0], b.roles[1]))
            raise Untypable(c, f'np.dot on {a}, {b}')
        if nm in ELEMENTWISE:
            a = recv if isinstance(recv, Arr) else (
                self.ev(args[0]) if args else None)
            if isinstance(a, Arr):
                self.n_ops += 1
                return Arr(a.roles, a.vin)
            return Scalar()
        if nm in BINARY_FN and is_np and len(args) >= 2:
            a, b = self.ev(args[0]), self.ev(args[1])
            self.n_ops += 1
            return broadcast(c, a if isinstance(a, (Arr, Scalar))
                             else Scalar(),
                             b if isinstance(b, (Arr, Scalar)) else Scalar())
        if nm == 'where' and is_np:
            if len(args) == 3:
                x = broadcast(c, self._as(self.ev(args[0])),
                              self._as(self.ev(args[1])))
                return broadcast(c, x, self._as(self.ev(args[2])))
            a = self.ev(args[0])
            if isinstance(a, Arr) and len(a.roles) == 1:
                return Tup([Arr(('sel:' + a.roles[0],), vin=a.roles[0])])
            return Opaque('where')
        if nm == 'arange' and is_np and args:
            a = self.ev(args[0])
            if isinstance(a, Scalar) and a.of and a.of[0] == 'shape':
                return Arr((a.of[1],), vin=a.of[1], ident=True)
            return Arr(('n',), vin=None)
        if nm in ('zeros', 'ones', 'empty', 'full') and is_np and args:
            shp = self.ev(args[0])
            roles = []
            elems = shp.elems if isinstance(shp, Tup) else [shp]
            for s_ in elems:
                if isinstance(s_, Scalar) and s_.of and s_.of[0] == 'shape':
                    roles.append(s_.of[1])
                elif isinstance(s_, Scalar) and s_.of and s_.of[0] == 'len':
                    roles.append(s_.of[1])
                else:
                    roles.append('?')
            return Arr(roles)
        if nm in ('array', 'asarray', 'copy', 'deepcopy') and args:
            a = self.ev(args[0])
            if isinstance(a, Arr):
                return Arr(a.roles, a.vin, a.ident)
            if isinstance(a, Lst) and isinstance(a.elem, Lst):
                return Arr(('?', '?'))
            if isinstance(a, Lst):
                return Arr(('?',)) if not isinstance(a.elem, Arr) else \
                    Arr(('?',) + a.elem.roles, a.elem.vin)
            return Opaque(nm)
        if nm == 'len' and args:
            a = self.ev(args[0])
            if isinstance(a, Arr) and a.roles:
                return Scalar(('shape', a.roles[0]))
            # the number of distinct values of a parameter (the value is
            # derived from that parameter alone, through a de-duplicating
            # step) has the role the signature declares for it
            lr = self.sig.get('distinct_len_roles', {})
            if lr:
                from ..core.slicing import backward_slice
                sl = backward_slice(self.fi, args[0])
                if len(sl.params) == 1 and next(iter(sl.params)) in lr \
                        and (sl.call_names() & {'set', 'unique', 'keys',
                                                'fromkeys'}):
                    return Scalar(('len', lr[next(iter(sl.params))]))
            return Scalar()
        if nm in ('round', 'int', 'float', 'abs', 'max', 'min',
                  'choose_int_dtype', 'time', 'update_timer', 'print',
                  'isinstance', 'range', 'set', 'list', 'enumerate',
                  'zip', 'str'):
            vals = [self.ev(a) for a in args]
            if nm == 'range':
                if vals and isinstance(vals[0], Scalar) and vals[0].of:
                    return Arr((vals[0].of[1],), vin=vals[0].of[1],
                               ident=True)
                return Lst(Scalar())
            if nm == 'zip':
                return Lst(Tup([self.elem_of(None, v) for v in vals]))
            if nm == 'enumerate' and vals:
                return Lst(Tup([Scalar(), self.elem_of(None, vals[0])]))
            if nm == 'list' and vals:
                return vals[0] if isinstance(vals[0], (Lst, Arr)) \
                    else Lst(None)
            if nm == 'set' and vals:
                return Lst(self.elem_of(None, vals[0]))
            return Scalar()
        if nm == 'choice' and args:
            # rng.choice(pool, n, replace=False): a subset of the pool
            pool = self.ev(args[0])
            self._n_choice = getattr(self, '_n_choice', 0) + 1
            role = f'S{self._n_choice}'
            if isinstance(pool, Arr) and pool.vin:
                return Arr((role,), vin=pool.vin)
            return Arr((role,))
        if nm in ('append',) and isinstance(f, ast.Attribute) \
                and isinstance(f.value, ast.Name):
            v = self.ev(args[0]) if args else None
            cur = self.env.get(f.value.id)
            if isinstance(cur, Lst) and cur.elem is None:
                self.env[f.value.id] = Lst(v)
            return Scalar()
        # declared kernel functions
        sig_key = self._callee_sig(c)
        if sig_key is not None:
            return self.apply_sig(c, sig_key)
        if nm in ('stack', 'detach', 'cpu', 'numpy'):
            return Opaque(nm)
        # anything else: evaluate args for effects, result opaque
        for a in args:
            self.ev(a)
        for kw in c.keywords:
            self.ev(kw.value)
        return Opaque(nm or 'call')

    def _as(self, v):
        return v if isinstance(v, (Arr, Scalar)) else Scalar()

    def _callee_sig(self, c):
        from ..core.resolve import resolve_callee
        from ..core.loader import FunctionInfo
        t = resolve_callee(self.db, self.fi, c)
        if isinstance(t, FunctionInfo):
            if t.qual in self.spec['functions']:
                return t.qual
            alias = self.spec.get('dispatchers', {}).get(t.qual)
            if alias:
                return alias
        return None

    def apply_sig(self, c, qual):
        """call of another declared kernel function: unify roles"""
        from ..core.resolve import bind_args
        sig = self.spec['functions'][qual]
        callee = self.db.fn(qual)
        mapping, _ = bind_args(callee, c)
        subst = dict()
        cfgs = sig.get('configs') or [{'returns': sig['returns'],
                                       'valued': sig.get('valued')}]
        for p, roles in sig['params'].items():
            a = mapping.get(p)
            if a is None or roles is None:
                continue
            v = self.ev(a)
            if not isinstance(v, Arr):
                raise Untypable(c, f'argument {p} of {qual} is {v}')
            if len(v.roles) != len(roles):
                raise TypeErr(c, f'argument `{p}` of {callee.name} has '
                                 f'axes {v}, declared {tuple(roles)}')
            for want, got in zip(roles, v.roles):
                if want in subst and subst[want] != got:
                    raise TypeErr(
                        c, f'{callee.name}: axis {want} is bound to '
                           f'{subst[want]} by one argument and to {got} '
                           f'by `{p}` ({unparse(a)[:40]})')
                subst[want] = got
        # choose the config matching constant keyword flags
        chosen = cfgs[0]
        for cf in cfgs:
            ok = True
            for k, val in cf.items():
                if k in ('returns', 'valued'):
                    continue
                a = mapping.get(k)
                if a is None:
                    d = callee.defaults.get(k)
                    if not (isinstance(d, ast.Constant)
                            and d.value == val):
                        ok = False
                elif not (isinstance(a, ast.Constant) and a.value == val):
                    ok = False
            if ok:
                chosen = cf
                break
        outs = []
        valued = chosen.get('valued') or [None]*len(chosen['returns'])
        for roles, vin in zip(chosen['returns'], valued):
            outs.append(Arr([subst.get(r, r) for r in roles],
                            vin=subst.get(vin, vin) if vin else None))
        self.n_ops += 1
        return outs[0] if len(outs) == 1 else Tup(outs)

    def index(self, e, base, store=False):
        """A[...]"""
        sl = e.slice
        parts = list(sl.elts) if isinstance(sl, ast.Tuple) else [sl]
        self.n_ops += 1
        idx_vals = []
        for p in parts:
            if isinstance(p, ast.Slice):
                idx_vals.append('slice')
            else:
                idx_vals.append(self.ev(p))
        # boolean mask of the same shape
        if len(idx_vals) == 1 and isinstance(idx_vals[0], Arr) \
                and idx_vals[0].vin is None and not idx_vals[0].ident \
                and idx_vals[0].roles == base.roles:
            return Arr(('masked',))
        out = []
        gathered = []
        for i, iv in enumerate(idx_vals):
            if i >= len(base.roles):
                raise TypeErr(e, f'too many indices for {base}')
            role = base.roles[i]
            if iv == 'slice':
                out.append(role)
            elif isinstance(iv, Arr):
                if iv.vin is not None and iv.vin != role and not (
                        iv.vin.startswith('sel:')):
                    raise TypeErr(
                        e, f'axis {role} of {base} is indexed by values '
                           f'that index axis {iv.vin} '
                           f'(`{unparse(e)[:60]}`)')
                if role in self.per_cell and not iv.ident and not store \
                        and iv.vin != role:
                    self.violations.append((
                        e, f'the per-cell axis {role} of {base} is '
                           'gathered by a non-identity index'))
                gathered.append(iv)
            elif isinstance(iv, Scalar):
                pass          # one element along this axis
            else:
                out.append(role)
        rest = list(base.roles[len(idx_vals):])
        if gathered:
            # paired fancy indices broadcast together
            g0 = gathered[0]
            for g in gathered[1:]:
                if len(g.roles) != len(g0.roles):
                    raise TypeErr(e, 'fancy indices of different rank')
                for x, y in zip(g0.roles, g.roles):
                    if x != y and 'n' not in (x, y) and '?' not in (x, y):
                        raise TypeErr(
                            e, f'paired indices run over {x} and {y} '
                               f'(`{unparse(e)[:60]}`)')
            # position of the gathered block: numpy puts it first when
            # separated by slices; here indices are adjacent or single
            pos = 0
            for i, iv in enumerate(idx_vals):
                if isinstance(iv, Arr):
                    pos = len([x for x in idx_vals[:i] if x == 'slice'])
                    break
            res = out[:pos] + list(g0.roles) + out[pos:] + rest
            return Arr(res, base.vin)
        return Arr(out + rest, base.vin) if (out + rest) else Scalar()


class _Return(Exception):
    pass


def check_function(ctx, db, qual, spec, rule='R-AXIS/typed'):
    """type-check one kernel function against its declared signature(s);
    returns number of typed operations"""
    sig = spec['functions'][qual]
    fi = db.fn(qual)
    ctx.touch(fi)
    cfgs = sig.get('configs') or [{'returns': sig['returns'],
                                   'valued': sig.get('valued')}]
    n_ops = 0
    for cf in cfgs:
        label = ','.join(f'{k}={v}' for k, v in cf.items()
                         if k not in ('returns', 'valued'))
        key = f'{fi.qual}' + (f'[{label}]' if label else '')
        it = Interp(db, fi, sig, cf, spec,
                    per_cell=spec.get('per_cell_axes', ['C', 'Q']))
        try:
            rets = it.run()
        except TypeErr as te:
            ctx.fail(rule, key, fi.loc(te.node),
                     f'{fi.name}: axis roles do not fit: {te.msg}')
            continue
        except Untypable as ue:
            raise AnalysisError(
                f'{fi.qual}: cannot type `{unparse(ue.node)[:60]}` '
                f'({ue.msg}) at L{getattr(ue.node, "lineno", 0)}')
        n_ops += it.n_ops
        for (node, msg) in it.violations:
            ctx.fail('R-AXIS/row-independence',
                     f'{key}:{unparse(node)[:40]}', fi.loc(node),
                     f'{fi.name}: {msg}')
        if not rets:
            ctx.fail(rule, key, fi.loc(), f'{fi.name} returns nothing')
            continue
        want = [Arr(r, vin=v) for r, v in zip(
            cf['returns'], cf.get('valued') or [None]*len(cf['returns']))]
        for (node, val) in rets:
            got = val.elems if isinstance(val, Tup) else [val]
            ok = len(got) >= len(want)
            detail = ''
            if ok:
                for w, g in zip(want, got):
                    if not isinstance(g, Arr) or g.roles != w.roles or (
                            w.vin and g.vin != w.vin):
                        ok = False
                        detail = f'returns {g}, declared {w}'
            else:
                detail = f'returns {got}, declared {want}'
            ctx.ob(rule, key + f':return@{unparse(node)[:30]}',
                   fi.loc(node), ok,
                   f'{fi.name} returns ' + ', '.join(map(repr, want))
                   if ok else
                   f'{fi.name}: {detail} (axis roles: '
                   + spec.get('legend', '') + ')')
        if not it.violations:
            ctx.ok('R-AXIS/row-independence', key, fi.loc(),
                   f'no reduction, sort, contraction or non-identity '
                   f'gather along a per-cell axis ({it.n_ops} array '
                   'operations typed)')
    return n_ops
