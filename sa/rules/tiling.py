"""
R-TILE: chunked iteration covers the axis exactly.

The repository walks every large array in windows:

    for a in range(0, N, S):
        b = min(N, a + W)
        ... x[a:b] ...

The windows tile [0, N) exactly iff W is S and the clamp is the N of the
range.  If W differs from S the windows leave gaps (W < S: rows / columns
are never visited, so a scan misses values and a copy leaves zeros) or
overlap (W > S: entries are visited twice, wrong for sums and copies).
Where S is element k of a chunk-shape tuple and N is element j of a shape,
k must be j: a step taken from the other axis tiles with the wrong period.

The comparison is between symbolic terms (expanded through the reaching
definitions), so renaming or introducing a local does not matter.
Necessary condition of every "for every chunking" clause; it says nothing
about what is done with a window.
"""
import ast

from ..core.cfg import cfg_of
from ..core.defuse import rd_of, Expander, fmt_term
from ..core.loader import unparse


def _tiling_loops(fi):
    for loop in ast.walk(fi.node):
        if isinstance(loop, ast.For) and isinstance(
                loop.target, ast.Name) and isinstance(
                    loop.iter, ast.Call) and isinstance(
                        loop.iter.func, ast.Name) \
                and loop.iter.func.id == 'range' \
                and len(loop.iter.args) == 3:
            step = loop.iter.args[2]
            if isinstance(step, ast.UnaryOp) or (
                    isinstance(step, ast.Constant)
                    and step.value in (1, -1)):
                continue
            yield loop


def _axis_of(t):
    """('shape', base term, k) for  base.shape[k]; ('elem', base, k) for
    base[k]"""
    if t and t[0] == 'sub' and t[2][0] == 'const':
        try:
            k = int(t[2][1])
        except (TypeError, ValueError):
            return None
        b = t[1]
        if b[0] == 'attr' and b[-1] == 'shape':
            return ('shape', b[1], k)
        return ('elem', b, k)
    return None


def check_tiling(ctx, fi, rule='R-TILE/window'):
    n = 0
    cfg = cfg_of(fi)
    rd = rd_of(fi)
    ex = Expander(fi)
    loops = list(_tiling_loops(fi))
    loops.sort(key=lambda l: (l.lineno, l.col_offset))
    for li, loop in enumerate(loops):
        hdr = [x for x in cfg.nodes_of(loop) if x.kind == 'for'
               and x.id in rd.live]
        if not hdr:
            continue
        v = loop.target.id
        N, S = loop.iter.args[1], loop.iter.args[2]
        tN = ex.expand(N, hdr[0].id)
        tS = ex.expand(S, hdr[0].id)
        wi = 0
        for e in ast.walk(loop):
            if not (isinstance(e, ast.BinOp) and isinstance(e.op, ast.Add)):
                continue
            if isinstance(e.left, ast.Name) and e.left.id == v:
                W = e.right
            elif isinstance(e.right, ast.Name) and e.right.id == v:
                W = e.left
            else:
                continue
            # only the loop's own variable (not a shadowing inner loop)
            inner = getattr(e, '_parent', None)
            shadow = False
            while inner is not None and inner is not loop:
                if isinstance(inner, ast.For) and any(
                        isinstance(x, ast.Name) and x.id == v
                        for x in ast.walk(inner.target)):
                    shadow = True
                inner = getattr(inner, '_parent', None)
            if shadow:
                continue
            # `base + a` as the *start* of a slice is an offset into
            # another array, not the end of a window
            up = getattr(e, '_parent', None)
            child = e
            is_start = False
            while up is not None and not isinstance(up, ast.stmt):
                if isinstance(up, ast.Slice) and up.lower is child:
                    is_start = True
                child, up = up, getattr(up, '_parent', None)
            if is_start:
                continue
            ns = [x for x in cfg.node_of_expr(e) if x.id in rd.live]
            if not ns:
                continue
            at = ns[0].id
            tW = ex.expand(W, at)
            n += 1
            ctx.touch(fi)
            same = (tW == tS) or unparse(W) == unparse(S)
            # `a + S - 1`, `(a + S) * 2`: the window end is not a + S
            outer = getattr(e, '_parent', None)
            if isinstance(outer, ast.BinOp) and isinstance(
                    outer.op, (ast.Add, ast.Sub, ast.Mult, ast.FloorDiv,
                               ast.Div)):
                same = False
                tW = ex.expand(outer, at)
            key = f'{fi.qual}:range#{li}:window#{wi}'
            wi += 1
            ctx.ob(rule, key, fi.loc(e), same,
                   f'windows of `{unparse(loop.iter)[:50]}` are as wide as '
                   'the step' if same else
                   f'the loop steps by `{unparse(S)}` but its window ends '
                   f'at `{unparse(e)}`: width {fmt_term(tW)[:50]} is not '
                   f'the step {fmt_term(tS)[:50]}, so the windows do not '
                   'tile the axis (entries are skipped or visited twice)')
            # the clamp
            par = getattr(e, '_parent', None)
            if isinstance(par, ast.Call) and isinstance(
                    par.func, ast.Name) and par.func.id == 'min' \
                    and len(par.args) == 2:
                other = par.args[0] if par.args[1] is e else par.args[1]
                tO = ex.expand(other, at)
                okc = (tO == tN) or unparse(other) == unparse(N)
                ctx.ob(rule + '/clamp', key, fi.loc(par), okc,
                       'the window is clamped to the bound of the range'
                       if okc else
                       f'the window is clamped to `{unparse(other)}` but '
                       f'the range runs to `{unparse(N)}`: the last '
                       'window is cut at the wrong place')
        # axis agreement between step and bound
        aS, aN = _axis_of(tS), _axis_of(tN)
        if aS is not None and aN is not None and aN[0] == 'shape':
            ok = aS[2] == aN[2]
            ctx.touch(fi)
            ctx.ob(rule + '/axis', f'{fi.qual}:range#{li}', fi.loc(loop),
                   ok,
                   f'axis {aN[2]} is walked with the extent of axis '
                   f'{aS[2]}' if ok else
                   f'`{unparse(loop.iter)[:60]}` walks axis {aN[2]} with '
                   f'the chunk extent of axis {aS[2]}')
    return n


def check_window_writes(ctx, fi, rule='R-TILE/every-window-written'):
    """in a chunked loop that writes its window to a destination
    (`dst[a:b] = f(src[a:b])`), every iteration performs the write: a
    window that is skipped stays at the destination's fill value."""
    from . import coverage as CV
    cfg = cfg_of(fi)
    n = 0
    loops = list(_tiling_loops(fi))
    loops.sort(key=lambda l: (l.lineno, l.col_offset))
    for li, loop in enumerate(loops):
        v = loop.target.id
        # names bound to the window of this loop: the loop variable and
        # locals computed from it inside the loop
        wv = {v}
        grow = True
        while grow:
            grow = False
            for st in ast.walk(loop):
                if isinstance(st, ast.Assign) and len(st.targets) == 1 \
                        and isinstance(st.targets[0], ast.Name) \
                        and st.targets[0].id not in wv and any(
                            isinstance(x, ast.Name) and x.id in wv
                            for x in ast.walk(st.value)):
                    wv.add(st.targets[0].id)
                    grow = True
        stores = []
        for st in ast.walk(loop):
            if isinstance(st, ast.Assign) and isinstance(
                    st.targets[0], ast.Subscript) \
                    and CV.innermost_loop(st) is loop:
                tg = st.targets[0]
                sls = [tg.slice] if isinstance(tg.slice, ast.Slice) else (
                    [x for x in tg.slice.elts if isinstance(x, ast.Slice)]
                    if isinstance(tg.slice, ast.Tuple) else [])
                if any(s_.lower is not None and any(
                        isinstance(x, ast.Name) and x.id == v
                        for x in ast.walk(s_.lower)) for s_ in sls):
                    stores.append(st)
        for k, st in enumerate(stores):
            n += 1

            def act(node, _st=st):
                return node.ast is _st
            CV.check_cover(
                ctx, fi, rule, f'{fi.qual}:range#{li}:store#{k}', loop, act,
                what='window',
                consequence=f'`{unparse(st.targets[0])[:40]}` is not '
                'written for it and keeps the fill value of the '
                'destination')
    return n


def check_whole_axis(ctx, fi, rule='R-TILE/whole-axis'):
    """a loop over `range(N // S)` whose body addresses window i as
    [i*S : i*S + S] covers only the whole windows: the last N % S entries
    are never visited"""
    cfg = cfg_of(fi)
    rd = rd_of(fi)
    ex = Expander(fi)
    n = 0
    class _Loop(object):
        pass
    loops = []
    for lp in ast.walk(fi.node):
        if isinstance(lp, ast.For):
            o = _Loop()
            o.target, o.iter, o.body, o.node = lp.target, lp.iter, lp.body, lp
            o.hdr = [x for x in cfg.nodes_of(lp) if x.kind == 'for'
                     and x.id in rd.live]
            loops.append(o)
        elif isinstance(lp, (ast.ListComp, ast.GeneratorExp, ast.SetComp,
                             ast.DictComp)) and len(lp.generators) == 1:
            # the same loop written as a comprehension
            o = _Loop()
            g = lp.generators[0]
            o.target, o.iter, o.node = g.target, g.iter, lp
            o.body = [lp.key, lp.value] if isinstance(lp, ast.DictComp) \
                else [lp.elt]
            o.hdr = [x for x in cfg.node_of_expr(lp) if x.id in rd.live]
            loops.append(o)
    for loop in loops:
        if not (isinstance(
                loop.target, ast.Name) and isinstance(
                    loop.iter, ast.Call) and isinstance(
                        loop.iter.func, ast.Name)
                and loop.iter.func.id == 'range'
                and len(loop.iter.args) == 1):
            continue
        hdr = loop.hdr
        if not hdr:
            continue
        t = ex.expand(loop.iter.args[0], hdr[0].id)
        # N // S, possibly inside max(1, .) / min(., .) / int(.)
        core = t
        while isinstance(core, tuple) and core and core[0] == 'call' \
                and core[1][0] == 'name' and core[1][1] in (
                    'max', 'min') and core[2]:
            inner = [a for a in core[2] if a[0] != 'const']
            if len(inner) != 1:
                break
            core = inner[0]
        # ... or round(N / S), np.round(N / S).astype(int), int(N / S):
        # rounding to the nearest (or towards zero) is not a ceiling either
        def _unwrap_round(c):
            while isinstance(c, tuple) and c and c[0] == 'call':
                nm = None
                f_ = c[1]
                if f_[0] == 'name':
                    nm = f_[1]
                elif f_[0] == 'attr':
                    nm = f_[2]
                if nm in ('astype', 'item', 'tolist') and f_[0] == 'attr':
                    c = f_[1]
                    continue
                if nm in ('round', 'around', 'rint', 'floor', 'int',
                          'trunc', 'fix', 'int64', 'intp') and c[2]:
                    c = c[2][0]
                    if isinstance(c, tuple) and c and c[0] == 'binop' \
                            and c[1] == 'Div':
                        return ('binop', 'FloorDiv', c[2], c[3])
                    continue
                break
            return c
        core = _unwrap_round(core)
        while isinstance(core, tuple) and core and core[0] == 'call' \
                and core[1][0] == 'name' and core[1][1] in (
                    'max', 'min', 'int') and core[2]:
            inner = [a for a in core[2] if a[0] != 'const']
            if len(inner) != 1:
                break
            core = _unwrap_round(inner[0])
        if not (isinstance(core, tuple) and core and core[0] == 'binop'
                and core[1] == 'FloorDiv'):
            continue
        # the body multiplies the loop variable by something and uses it
        # as a slice bound
        v = loop.target.id
        uses = False
        for st in (y for b_ in loop.body for y in ast.walk(b_)):
            if isinstance(st, ast.BinOp) and isinstance(st.op, ast.Mult) \
                    and any(isinstance(x, ast.Name) and x.id == v
                            for x in (st.left, st.right)):
                uses = True
        if not uses:
            continue
        n += 1
        ctx.touch(fi)
        ctx.fail(rule, f'{fi.qual}:range#{n - 1}', fi.loc(loop.node),
                 f'`{unparse(loop.iter)[:60]}` counts only the whole '
                 f'windows ({fmt_term(t)[:60]}): when the length is not a '
                 'multiple of the window the remainder is never visited')
    return n


def check_buffer_windows(ctx, fi, rule='R-TILE/buffer-window'):
    """`h.read_direct(buf, source_sel=s_[a:b], dest_sel=s_[0:b-a])` fills
    the first b-a entries of a buffer that is re-used from window to
    window.  What follows may look at `buf[:b-a]` only: the rest of the
    buffer still holds the previous window, and for a last window shorter
    than the buffer those stale entries are processed a second time."""
    n = 0
    for c in ast.walk(fi.node):
        if not (isinstance(c, ast.Call) and isinstance(
                c.func, ast.Attribute) and c.func.attr == 'read_direct'
                and c.args and isinstance(c.args[0], ast.Name)):
            continue
        dest = [k.value for k in c.keywords if k.arg == 'dest_sel']
        if len(c.args) > 2:
            dest = [c.args[2]]
        if not dest:
            continue
        d = dest[0]
        # np.s_[lo:hi]
        upper = None
        if isinstance(d, ast.Subscript) and isinstance(d.slice, ast.Slice):
            upper = d.slice.upper
        if upper is None:
            continue
        buf = c.args[0].id
        loop = getattr(c, '_parent', None)
        while loop is not None and not isinstance(
                loop, (ast.For, ast.While)):
            loop = getattr(loop, '_parent', None)
        scope = loop if loop is not None else fi.node
        for x in ast.walk(scope):
            if not (isinstance(x, ast.Name) and x.id == buf
                    and isinstance(x.ctx, ast.Load)):
                continue
            par = getattr(x, '_parent', None)
            if par is c:
                continue
            n += 1
            ok = False
            if isinstance(par, ast.Subscript) and par.value is x:
                sl = par.slice
                first = sl.elts[0] if isinstance(sl, ast.Tuple) and sl.elts \
                    else sl
                if isinstance(first, ast.Slice) and first.upper is not None \
                        and unparse(first.upper) == unparse(upper) and (
                            first.lower is None or unparse(first.lower)
                            == '0'):
                    ok = True
            ctx.touch(fi)
            ctx.ob(rule, f'{fi.qual}:{buf}#{n - 1}', fi.loc(par or x), ok,
                   'only the part of the buffer that was just filled is '
                   'used' if ok else
                   f'`{buf}` is used whole after a read that filled only '
                   f'its first `{unparse(upper)}` entries: for a window '
                   'shorter than the buffer the entries of the previous '
                   'window are processed again')
    return n


def check_store_advances(ctx, fi, rule='R-CURSOR/store-advances'):
    """inside a loop, a slice store `dst[a:b] = src[...]` whose source
    changes from turn to turn must not start at a position that stays the
    same throughout the loop: every turn then overwrites the first one,
    and the rest of the destination is never written.  (The start has to
    mention the loop variable or something that is assigned inside the
    loop -- a cursor that is advanced there.)"""
    n = 0
    for st in ast.walk(fi.node):
        if not (isinstance(st, ast.Assign) and len(st.targets) == 1
                and isinstance(st.targets[0], ast.Subscript)):
            continue
        tg = st.targets[0]
        sl = tg.slice
        first = sl.elts[0] if isinstance(sl, ast.Tuple) and sl.elts else sl
        if not (isinstance(first, ast.Slice) and first.lower is not None):
            continue
        loop = getattr(st, '_parent', None)
        while loop is not None and not isinstance(
                loop, (ast.For, ast.While)):
            if isinstance(loop, (ast.FunctionDef, ast.AsyncFunctionDef)):
                loop = None
                break
            loop = getattr(loop, '_parent', None)
        if loop is None:
            continue
        varying = set()
        if isinstance(loop, ast.For):
            varying |= {x.id for x in ast.walk(loop.target)
                        if isinstance(x, ast.Name)}
        for x in ast.walk(loop):
            if isinstance(x, ast.Assign):
                for t in x.targets:
                    varying |= {y.id for y in ast.walk(t)
                                if isinstance(y, ast.Name)
                                and isinstance(y.ctx, ast.Store)}
            elif isinstance(x, ast.AugAssign) and isinstance(
                    x.target, ast.Name):
                varying.add(x.target.id)
            elif isinstance(x, (ast.For, ast.comprehension)):
                varying |= {y.id for y in ast.walk(x.target)
                            if isinstance(y, ast.Name)}
            elif isinstance(x, ast.withitem) and x.optional_vars is not None:
                varying |= {y.id for y in ast.walk(x.optional_vars)
                            if isinstance(y, ast.Name)}
        parts = sl.elts if isinstance(sl, ast.Tuple) else [sl]
        start_names = set()
        for part in parts:
            if isinstance(part, ast.Slice) and part.lower is not None:
                start_names |= {x.id for x in ast.walk(part.lower)
                                if isinstance(x, ast.Name)}
            elif not isinstance(part, ast.Slice):
                start_names |= {x.id for x in ast.walk(part)
                                if isinstance(x, ast.Name)}
        src_names = {x.id for x in ast.walk(st.value)
                     if isinstance(x, ast.Name)}
        if not (src_names & varying):
            continue            # the same data every turn: nothing to lose
        n += 1
        ok = bool(start_names & varying)
        ctx.touch(fi)
        ctx.ob(rule, f'{fi.qual}:store#{n - 1}', fi.loc(st), ok,
               'the destination window moves with the loop' if ok else
               f'`{unparse(st)[:70]}`: the destination starts at '
               f'`{unparse(first.lower)}`, which does not change inside '
               'the loop, while the data stored does: every turn '
               'overwrites the same place and what lies beyond it is never '
               'written')
    return n


def check_batch_search(ctx, fi, rule='R-COVER/batch-search'):
    """Batches cut by searching for the end of the next batch:

        while True:
            end = None
            for c in range(start + 1, N):
                if <enough>:  end = c; break
            if end is None: break          # nothing left
            ... process [start, end) ...; start = end

    "No end found" ends the whole loop, so it has to mean "nothing left":
    the search may only stop (`break`) after it has recorded an end.  A
    `break` that leaves the search without an end recorded in that turn --
    "this candidate is too large, give up" -- ends the enclosing loop while
    items remain, and everything from `start` on is silently left out."""
    n = 0
    for outer in ast.walk(fi.node):
        if not isinstance(outer, ast.While):
            continue
        body = outer.body
        for i, st in enumerate(body):
            if not (isinstance(st, ast.Assign) and len(st.targets) == 1
                    and isinstance(st.targets[0], ast.Name)
                    and isinstance(st.value, ast.Constant)
                    and st.value.value is None):
                continue
            var = st.targets[0].id
            search = None
            stop = None
            for later in body[i + 1:]:
                if search is None and isinstance(later, ast.For) and any(
                        isinstance(x, ast.Assign) and any(
                            isinstance(t, ast.Name) and t.id == var
                            for t in x.targets)
                        for x in ast.walk(later)):
                    search = later
                    continue
                if search is not None and isinstance(later, ast.If):
                    t = later.test
                    if isinstance(t, ast.Compare) and len(t.ops) == 1 \
                            and isinstance(t.ops[0], ast.Is) \
                            and isinstance(t.left, ast.Name) \
                            and t.left.id == var and isinstance(
                                t.comparators[0], ast.Constant) \
                            and t.comparators[0].value is None \
                            and later.body and isinstance(
                                later.body[-1], (ast.Break, ast.Return)):
                        stop = later
                        break
            if search is None or stop is None:
                continue
            # every break of the search loop follows, in its own block or
            # an enclosing one of the same turn, an assignment of var
            for br in ast.walk(search):
                if not isinstance(br, ast.Break):
                    continue
                # not a break of a loop nested inside the search
                p_ = getattr(br, '_parent', None)
                inner = False
                while p_ is not None and p_ is not search:
                    if isinstance(p_, (ast.For, ast.While)):
                        inner = True
                    p_ = getattr(p_, '_parent', None)
                if inner:
                    continue
                n += 1
                assigned = False
                blk_owner = getattr(br, '_parent', None)
                node = br
                while blk_owner is not None:
                    for field in ('body', 'orelse'):
                        blk = getattr(blk_owner, field, None)
                        if isinstance(blk, list) and node in blk:
                            for prev in blk[:blk.index(node)]:
                                if any(isinstance(x, ast.Assign) and any(
                                        isinstance(t, ast.Name)
                                        and t.id == var for t in x.targets)
                                        and not (isinstance(
                                            x.value, ast.Constant)
                                            and x.value.value is None)
                                        for x in ast.walk(prev)
                                        if not isinstance(
                                            prev, (ast.If, ast.For,
                                                   ast.While))
                                        or x is prev):
                                    assigned = True
                    if blk_owner is search:
                        break
                    node = blk_owner
                    blk_owner = getattr(blk_owner, '_parent', None)
                if not assigned:
                    # ... or the break is taken only when an end has been
                    # recorded in an earlier turn (`... and end is not
                    # None: break`)
                    from ..core.guards import none_facts
                    cfg = cfg_of(fi)
                    rd = rd_of(fi)
                    for bn in cfg.nodes_of(br):
                        if bn.id not in rd.live:
                            continue
                        _is, _not = none_facts(cfg, rd, bn.id)
                        if any(isinstance(e_, ast.Name) and e_.id == var
                               for e_ in _not):
                            assigned = True
                ctx.touch(fi)
                ctx.ob(rule, f'{fi.qual}:{var}#{n - 1}', fi.loc(br),
                       assigned,
                       f'the search stops only after `{var}` was recorded'
                       if assigned else
                       f'the search for `{var}` can `break` without '
                       f'having recorded it; `if {var} is None` then ends '
                       'the enclosing loop although items remain, and the '
                       'rest is silently left out')
    return n


def check_copy_not_filtered_by_content(
        ctx, fi, rule='R-COVER/copy-not-filtered-by-content'):
    """a loop that copies a dataset piece by piece (`dst[w] = src[w]` for
    every window / key w) may leave pieces out by their *key* (excluded
    names), never by their *content*: a test on what was just read from
    the source (`if block.max() == 0: continue`) decides from the data
    whether the data is kept, and whatever the test misjudges (negative
    values under a `max() == 0` test) silently becomes the fill value."""
    from ..core.slicing import backward_slice
    n = 0
    for loop in ast.walk(fi.node):
        if not (isinstance(loop, ast.For) and isinstance(
                loop.target, ast.Name)):
            continue
        v = loop.target.id
        # copy stores of this loop: D[v] = <something read at Y[v]>
        copies = []
        for st in ast.walk(loop):
            if not (isinstance(st, ast.Assign) and len(st.targets) == 1
                    and isinstance(st.targets[0], ast.Subscript)
                    and isinstance(st.targets[0].slice, ast.Name)
                    and st.targets[0].slice.id == v
                    and isinstance(st.targets[0].value, ast.Name)):
                continue
            dname = st.targets[0].value.id
            try:
                sv = backward_slice(fi, st.value)
            except Exception:
                continue
            reads = [x for x in ast.walk(st.value)
                     if isinstance(x, ast.Subscript) and isinstance(
                         x.slice, ast.Name) and x.slice.id == v]
            if not reads:
                # through a local: block = src[v]
                for nm in sv.names:
                    for d in ast.walk(loop):
                        if isinstance(d, ast.Assign) and len(
                                d.targets) == 1 and isinstance(
                                    d.targets[0], ast.Name) \
                                and d.targets[0].id == nm and isinstance(
                                    d.value, ast.Subscript) \
                                and isinstance(d.value.slice, ast.Name) \
                                and d.value.slice.id == v:
                            reads.append(d.value)
            reads = [r for r in reads if not (isinstance(
                r.value, ast.Name) and r.value.id == dname)]
            if reads:
                copies.append((st, reads))
        for (st, reads) in copies:
            # the tests that can bypass the store within one turn
            tests = []
            p_ = getattr(st, '_parent', None)
            child = st
            while p_ is not None and p_ is not loop:
                if isinstance(p_, ast.If):
                    tests.append(p_.test)
                child = p_
                p_ = getattr(p_, '_parent', None)
            for other in ast.walk(loop):
                if isinstance(other, ast.If) and any(
                        isinstance(x, (ast.Continue, ast.Break))
                        for b in other.body + other.orelse
                        for x in ast.walk(b)) \
                        and getattr(other, 'lineno', 0) <= getattr(
                            st, 'lineno', 0):
                    tests.append(other.test)
            n += 1
            bad = None
            src_texts = {unparse(r) for r in reads}
            for t in tests:
                if any(unparse(x) in src_texts for x in ast.walk(t)
                       if isinstance(x, ast.Subscript)):
                    bad = t
                    break
                try:
                    sl = backward_slice(fi, t)
                except Exception:
                    continue
                local_reads = set()
                for nm in sl.names:
                    for d in ast.walk(loop):
                        if isinstance(d, ast.Assign) and len(
                                d.targets) == 1 and isinstance(
                                    d.targets[0], ast.Name) \
                                and d.targets[0].id == nm \
                                and unparse(d.value) in src_texts:
                            local_reads.add(nm)
                if local_reads:
                    bad = t
                    break
            ctx.touch(fi)
            ctx.ob(rule, f'{fi.qual}:copy#{n - 1}', fi.loc(st), bad is None,
                   'every piece is copied whatever it contains'
                   if bad is None else
                   f'`{unparse(st)[:50]}` is skipped when '
                   f'`{unparse(bad)[:50]}` holds, a test on the content '
                   'just read from the source: pieces the test misjudges '
                   'are left at the fill value')
    return n


def check_extent_follows_array(ctx, fi, rule='R-TILE/extent-of-the-array'):
    """a tiling loop that runs inside a loop over several arrays (`for el
    in ('indptr', 'indices', 'data'): ... for i0 in range(0, N, S):
    dst[el][i0:i1] = src[el][i0:i1]`) needs the extent of *the array of
    the current turn*: when the array sliced by the window depends on the
    outer loop variable, so must N.  An extent computed once from one of
    the arrays is wrong for every array of another length: the longer
    ones are cut short, silently."""
    from ..core import terms as T
    cfg = cfg_of(fi)
    rd = rd_of(fi)
    ex = Expander(fi)
    n = 0
    for loop in _tiling_loops(fi):
        # enclosing loops over a display of constants
        outers = []
        p_ = getattr(loop, '_parent', None)
        while p_ is not None and not isinstance(p_, (ast.FunctionDef,
                                                     ast.AsyncFunctionDef)):
            if isinstance(p_, ast.For) and isinstance(
                    p_.target, ast.Name) and isinstance(
                        p_.iter, (ast.Tuple, ast.List)) and p_.iter.elts \
                    and all(isinstance(e, ast.Constant)
                            for e in p_.iter.elts):
                outers.append(p_)
            p_ = getattr(p_, '_parent', None)
        if not outers:
            continue
        hdr = [x for x in cfg.nodes_of(loop) if x.kind == 'for'
               and x.id in rd.live]
        if not hdr:
            continue
        v = loop.target.id
        tN = ex.expand(loop.iter.args[1], hdr[0].id)
        for outer in outers:
            ov = outer.target.id
            # arrays sliced by the window whose term depends on the outer
            # loop variable
            dep = []
            for st in ast.walk(loop):
                if not isinstance(st, ast.Subscript):
                    continue
                sl = st.slice
                parts = sl.elts if isinstance(sl, ast.Tuple) else [sl]
                if not any(isinstance(x, ast.Slice) and x.lower is not None
                           and any(isinstance(y, ast.Name) and y.id == v
                                   for y in ast.walk(x.lower))
                           for x in parts):
                    continue
                ns = [x for x in cfg.node_of_expr(st) if x.id in rd.live]
                if not ns:
                    continue
                tb = ex.expand(st.value, ns[0].id)
                if any(isinstance(x, tuple) and x and x[0] in (
                        'iterelem',) for x in T.subterms(tb)) or any(
                            isinstance(y, ast.Name) and y.id == ov
                            for y in ast.walk(st.value)):
                    dep.append(st)
            if not dep:
                continue
            n += 1
            n_dep = any(isinstance(x, tuple) and x and x[0] == 'iterelem'
                        for x in T.subterms(tN)) or any(
                isinstance(y, ast.Name) and y.id == ov
                for y in ast.walk(loop.iter.args[1]))
            # through a local assigned inside the outer loop from the array
            if not n_dep and isinstance(loop.iter.args[1], ast.Name):
                for d in rd.reaching(loop.iter.args[1].id, hdr[0].id):
                    if d.stmt is not None and any(
                            d.stmt is x for x in ast.walk(outer)):
                        n_dep = True
            ctx.touch(fi)
            ctx.ob(rule, f'{fi.qual}:range#{n - 1}', fi.loc(loop), n_dep,
                   'the extent is that of the array of the current turn'
                   if n_dep else
                   f'`{unparse(dep[0])[:40]}` changes with `{ov}`, but the '
                   f'extent `{unparse(loop.iter.args[1])[:40]}` of the '
                   'tiling loop was computed once, from one array: arrays '
                   'of another length are copied short')
    return n
