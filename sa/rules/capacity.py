"""
R-CAP/index-dtype: an index is stored in an integer type wide enough for
the list it points into.

The repository numbers genes by position (`{n: i for i, n in
enumerate(names)}`) and stores those positions.  Where the integer type of
the stored array is chosen from a bound (`choose_int_dtype((0, B))`), B
has to be derived from every list whose positions end up in the array: a
type sized for the reference gene list wraps around positions in a longer
query gene list, and the stored marker indices point at other genes.

Decided on data slices: the parameters the enumerated lists of the maps
read by the data depend on must all be among the parameters the bound
depends on.  An array stored without an explicit type takes numpy's
default (wide) integer and is not judged.
"""
import ast

from ..core.loader import unparse
from ..core.slicing import backward_slice


def _index_maps(fi):
    """local name -> the expression whose positions it holds"""
    out = dict()
    for st in ast.walk(fi.node):
        if not (isinstance(st, ast.Assign) and len(st.targets) == 1
                and isinstance(st.targets[0], ast.Name)
                and isinstance(st.value, ast.DictComp)
                and len(st.value.generators) == 1):
            continue
        g = st.value.generators[0]
        if not (isinstance(g.iter, ast.Call) and isinstance(
                g.iter.func, ast.Name) and g.iter.func.id == 'enumerate'
                and g.iter.args and isinstance(g.target, ast.Tuple)
                and len(g.target.elts) == 2
                and isinstance(g.target.elts[0], ast.Name)):
            continue
        pos = g.target.elts[0].id
        if isinstance(st.value.value, ast.Name) \
                and st.value.value.id == pos:
            out[st.targets[0].id] = (g.iter.args[0], st)
    return out


def _typed_stores(fi):
    """(data expression, dtype expression, node) of every array built or
    cast with an explicit dtype"""
    for c in ast.walk(fi.node):
        if not isinstance(c, ast.Call):
            continue
        f = c.func
        if isinstance(f, ast.Attribute) and f.attr == 'astype' and c.args:
            yield f.value, c.args[0], c
            continue
        dt = [kw.value for kw in c.keywords if kw.arg == 'dtype']
        if not dt:
            continue
        if isinstance(f, ast.Attribute) and f.attr in (
                'array', 'asarray') and c.args:
            yield c.args[0], dt[0], c
        elif isinstance(f, ast.Attribute) and f.attr == 'create_dataset':
            data = [kw.value for kw in c.keywords if kw.arg == 'data']
            if data:
                yield data[0], dt[0], c


def check_index_dtype(ctx, fi, rule='R-CAP/index-dtype'):
    maps = _index_maps(fi)
    if not maps:
        return 0
    n = 0
    for data, dt, node in _typed_stores(fi):
        sd = backward_slice(fi, dt)
        if 'choose_int_dtype' not in sd.call_names():
            continue
        ds = backward_slice(fi, data)
        used = sorted(m for m in maps if m in ds.names)
        if not used:
            continue
        # the maps the bound itself reads stand for their lists
        have = set(sd.params)
        for m in maps:
            if m in sd.names:
                have |= backward_slice(fi, maps[m][0], ).params
        for m in used:
            need = backward_slice(fi, maps[m][0]).params
            ok = need <= have
            n += 1
            ctx.touch(fi)
            ctx.ob(rule, f'{fi.qual}:{m}#{n - 1}', fi.loc(node), ok,
                   f'positions in `{unparse(maps[m][0])[:40]}` are stored '
                   'in a type sized from it' if ok else
                   f'`{unparse(node)[:60]}` stores positions in '
                   f'`{unparse(maps[m][0])[:40]}` (via `{m}`) in a type '
                   f'whose bound depends only on {sorted(have)}: when '
                   'that list is longer than the bound the stored '
                   'indices wrap around')
    return n
