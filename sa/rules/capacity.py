"""
R-CAP/index-dtype: an index is stored in an integer type wide enough for
the list it points into.

The repository numbers genes by position (`{n: i for i, n in
enumerate(names)}`) and stores those positions.  Where the integer type of
the stored array is chosen from a bound (`choose_int_dtype((0, B))`), B
has to be derived from every list whose positions end up in the array: a
type sized for the reference gene list wraps around positions in a longer
query gene list, and the stored marker indices point at other genes.

Decided on data slices: the parameters the enumerated lists of the maps
read by the data depend on must all be among the parameters the bound
depends on.  An array stored without an explicit type takes numpy's
default (wide) integer and is not judged.
"""
import ast

from ..core.loader import unparse
from ..core.slicing import backward_slice


def _index_maps(fi):
    """local name -> the expression whose positions it holds"""
    out = dict()
    for st in ast.walk(fi.node):
        if not (isinstance(st, ast.Assign) and len(st.targets) == 1
                and isinstance(st.targets[0], ast.Name)
                and isinstance(st.value, ast.DictComp)
                and len(st.value.generators) == 1):
            continue
        g = st.value.generators[0]
        if not (isinstance(g.iter, ast.Call) and isinstance(
                g.iter.func, ast.Name) and g.iter.func.id == 'enumerate'
                and g.iter.args and isinstance(g.target, ast.Tuple)
                and len(g.target.elts) == 2
                and isinstance(g.target.elts[0], ast.Name)):
            continue
        pos = g.target.elts[0].id
        if isinstance(st.value.value, ast.Name) \
                and st.value.value.id == pos:
            out[st.targets[0].id] = (g.iter.args[0], st)
    return out


def _typed_stores(fi):
    """(data expression, dtype expression, node) of every array built or
    cast with an explicit dtype"""
    for c in ast.walk(fi.node):
        if not isinstance(c, ast.Call):
            continue
        f = c.func
        if isinstance(f, ast.Attribute) and f.attr == 'astype' and c.args:
            yield f.value, c.args[0], c
            continue
        dt = [kw.value for kw in c.keywords if kw.arg == 'dtype']
        if not dt:
            continue
        if isinstance(f, ast.Attribute) and f.attr in (
                'array', 'asarray') and c.args:
            yield c.args[0], dt[0], c
        elif isinstance(f, ast.Attribute) and f.attr == 'create_dataset':
            data = [kw.value for kw in c.keywords if kw.arg == 'data']
            if data:
                yield data[0], dt[0], c


def check_index_dtype(ctx, fi, rule='R-CAP/index-dtype'):
    maps = _index_maps(fi)
    if not maps:
        return 0
    n = 0
    for data, dt, node in _typed_stores(fi):
        sd = backward_slice(fi, dt)
        if 'choose_int_dtype' not in sd.call_names():
            continue
        ds = backward_slice(fi, data)
        used = sorted(m for m in maps if m in ds.names)
        if not used:
            continue
        # the maps the bound itself reads stand for their lists
        have = set(sd.params)
        for m in maps:
            if m in sd.names:
                have |= backward_slice(fi, maps[m][0], ).params
        for m in used:
            need = backward_slice(fi, maps[m][0]).params
            ok = need <= have
            n += 1
            ctx.touch(fi)
            ctx.ob(rule, f'{fi.qual}:{m}#{n - 1}', fi.loc(node), ok,
                   f'positions in `{unparse(maps[m][0])[:40]}` are stored '
                   'in a type sized from it' if ok else
                   f'`{unparse(node)[:60]}` stores positions in '
                   f'`{unparse(maps[m][0])[:40]}` (via `{m}`) in a type '
                   f'whose bound depends only on {sorted(have)}: when '
                   'that list is longer than the bound the stored '
                   'indices wrap around')
    return n


def _typed_arrays(fi):
    """local array name -> dtype expression, for np.zeros/ones/empty with
    an explicit dtype"""
    out = dict()
    for st in ast.walk(fi.node):
        if isinstance(st, ast.Assign) and len(st.targets) == 1 \
                and isinstance(st.targets[0], ast.Name) \
                and isinstance(st.value, ast.Call) \
                and isinstance(st.value.func, ast.Attribute) \
                and st.value.func.attr in ('zeros', 'ones', 'empty',
                                           'full'):
            for kw in st.value.keywords:
                if kw.arg == 'dtype':
                    out[st.targets[0].id] = kw.value
    return out


def check_sum_capacity(ctx, fi, rule='R-CAP/sum-capacity'):
    """An array that receives *sums* of other integers (``A[..] =
    X[..].sum(..)`` or ``A[..] += X[..]``) and whose integer type is chosen
    from a bound: the bound has to be a bound on the sums.  A bound read
    from the summands without summing them (their largest element) is a
    bound on one term only; the total of several terms wraps around.
    Fixed types and bounds that do not derive from the summands are not
    judged."""
    arrs = _typed_arrays(fi)
    n = 0
    for st in ast.walk(fi.node):
        if isinstance(st, ast.Assign) and len(st.targets) == 1:
            tg, aug = st.targets[0], False
        elif isinstance(st, ast.AugAssign) and isinstance(st.op, ast.Add):
            tg, aug = st.target, True
        else:
            continue
        if not (isinstance(tg, ast.Subscript) and isinstance(
                tg.value, ast.Name) and tg.value.id in arrs):
            continue
        dt = arrs[tg.value.id]
        sd = backward_slice(fi, dt)
        if 'choose_int_dtype' not in sd.call_names():
            continue
        sv = backward_slice(fi, st.value)
        sums = 'sum' in sv.call_names() or (
            aug and not isinstance(st.value, ast.Constant))
        if not sums:
            continue
        n += 1
        ctx.touch(fi)
        shared = sorted(sv.params & sd.params)
        ok = (not shared) or bool(
            {'sum', 'cumsum', 'add'} & sd.call_names())
        ctx.ob(rule, f'{fi.qual}:{tg.value.id}#{n - 1}', fi.loc(st), ok,
               f'`{tg.value.id}` holds sums and its type is sized from a '
               'sum (or from a bound given independently of the summands)'
               if ok else
               f'`{unparse(st)[:70]}` stores sums over {shared} in an '
               f'array whose integer type is sized from '
               f'`{unparse(dt)[:40]}`, which reads {shared} without '
               'summing: a total of several terms exceeds a bound on one '
               'term and wraps around')
    return n


_MEMBER_CLASS = {'data': 'value', 'indices': 'index', 'indptr': 'index'}


def _member_of(name):
    """the sparse-matrix member an identifier or HDF5 key names, if any:
    the repository spells the three arrays of a CSR / CSC matrix `data`,
    `indices` and `indptr` in every parameter list and every file"""
    if not isinstance(name, str):
        return None
    toks = name.replace('/', '_').lower().split('_')
    for m in ('indptr', 'indices', 'data'):
        if m in toks:
            return m
    return None


def _members_in(sl):
    out = set()
    for p in sl.params:
        m = _member_of(p)
        if m:
            out.add(m)
    for c in sl.consts:
        m = _member_of(c)
        if m:
            out.add(m)
    return out


def check_borrowed_dtype(ctx, fi, rule='R-DTYPE/borrowed-type'):
    """An array allocated with the element type of another array
    (``np.zeros(n, dtype=E.dtype)``) holds what E holds.  Of the three
    arrays of a sparse matrix, `data` holds expression values (any float
    or narrow integer type) while `indices` and `indptr` hold positions.
    An array typed from the values and then used as an index member (bound
    to an `indices=` / `indptr=` parameter, stored under such a key, or
    filled from such an array) keeps positions in the value type: they are
    rounded or wrap around.  The members are read off parameter names and
    HDF5 keys (the interface), never off local names."""
    db = ctx.db
    n = 0
    for st in ast.walk(fi.node):
        if not (isinstance(st, ast.Assign) and len(st.targets) == 1
                and isinstance(st.targets[0], ast.Name)
                and isinstance(st.value, ast.Call)
                and isinstance(st.value.func, ast.Attribute)
                and st.value.func.attr in ('zeros', 'ones', 'empty',
                                           'full', 'zeros_like',
                                           'empty_like')):
            continue
        dt = [kw.value for kw in st.value.keywords if kw.arg == 'dtype']
        if not dt and st.value.func.attr in ('zeros', 'empty', 'ones') \
                and len(st.value.args) == 2:
            dt = [st.value.args[1]]
        if not dt:
            continue
        sd = backward_slice(fi, dt[0], positional=True)
        if 'dtype' not in sd.attr_names():
            continue
        typed = {_MEMBER_CLASS[m] for m in _members_in(sd)}
        if len(typed) != 1:
            continue
        name = st.targets[0].id
        used = dict()

        def note(member, where):
            if member:
                used.setdefault(_MEMBER_CLASS[member], (member, where))
        for c in ast.walk(fi.node):
            if isinstance(c, ast.Call):
                for kw in c.keywords:
                    if isinstance(kw.value, ast.Name) \
                            and kw.value.id == name and kw.arg:
                        if kw.arg == 'data' and isinstance(
                                c.func, ast.Attribute) \
                                and c.func.attr == 'create_dataset' \
                                and c.args and isinstance(
                                    c.args[0], ast.Constant):
                            note(_member_of(c.args[0].value), c)
                        elif kw.arg != 'data' or not isinstance(
                                c.func, ast.Attribute):
                            note(_member_of(kw.arg), c)
            tg = None
            if isinstance(c, ast.Assign) and len(c.targets) == 1:
                tg = c.targets[0]
            elif isinstance(c, ast.AugAssign):
                tg = c.target
            if tg is not None and isinstance(tg, ast.Subscript) \
                    and isinstance(tg.value, ast.Name) \
                    and tg.value.id == name:
                sv = backward_slice(fi, c.value, positional=True)
                ms = _members_in(sv)
                if len(ms) == 1:
                    note(next(iter(ms)), c)
        if not used:
            continue
        n += 1
        ctx.touch(fi)
        tcls = next(iter(typed))
        bad = [v for k, v in used.items() if k != tcls]
        ok = not bad
        ctx.ob(rule, f'{fi.qual}:alloc#{n - 1}', fi.loc(st), ok,
               f'`{unparse(st)[:50]}` is typed from and used as the same '
               'kind of sparse-matrix member' if ok else
               f'`{unparse(st)[:70]}` takes its element type from the '
               f'matrix\'s {"values" if tcls == "value" else "positions"} '
               f'but is used as `{bad[0][0]}` '
               f'(`{unparse(bad[0][1])[:50]}`): '
               + ('positions kept in the value type are rounded or wrap '
                  'around' if tcls == 'value' else
                  'values kept in the position type are truncated'))
    return n


def _is_count(node):
    """len(x), x.shape, x.size, x.nnz: how many, not which"""
    if isinstance(node, ast.Call) and isinstance(node.func, ast.Name) \
            and node.func.id == 'len':
        return True
    if isinstance(node, ast.Attribute) and node.attr in ('shape', 'size',
                                                         'nnz'):
        return True
    # a total of counts: sum(len(t[k]) for k in t)
    if isinstance(node, ast.Call) and isinstance(node.func, ast.Name) \
            and node.func.id == 'sum' and len(node.args) == 1 \
            and isinstance(node.args[0], (ast.GeneratorExp, ast.ListComp)) \
            and _is_count(node.args[0].elt):
        return True
    return False


def _kinds(fi, expr):
    """(parameters whose *elements* the value derives from, does it derive
    from counts)"""
    sl = backward_slice(fi, expr, opaque=_is_count)
    return set(sl.params), bool(sl.opaque), sl


def check_bound_kind(ctx, fi, rule='R-CAP/bound-kind'):
    """An array whose integer type is chosen from a bound
    (`choose_int_dtype((lo, B))`) holds either *values* taken from some
    container (gene indices, row numbers) or *counts* (running totals of
    lengths: an indptr).  The bound has to be of the same kind: a type
    sized from the number of entries says nothing about how large the
    entries are (few entries, large values: they wrap around), and a type
    sized from the largest entry says nothing about how many there are.
    Decided on data slices in which `len(x)`, `x.shape`, `x.size` are
    counts and are not looked into: a bound that derives from counts only
    while the stored values derive from the elements of a parameter (or
    the reverse) is of the wrong kind.  Bounds that are parameters
    themselves (`n_genes`) are not judged."""
    arrs = _typed_arrays(fi)
    n = 0
    judged = dict()
    for st in ast.walk(fi.node):
        if isinstance(st, ast.Assign) and len(st.targets) == 1:
            tg = st.targets[0]
        elif isinstance(st, ast.AugAssign):
            tg = st.target
        else:
            continue
        if not (isinstance(tg, ast.Subscript) and isinstance(
                tg.value, ast.Name) and tg.value.id in arrs):
            continue
        if isinstance(st.value, ast.Constant):
            continue
        name = tg.value.id
        dt = arrs[name]
        sd = backward_slice(fi, dt)
        bound = None
        for c in sd.calls:
            f = c.func
            nm = f.id if isinstance(f, ast.Name) else getattr(f, 'attr', '')
            if nm == 'choose_int_dtype' and c.args:
                bound = c.args[0]
        if bound is None:
            continue
        b_elem, b_count, _ = _kinds(fi, bound)
        v_elem, v_count, _ = _kinds(fi, st.value)
        verdict = None
        if v_elem and not b_elem and b_count:
            verdict = ('values', 'the number of entries')
        elif not v_elem and v_count and b_elem and not b_count:
            verdict = ('counts', 'the largest entry')
        judged.setdefault(name, []).append((st, verdict, bound))
    # a whole array cast at once: X.astype(choose_int_dtype((lo, B)))
    for c in ast.walk(fi.node):
        if not (isinstance(c, ast.Call) and isinstance(
                c.func, ast.Attribute) and c.func.attr == 'astype'
                and len(c.args) == 1):
            continue
        sd = backward_slice(fi, c.args[0])
        bound = None
        for c2 in list(sd.calls) + [c.args[0]]:
            if not isinstance(c2, ast.Call):
                continue
            f = c2.func
            nm = f.id if isinstance(f, ast.Name) else getattr(f, 'attr', '')
            if nm == 'choose_int_dtype' and c2.args:
                bound = c2.args[0]
        if bound is None:
            continue
        # positions in an array (np.where(m)[0], argsort, arange, ...) are
        # bounded by its length: counts, whatever the array holds
        if any(isinstance(x, ast.Call) and getattr(
                x.func, 'attr', getattr(x.func, 'id', None)) in (
                    'where', 'nonzero', 'flatnonzero', 'argwhere',
                    'argsort', 'arange', 'searchsorted', 'argmax',
                    'argmin', 'cumsum', 'bincount')
               for x in ast.walk(c.func.value)):
            continue
        # ... and so are the index arrays of a sparse matrix object
        try:
            from ..core.defuse import Expander, term_contains
            from ..core.cfg import cfg_of as _cfg_of
            _nodes = list(_cfg_of(fi).node_of_expr(c))
            _t = Expander(fi).expand(c.func.value,
                                     _nodes[0].id if _nodes else None)
            if term_contains(_t, lambda x: isinstance(x, tuple) and x
                             and x[0] == 'attr' and x[-1] in (
                                 'indices', 'indptr', 'row', 'col')):
                continue
        except Exception:
            pass
        b_elem, b_count, _ = _kinds(fi, bound)
        v_elem, v_count, _ = _kinds(fi, c.func.value)
        verdict = None
        if v_elem and not b_elem and b_count:
            verdict = ('values', 'the number of entries')
        elif not v_elem and v_count and b_elem and not b_count:
            verdict = ('counts', 'the largest entry')
        judged.setdefault(f'astype@{unparse(c.func.value)[:30]}',
                          []).append((c, verdict, bound))
    for name, items in sorted(judged.items()):
        n += 1
        ctx.touch(fi)
        bad = [(st, v, b) for (st, v, b) in items if v is not None]
        ok = not bad
        st, v, b = (bad or items)[0]
        ctx.ob(rule, f'{fi.qual}:{name}', fi.loc(st), ok,
               f'the type of `{name}` is sized from a bound of the kind of '
               'what it stores' if ok else
               f'`{unparse(st)[:60]}` stores {v[0]} in `{name}`, whose '
               f'integer type is sized from `{unparse(b)[:40]}`, i.e. from '
               f'{v[1]}: that bounds the wrong quantity and the stored '
               'numbers wrap around')
    return n


_WIDENERS = {'astype', 'int64', 'int', 'asarray', 'array', 'intp',
             'uint64', 'float', 'float64'}


def check_index_arithmetic_widened(ctx, fi,
                                   rule='R-CAP/index-arithmetic-widened'):
    """the index arrays of a sparse matrix travel in the narrowest integer
    type that holds their values (`choose_int_dtype`); arithmetic on them
    stays in that type.  A product of such an array -- taken from an
    `indices` / `indptr` parameter as it came -- with a size (`len(..)`,
    `.shape[..]`, a count derived from them) can exceed the array's own
    type although every factor fits, and wraps around silently.  Such a
    product is accepted only if the array operand was widened first
    (`astype`, `np.int64(..)`, `np.asarray(.., dtype=..)`)."""
    from ..core.defuse import Expander, rd_of
    from ..core.cfg import cfg_of
    from ..core import terms as T
    idx_params = [p for p in fi.params if _member_of(p) in ('indices',
                                                            'indptr')]
    if not idx_params:
        return 0
    cfg = cfg_of(fi)
    rd = rd_of(fi)
    ex = Expander(fi)
    n = 0
    for node in cfg.nodes:
        if node.id not in rd.live or node.ast is None or node.kind not in (
                'stmt', 'return'):
            continue
        for e in ast.walk(node.ast):
            if not (isinstance(e, ast.BinOp) and isinstance(e.op, ast.Mult)):
                continue
            sides = []
            for side in (e.left, e.right):
                try:
                    t = ex.expand(side, node.id)
                except Exception:
                    t = None
                sides.append(t)
            if None in sides:
                continue

            def is_index_array(t):
                ps = {x[1] for x in T.subterms(t)
                      if isinstance(x, tuple) and x and x[0] == 'param'}
                if not (ps & set(idx_params)):
                    return False
                for x in T.subterms(t):
                    if isinstance(x, tuple) and x and x[0] == 'call':
                        nm = T.call_name(x)
                        if nm in _WIDENERS or nm in ('len', 'sum', 'max',
                                                     'min', 'diff',
                                                     'bincount', 'cumsum',
                                                     'arange', 'repeat'):
                            return False
                    if isinstance(x, tuple) and x and x[0] == 'attr' \
                            and x[2] in ('shape', 'size'):
                        return False
                # an element read (`indptr[i]`) is a scalar of the type
                # too, but python scalars from h5py/numpy item access are
                # not judged
                return True

            def is_size(t):
                for x in T.subterms(t):
                    if isinstance(x, tuple) and x and x[0] == 'call' \
                            and T.call_name(x) == 'len':
                        return True
                    if isinstance(x, tuple) and x and x[0] == 'attr' \
                            and x[2] in ('shape', 'size'):
                        return True
                return False
            a, b = sides
            pair = None
            if is_index_array(a) and is_size(b):
                pair = (e.left, e.right)
            elif is_index_array(b) and is_size(a):
                pair = (e.right, e.left)
            if pair is None:
                continue
            n += 1
            ctx.touch(fi)
            ctx.fail(rule, f'{fi.qual}:product#{n - 1}', fi.loc(e),
                     f'`{unparse(e)[:60]}` multiplies the index array '
                     f'`{unparse(pair[0])[:30]}`, in whatever integer type '
                     f'the caller stored it, by the size '
                     f'`{unparse(pair[1])[:30]}`: the product can exceed '
                     'that type and wraps around; widen the array first')
    return n


def check_index_cast_to_input_dtype(ctx, fi,
                                    rule='R-CAP/index-cast-to-input-type'):
    """`result.astype(indices.dtype)`: an index array produced by the
    function (read back from a file, computed) is forced into the integer
    type of an index array the function was *given*.  That type was sized
    by the caller for the values of its own array (`choose_int_dtype`);
    the result's values -- after a transposition the positions along the
    other axis -- are unrelated to it, and a narrow type wraps them
    around.  A cast of a selection of the parameter itself is fine."""
    idx_params = [p for p in fi.params if _member_of(p) in ('indices',
                                                            'indptr')]
    if not idx_params:
        return 0
    n = 0
    for c in ast.walk(fi.node):
        if not (isinstance(c, ast.Call) and isinstance(
                c.func, ast.Attribute) and c.func.attr == 'astype'
                and c.args):
            continue
        a = c.args[0]
        if not (isinstance(a, ast.Attribute) and a.attr == 'dtype'
                and isinstance(a.value, ast.Name)
                and a.value.id in idx_params):
            continue
        src = backward_slice(fi, c.func.value)
        if a.value.id in src.params and not src.consts:
            continue          # a selection / arithmetic of the parameter
        n += 1
        ctx.touch(fi)
        ctx.fail(rule, f'{fi.qual}:cast#{n - 1}', fi.loc(c),
                 f'`{unparse(c)[:70]}` forces an index array the function '
                 f'produced into the integer type of its input '
                 f'`{a.value.id}`: that type was sized for the input\'s '
                 'values, the result\'s values (positions along the other '
                 'axis after a transposition) wrap around in it')
    return n


def check_capacity_predicates(ctx, fi, rule='R-CAP/fits-predicate'):
    """where an integer type is chosen by comparing a quantity with the
    capacity of a candidate (`np.iinfo(c).max`, `2**np.iinfo(c).bits`), the
    comparison admits the narrow type at most up to quantity == capacity
    (2**bits): that is the most generous correct reading (the quantity is a
    count of slices, the stored indexes run to count - 1).  A predicate
    that admits capacity + 1 (`n - 1 <= 2**bits`, `n <= iinfo.max + 2`)
    stores an index that wraps to 0.  Decided as a linear inequality over
    the atoms CAP = iinfo.max + 1 and the quantity."""
    from ..core.cfg import cfg_of
    from ..core.defuse import rd_of, Expander
    from ..core import poly as P
    from ..core import terms as T
    cfg = cfg_of(fi)
    rd = rd_of(fi)
    src = ast.unparse(fi.node)
    if 'iinfo' not in src:
        return 0
    ex = Expander(fi)
    CAP = ('CAP',)

    def is_iinfo(t):
        return isinstance(t, tuple) and t and t[0] == 'call' \
            and T.call_name(t) == 'iinfo'

    def atoms(t):
        if not (isinstance(t, tuple) and t):
            return None
        if t[0] == 'attr' and t[2] == 'max' and (
                is_iinfo(t[1]) or any(is_iinfo(a) for a in (
                    t[1][1] if t[1][0] == 'phi' else ()))):
            return P._add(P.atom(CAP), P.const(1), -1)
        if t[0] == 'binop' and t[1] == 'Pow' and t[2] == ('const', '2') \
                and isinstance(t[3], tuple) and t[3][0] == 'attr' \
                and t[3][2] == 'bits':
            return P.atom(CAP)
        if t[0] == 'call' and T.call_name(t) in ('max', 'round', 'int',
                                                 'ceil') and t[2]:
            # max(0, x): the clamp from below does not matter here
            args = [a for a in t[2] if a != ('const', '0')]
            if len(args) == 1:
                return P.poly(args[0], atoms)
        return None

    capm = ((CAP, 1),)
    n = 0
    for node in cfg.nodes:
        if node.id not in rd.live or node.kind not in ('if', 'while'):
            continue
        for c in ast.walk(node.ast.test):
            if not (isinstance(c, ast.Compare) and len(c.ops) == 1
                    and isinstance(c.ops[0], (ast.Lt, ast.LtE, ast.Gt,
                                              ast.GtE))):
                continue
            try:
                a = P.poly(ex.expand(c.left, node.id), atoms)
                b = P.poly(ex.expand(c.comparators[0], node.id), atoms)
            except Exception:
                continue
            a_cap, b_cap = capm in a, capm in b
            if a_cap == b_cap:
                continue
            op = c.ops[0]
            if a_cap:       # capacity OP quantity  ->  quantity OP' cap
                a, b = b, a
                op = {ast.Lt: ast.Gt, ast.LtE: ast.GtE, ast.Gt: ast.Lt,
                      ast.GtE: ast.LtE}[type(op)]()
            # a: quantity side, b: capacity side; the narrow type is used
            # for a < b, a <= b, not (a >= b), not (a > b)
            strict = isinstance(op, (ast.Lt, ast.GtE))
            admitted = P._add(b, P.const(1), -1) if strict else b
            # a = q + k with q one atom of coefficient 1
            k = a.get((), 0)
            rest = {m: v for m, v in a.items() if m != ()}
            if len(rest) != 1 or list(rest.values())[0] != 1:
                continue
            d = P._add(P._add(admitted, P.const(k), -1), P.atom(CAP), -1)
            if any(m != () for m in d):
                continue
            n += 1
            over = d.get((), 0)
            ok = over <= 0
            ctx.touch(fi)
            ctx.ob(rule, f'{fi.qual}:{unparse(c)[:50]}', fi.loc(c), ok,
                   'the narrow type is admitted at most up to its '
                   'capacity' if ok else
                   f'`{unparse(c)[:60]}` admits the candidate type for a '
                   f'quantity of capacity + {over} (2**bits + {over}): the '
                   'largest index then does not fit and wraps around')
    return n
