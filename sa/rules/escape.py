"""
R-ALIAS/tree-state: the taxonomy a run was given is not edited through
what its accessors hand out.

A TaxonomyTree is shared by every stage of a run (and by successive calls
of a front end); its contents are only ever replaced by building a new
tree.  Most accessors return copies (`copy.deepcopy(...)`, `list(...)`,
freshly built dicts).  An accessor whose returned value is, on some path, a
bare `self._data[...]...` chain hands out the container the tree itself
reads; any caller that then stores into that value, or calls a mutating
method on it (or on one of its elements), edits the tree for every later
reader.

Decided over the whole package, in two steps:
  1. the *alias accessors*: public methods / properties of the class one
     of whose return values expands (through local definitions) to a
     subscript / attribute chain rooted at `self._data` with no call in
     between;
  2. every use `X.<accessor>` / `X.<accessor>(...)` in the package whose
     value is bound to a local: the local (and its elements) must not be
     stored into, deleted from, or receive `append / extend / insert / pop
     / remove / clear / sort / reverse / update / add / discard /
     setdefault / popitem`; a direct `X.<accessor>[k] = v` counts too.

An accessor that returns a copy on every path is not an alias accessor and
its users are free to edit what they get.
"""
import ast

from ..core.cfg import cfg_of
from ..core.defuse import rd_of, Expander, term_alts
from ..core.loader import unparse, AnalysisError

MUTATORS = {'append', 'extend', 'insert', 'pop', 'remove', 'clear', 'sort',
            'reverse', 'update', 'add', 'discard', 'setdefault', 'popitem',
            'difference_update', 'intersection_update', 'fill', 'resize',
            'put', 'itemset'}


def _bare_chain(t, root_attr):
    """the term is self.<root_attr> followed only by subscripts /
    attribute reads"""
    while isinstance(t, tuple) and t and t[0] in ('sub', 'attr'):
        if t[0] == 'attr':
            base = t[1]
            if isinstance(base, tuple) and base and base[0] == 'param' \
                    and base[1] == 'self' and t[2] == root_attr:
                return True
            t = base
        else:
            t = t[1]
    return False


def alias_accessors(db, class_qual, root_attr='_data'):
    """name -> (FunctionInfo, return node) of the public accessors that
    return internal containers"""
    ci = db.cls(class_qual)
    out = dict()
    for name, fi in sorted(ci.methods.items()):
        if name.startswith('_'):
            continue
        cfg = cfg_of(fi)
        rd = rd_of(fi)
        ex = Expander(fi)
        for node in cfg.nodes:
            if node.kind != 'return' or node.id not in rd.live \
                    or node.ast is None or node.ast.value is None:
                continue
            try:
                t = ex.expand(node.ast.value, node.id)
            except Exception:
                continue
            if any(_bare_chain(a, root_attr) for a in term_alts(t)):
                out[name] = (fi, node.ast)
                break
    return out


def _root_name(e):
    while isinstance(e, (ast.Subscript, ast.Attribute)):
        e = e.value
    return e.id if isinstance(e, ast.Name) else None


def _is_access(e, names):
    """e is `X.name` or `X.name(...)` for an accessor name"""
    if isinstance(e, ast.Call):
        e = e.func
    if isinstance(e, ast.Attribute) and e.attr in names:
        return e.attr
    return None


def _edits(fn_node, local):
    """statements of the function that edit the object bound to `local`
    or one of its elements"""
    for st in ast.walk(fn_node):
        tgs = []
        if isinstance(st, ast.Assign):
            tgs = st.targets
        elif isinstance(st, ast.AugAssign):
            tgs = [st.target]
        elif isinstance(st, ast.Delete):
            tgs = st.targets
        for tg in tgs:
            for leaf in (tg.elts if isinstance(tg, (ast.Tuple, ast.List))
                         else [tg]):
                if isinstance(leaf, ast.Subscript) \
                        and _root_name(leaf) == local:
                    yield st
        if isinstance(st, ast.Call) and isinstance(
                st.func, ast.Attribute) and st.func.attr in MUTATORS \
                and _root_name(st.func.value) == local \
                and not isinstance(st.func.value, ast.Attribute):
            yield st


def check_tree_state_not_mutated(
        ctx, class_qual='taxonomy.taxonomy_tree:TaxonomyTree',
        rule='R-ALIAS/tree-state'):
    db = ctx.db
    acc = alias_accessors(db, class_qual)
    ci = db.cls(class_qual)
    n_public = sum(1 for m in ci.methods if not m.startswith('_'))
    if n_public < 10:
        raise AnalysisError(f'{class_qual}: only {n_public} public '
                            'accessors found')
    for m in ci.methods.values():
        ctx.touch(m)
    names = set(acc)
    bad = dict()
    n_use = 0
    if names:
        for fi in db.iter_functions():
            if fi.module.short.startswith('gpu_utils'):
                continue
            hits = []
            for st in ast.walk(fi.node):
                # bound to a local
                if isinstance(st, ast.Assign) and len(st.targets) == 1 \
                        and isinstance(st.targets[0], ast.Name):
                    a = _is_access(st.value, names)
                    if a:
                        hits.append((a, st.targets[0].id, st))
                # edited in place without a local
                tgs = []
                if isinstance(st, ast.Assign):
                    tgs = st.targets
                elif isinstance(st, ast.AugAssign):
                    tgs = [st.target]
                elif isinstance(st, ast.Delete):
                    tgs = st.targets
                for tg in tgs:
                    e = tg
                    while isinstance(e, ast.Subscript):
                        e = e.value
                        a = _is_access(e, names)
                        if a and e is not tg:
                            bad.setdefault(a, []).append((fi, st))
                            break
                if isinstance(st, ast.Call) and isinstance(
                        st.func, ast.Attribute) \
                        and st.func.attr in MUTATORS:
                    e = st.func.value
                    while isinstance(e, ast.Subscript):
                        e = e.value
                    a = _is_access(e, names)
                    if a:
                        bad.setdefault(a, []).append((fi, st))
            for a, local, st in hits:
                n_use += 1
                # aliases of the local made by plain assignment
                locs = {local}
                grew = True
                while grew:
                    grew = False
                    for s2 in ast.walk(fi.node):
                        if isinstance(s2, ast.Assign) and len(
                                s2.targets) == 1 and isinstance(
                                    s2.targets[0], ast.Name) \
                                and isinstance(s2.value, ast.Name) \
                                and s2.value.id in locs \
                                and s2.targets[0].id not in locs:
                            locs.add(s2.targets[0].id)
                            grew = True
                for lc in sorted(locs):
                    for ed in _edits(fi.node, lc):
                        bad.setdefault(a, []).append((fi, ed))
    n_copy = n_public - len(acc)
    for a in sorted(acc):
        fi_a, ret = acc[a]
        offenders = bad.get(a, [])
        ok = not offenders
        if ok:
            ctx.ok(rule, f'{class_qual}.{a}', fi_a.loc(ret),
                   f'`{unparse(ret)[:60]}` hands out the tree\'s own '
                   'container; no user in the package edits it')
        else:
            fo, st = offenders[0]
            ctx.touch(fo)
            ctx.fail(rule, f'{class_qual}.{a}', fo.loc(st),
                     f'`{a}` returns the tree\'s own container '
                     f'(`{unparse(ret)[:50]}`) and {fo.qual} edits it in '
                     f'place (`{unparse(st)[:60]}`): the taxonomy every '
                     'later reader (and the copy written to the output) '
                     'sees is no longer the one that was given')
    ctx.ok(rule, f'{class_qual}:accessors', ci.module.relpath,
           f'{n_public} public accessors: {n_copy} return copies or new '
           f'objects, {len(acc)} hand out internal state '
           f'({", ".join(sorted(acc))}); {n_use} bound use(s) examined',
           nontrivial=True)
    return len(acc)


def check_param_records_not_edited(ctx, fi, params,
                                   rule='R-ALIAS/records-read-only'):
    """a function that turns the mapping results into another
    representation (data frame, CSV, HDF5) reads the records it is handed;
    the same list goes on to the next writer and into the JSON output.  The
    records -- reached by iterating / indexing the parameter -- are not
    stored into, deleted from or given a mutating method.  `dict(rec)` /
    `list(x)` / `.copy()` copy one level only: the copy's own keys may be
    set, but what hangs below them is still the caller's; `deepcopy` gives
    a record of the function's own.  Judged per statement on the reaching
    definitions of the name that is edited."""
    from ..core.cfg import cfg_of
    from ..core.defuse import rd_of
    params = [p for p in params if p in fi.params]
    if not params:
        return 0
    cfg = cfg_of(fi)
    rd = rd_of(fi)
    ORDER = {'fresh': 0, 'shallow': 1, 'deep': 2}
    memo = dict()

    def join(a, b):
        return a if ORDER[a] >= ORDER[b] else b

    def class_of_def(d, depth):
        if d.id in memo:
            return memo[d.id]
        memo[d.id] = 'fresh'           # recursion guard
        if d.kind == 'param':
            r = 'deep' if d.name in params else 'fresh'
        elif d.kind == 'for':
            c = class_of_expr(d.value, d.node, depth + 1)
            r = 'deep' if c in ('deep', 'shallow') else 'fresh'
        elif d.kind in ('assign', 'walrus') and d.value is not None:
            r = class_of_expr(d.value, d.node, depth + 1)
            if d.path and r == 'shallow':
                r = 'deep'
        else:
            r = 'fresh'
        memo[d.id] = r
        return r

    def class_of_name(name, nid, depth):
        out = 'fresh'
        for d in rd.reaching(name, nid):
            out = join(out, class_of_def(d, depth))
        return out

    def class_of_expr(e, nid, depth):
        if depth > 12 or e is None:
            return 'fresh'
        if isinstance(e, ast.Name):
            return class_of_name(e.id, nid, depth)
        if isinstance(e, ast.Call):
            f = e.func
            nm = f.id if isinstance(f, ast.Name) else getattr(
                f, 'attr', None)
            if nm == 'deepcopy':
                return 'fresh'
            if nm in ('dict', 'list', 'tuple', 'sorted') and len(
                    e.args) == 1 and isinstance(f, ast.Name):
                c = class_of_expr(e.args[0], nid, depth + 1)
                return 'shallow' if c in ('deep', 'shallow') else 'fresh'
            if nm == 'copy' and isinstance(f, ast.Attribute):
                if isinstance(f.value, ast.Name) and f.value.id == 'copy' \
                        and e.args:
                    c = class_of_expr(e.args[0], nid, depth + 1)
                else:
                    c = class_of_expr(f.value, nid, depth + 1)
                return 'shallow' if c in ('deep', 'shallow') else 'fresh'
            if nm in ('enumerate', 'reversed', 'zip') and e.args:
                out = 'fresh'
                for a in e.args:
                    out = join(out, class_of_expr(a, nid, depth + 1))
                return out
            if nm in ('values', 'items', 'get') and isinstance(
                    f, ast.Attribute):
                c = class_of_expr(f.value, nid, depth + 1)
                return 'deep' if c in ('deep', 'shallow') else 'fresh'
            return 'fresh'
        if isinstance(e, ast.Subscript):
            c = class_of_expr(e.value, nid, depth + 1)
            return 'deep' if c in ('deep', 'shallow') else 'fresh'
        return 'fresh'

    def depth_and_root(e):
        d = 0
        while isinstance(e, ast.Subscript):
            d += 1
            e = e.value
        return d, (e if isinstance(e, ast.Name) else None)
    bad = []
    for node in cfg.nodes:
        if node.id not in rd.live or node.ast is None or node.kind not in (
                'stmt',):
            continue
        st = node.ast
        cands = []
        tgs = []
        if isinstance(st, ast.Assign):
            tgs = st.targets
        elif isinstance(st, ast.AugAssign):
            tgs = [st.target]
        elif isinstance(st, ast.Delete):
            tgs = st.targets
        for tg in tgs:
            if isinstance(tg, ast.Subscript):
                d, r = depth_and_root(tg)
                if r is not None:
                    cands.append((d, r))
        for c in ast.walk(st):
            if isinstance(c, ast.Call) and isinstance(
                    c.func, ast.Attribute) and c.func.attr in MUTATORS:
                d, r = depth_and_root(c.func.value)
                if r is not None:
                    cands.append((d + 1, r))
        for (d, r) in cands:
            c = class_of_name(r.id, node.id, 0)
            if c == 'deep' or (c == 'shallow' and d >= 2):
                bad.append(st)
                break
    n = 0
    for p in params:
        n += 1
        ctx.touch(fi)
        ok = not bad
        ctx.ob(rule, f'{fi.qual}:{p}', fi.loc(bad[0]) if bad else fi.loc(),
               ok, f'the records handed in as `{p}` are only read' if ok
               else f'`{unparse(bad[0])[:60]}` edits a record reached '
               f'from the parameter `{p}` (a one-level copy still shares '
               'what hangs below its keys): the caller\'s results -- the '
               'ones written to the other outputs -- lose or change that '
               'field')
    return n
