"""
R-ALIAS/tree-state: the taxonomy a run was given is not edited through
what its accessors hand out.

A TaxonomyTree is shared by every stage of a run (and by successive calls
of a front end); its contents are only ever replaced by building a new
tree.  Most accessors return copies (`copy.deepcopy(...)`, `list(...)`,
freshly built dicts).  An accessor whose returned value is, on some path, a
bare `self._data[...]...` chain hands out the container the tree itself
reads; any caller that then stores into that value, or calls a mutating
method on it (or on one of its elements), edits the tree for every later
reader.

Decided over the whole package, in two steps:
  1. the *alias accessors*: public methods / properties of the class one
     of whose return values expands (through local definitions) to a
     subscript / attribute chain rooted at `self._data` with no call in
     between;
  2. every use `X.<accessor>` / `X.<accessor>(...)` in the package whose
     value is bound to a local: the local (and its elements) must not be
     stored into, deleted from, or receive `append / extend / insert / pop
     / remove / clear / sort / reverse / update / add / discard /
     setdefault / popitem`; a direct `X.<accessor>[k] = v` counts too.

An accessor that returns a copy on every path is not an alias accessor and
its users are free to edit what they get.
"""
import ast

from ..core.cfg import cfg_of
from ..core.defuse import rd_of, Expander, term_alts
from ..core.loader import unparse, AnalysisError

MUTATORS = {'append', 'extend', 'insert', 'pop', 'remove', 'clear', 'sort',
            'reverse', 'update', 'add', 'discard', 'setdefault', 'popitem',
            'difference_update', 'intersection_update', 'fill', 'resize',
            'put', 'itemset'}


def _bare_chain(t, root_attr):
    """the term is self.<root_attr> followed only by subscripts /
    attribute reads"""
    while isinstance(t, tuple) and t and t[0] in ('sub', 'attr'):
        if t[0] == 'attr':
            base = t[1]
            if isinstance(base, tuple) and base and base[0] == 'param' \
                    and base[1] == 'self' and t[2] == root_attr:
                return True
            t = base
        else:
            t = t[1]
    return False


def alias_accessors(db, class_qual, root_attr='_data'):
    """name -> (FunctionInfo, return node) of the public accessors that
    return internal containers"""
    ci = db.cls(class_qual)
    out = dict()
    for name, fi in sorted(ci.methods.items()):
        if name.startswith('_'):
            continue
        cfg = cfg_of(fi)
        rd = rd_of(fi)
        ex = Expander(fi)
        for node in cfg.nodes:
            if node.kind != 'return' or node.id not in rd.live \
                    or node.ast is None or node.ast.value is None:
                continue
            try:
                t = ex.expand(node.ast.value, node.id)
            except Exception:
                continue
            if any(_bare_chain(a, root_attr) for a in term_alts(t)):
                out[name] = (fi, node.ast)
                break
    return out


def _root_name(e):
    while isinstance(e, (ast.Subscript, ast.Attribute)):
        e = e.value
    return e.id if isinstance(e, ast.Name) else None


def _is_access(e, names):
    """e is `X.name` or `X.name(...)` for an accessor name"""
    if isinstance(e, ast.Call):
        e = e.func
    if isinstance(e, ast.Attribute) and e.attr in names:
        return e.attr
    return None


def _edits(fn_node, local):
    """statements of the function that edit the object bound to `local`
    or one of its elements"""
    for st in ast.walk(fn_node):
        tgs = []
        if isinstance(st, ast.Assign):
            tgs = st.targets
        elif isinstance(st, ast.AugAssign):
            tgs = [st.target]
        elif isinstance(st, ast.Delete):
            tgs = st.targets
        for tg in tgs:
            for leaf in (tg.elts if isinstance(tg, (ast.Tuple, ast.List))
                         else [tg]):
                if isinstance(leaf, ast.Subscript) \
                        and _root_name(leaf) == local:
                    yield st
        if isinstance(st, ast.Call) and isinstance(
                st.func, ast.Attribute) and st.func.attr in MUTATORS \
                and _root_name(st.func.value) == local \
                and not isinstance(st.func.value, ast.Attribute):
            yield st


def check_tree_state_not_mutated(
        ctx, class_qual='taxonomy.taxonomy_tree:TaxonomyTree',
        rule='R-ALIAS/tree-state'):
    db = ctx.db
    acc = alias_accessors(db, class_qual)
    ci = db.cls(class_qual)
    n_public = sum(1 for m in ci.methods if not m.startswith('_'))
    if n_public < 10:
        raise AnalysisError(f'{class_qual}: only {n_public} public '
                            'accessors found')
    for m in ci.methods.values():
        ctx.touch(m)
    names = set(acc)
    bad = dict()
    n_use = 0
    if names:
        for fi in db.iter_functions():
            if fi.module.short.startswith('gpu_utils'):
                continue
            hits = []
            for st in ast.walk(fi.node):
                # bound to a local
                if isinstance(st, ast.Assign) and len(st.targets) == 1 \
                        and isinstance(st.targets[0], ast.Name):
                    a = _is_access(st.value, names)
                    if a:
                        hits.append((a, st.targets[0].id, st))
                # edited in place without a local
                tgs = []
                if isinstance(st, ast.Assign):
                    tgs = st.targets
                elif isinstance(st, ast.AugAssign):
                    tgs = [st.target]
                elif isinstance(st, ast.Delete):
                    tgs = st.targets
                for tg in tgs:
                    e = tg
                    while isinstance(e, ast.Subscript):
                        e = e.value
                        a = _is_access(e, names)
                        if a and e is not tg:
                            bad.setdefault(a, []).append((fi, st))
                            break
                if isinstance(st, ast.Call) and isinstance(
                        st.func, ast.Attribute) \
                        and st.func.attr in MUTATORS:
                    e = st.func.value
                    while isinstance(e, ast.Subscript):
                        e = e.value
                    a = _is_access(e, names)
                    if a:
                        bad.setdefault(a, []).append((fi, st))
            for a, local, st in hits:
                n_use += 1
                # aliases of the local made by plain assignment
                locs = {local}
                grew = True
                while grew:
                    grew = False
                    for s2 in ast.walk(fi.node):
                        if isinstance(s2, ast.Assign) and len(
                                s2.targets) == 1 and isinstance(
                                    s2.targets[0], ast.Name) \
                                and isinstance(s2.value, ast.Name) \
                                and s2.value.id in locs \
                                and s2.targets[0].id not in locs:
                            locs.add(s2.targets[0].id)
                            grew = True
                for lc in sorted(locs):
                    for ed in _edits(fi.node, lc):
                        bad.setdefault(a, []).append((fi, ed))
    n_copy = n_public - len(acc)
    for a in sorted(acc):
        fi_a, ret = acc[a]
        offenders = bad.get(a, [])
        ok = not offenders
        if ok:
            ctx.ok(rule, f'{class_qual}.{a}', fi_a.loc(ret),
                   f'`{unparse(ret)[:60]}` hands out the tree\'s own '
                   'container; no user in the package edits it')
        else:
            fo, st = offenders[0]
            ctx.touch(fo)
            ctx.fail(rule, f'{class_qual}.{a}', fo.loc(st),
                     f'`{a}` returns the tree\'s own container '
                     f'(`{unparse(ret)[:50]}`) and {fo.qual} edits it in '
                     f'place (`{unparse(st)[:60]}`): the taxonomy every '
                     'later reader (and the copy written to the output) '
                     'sees is no longer the one that was given')
    ctx.ok(rule, f'{class_qual}:accessors', ci.module.relpath,
           f'{n_public} public accessors: {n_copy} return copies or new '
           f'objects, {len(acc)} hand out internal state '
           f'({", ".join(sorted(acc))}); {n_use} bound use(s) examined',
           nontrivial=True)
    return len(acc)
