"""
R-PERM/unsort-pair: what is un-sorted was read in sorted order.

Row batches are read with the requested indices *sorted* (HDF5 wants
increasing indices) and put back into the requested order afterwards:

    p = np.argsort(rows);  s = rows[p]
    raw = handle[s, :]                       # row i of raw is rows[p[i]]
    for i, j in enumerate(p): out[j] = raw[i]     # or  out[p] = raw

The un-sorting step is right only for data that was gathered with the
sorted copy `s` belonging to that same permutation `p`.  If some
definition of the un-sorted array reads the rows in another order (the
requested order, a slice), the step scrambles them: shapes, dtypes and the
*set* of rows stay right, the order does not.
"""
import ast

from ..core.cfg import cfg_of
from ..core.defuse import rd_of
from ..core.loader import unparse


def _call_name(c):
    f = c.func
    return f.attr if isinstance(f, ast.Attribute) else (
        f.id if isinstance(f, ast.Name) else None)


def check_unsort_pairs(ctx, fi, rule='R-PERM/unsort-pair'):
    cfg = cfg_of(fi)
    rd = rd_of(fi)
    n = 0
    # permutations: p = np.argsort(R)
    perms = dict()
    for d in rd.defs:
        v = getattr(d, 'value', None)
        if d.kind == 'assign' and isinstance(v, ast.Call) and _call_name(
                v) == 'argsort' and v.args and not d.path:
            perms.setdefault(d.name, []).append(d)
    if not perms:
        return 0

    def sorted_by(name, nid, p):
        """every definition of `name` reaching nid is `X[p]`"""
        ds = rd.reaching(name, nid)
        if not ds:
            return False
        for d in ds:
            v = getattr(d, 'value', None)
            if not (d.kind == 'assign' and isinstance(v, ast.Subscript)
                    and isinstance(v.slice, ast.Name)
                    and v.slice.id == p):
                return False
        return True

    def gathered_sorted(x_name, nid, p):
        """every definition of x reaching nid reads with an index sorted
        by p; returns (ok, offending definition)"""
        for d in rd.reaching(x_name, nid):
            v = getattr(d, 'value', None)
            ok = False
            if d.kind == 'assign' and isinstance(v, ast.Subscript):
                first = v.slice.elts[0] if isinstance(
                    v.slice, ast.Tuple) and v.slice.elts else v.slice
                if isinstance(first, ast.Name) and sorted_by(
                        first.id, d.node, p):
                    ok = True
            if not ok:
                return False, d
        return True, None

    for p in perms:
        sites = []
        # (a) for i, j in enumerate(p): OUT[j, ...] = X[i, ...]
        for lp in ast.walk(fi.node):
            if isinstance(lp, ast.For) and isinstance(
                    lp.iter, ast.Call) and _call_name(
                        lp.iter) == 'enumerate' and lp.iter.args \
                    and isinstance(lp.iter.args[0], ast.Name) \
                    and lp.iter.args[0].id == p and isinstance(
                        lp.target, ast.Tuple) and len(lp.target.elts) == 2:
                i_v, j_v = [getattr(e, 'id', None) for e in lp.target.elts]
                for st in ast.walk(lp):
                    if isinstance(st, ast.Assign) and isinstance(
                            st.targets[0], ast.Subscript) and isinstance(
                                st.value, ast.Subscript) and isinstance(
                                    st.value.value, ast.Name):
                        ti = st.targets[0].slice
                        vi = st.value.slice
                        t0 = ti.elts[0] if isinstance(ti, ast.Tuple) else ti
                        v0 = vi.elts[0] if isinstance(vi, ast.Tuple) else vi
                        if getattr(t0, 'id', None) == j_v and getattr(
                                v0, 'id', None) == i_v:
                            sites.append((st, st.value.value.id))
        # (b) OUT[p] = X  /  OUT[p, :] = X
        for st in ast.walk(fi.node):
            if isinstance(st, ast.Assign) and isinstance(
                    st.targets[0], ast.Subscript) and isinstance(
                        st.value, ast.Name):
                ti = st.targets[0].slice
                t0 = ti.elts[0] if isinstance(ti, ast.Tuple) else ti
                if getattr(t0, 'id', None) == p:
                    sites.append((st, st.value.id))
        for (st, x) in sites:
            ns = [q for q in cfg.nodes_of(st) if q.id in rd.live]
            if not ns:
                continue
            n += 1
            ok, bad = gathered_sorted(x, ns[0].id, p)
            ctx.touch(fi)
            ctx.ob(rule, f'{fi.qual}:unsort#{n - 1}', fi.loc(st), ok,
                   f'`{x}` is read with the indices sorted by `{p}` on '
                   'every path before it is put back into the requested '
                   'order' if ok else
                   f'`{unparse(st)[:60]}` puts `{x}` back into the '
                   f'requested order through `{p}`, but `{x}` can be '
                   f'`{unparse(bad.value)[:60] if bad is not None and getattr(bad, "value", None) is not None else "?"}`'
                   ', which is not read in the order sorted by that '
                   'permutation: the rows come back scrambled')
    return n
