"""
R-PERM/unsort-pair: what is un-sorted was read in sorted order.

Row batches are read with the requested indices *sorted* (HDF5 wants
increasing indices) and put back into the requested order afterwards:

    p = np.argsort(rows);  s = rows[p]
    raw = handle[s, :]                       # row i of raw is rows[p[i]]
    for i, j in enumerate(p): out[j] = raw[i]     # or  out[p] = raw

The un-sorting step is right only for data that was gathered with the
sorted copy `s` belonging to that same permutation `p`.  If some
definition of the un-sorted array reads the rows in another order (the
requested order, a slice), the step scrambles them: shapes, dtypes and the
*set* of rows stay right, the order does not.
"""
import ast

from ..core.cfg import cfg_of
from ..core.defuse import rd_of
from ..core.loader import unparse


def _call_name(c):
    f = c.func
    return f.attr if isinstance(f, ast.Attribute) else (
        f.id if isinstance(f, ast.Name) else None)


def check_unsort_pairs(ctx, fi, rule='R-PERM/unsort-pair'):
    cfg = cfg_of(fi)
    rd = rd_of(fi)
    n = 0
    # permutations: p = np.argsort(R)
    perms = dict()
    for d in rd.defs:
        v = getattr(d, 'value', None)
        if d.kind == 'assign' and isinstance(v, ast.Call) and _call_name(
                v) == 'argsort' and v.args and not d.path:
            perms.setdefault(d.name, []).append(d)
    if not perms:
        return 0

    def sorted_by(name, nid, p):
        """every definition of `name` reaching nid is `X[p]`"""
        ds = rd.reaching(name, nid)
        if not ds:
            return False
        for d in ds:
            v = getattr(d, 'value', None)
            if not (d.kind == 'assign' and isinstance(v, ast.Subscript)
                    and isinstance(v.slice, ast.Name)
                    and v.slice.id == p):
                return False
        return True

    def derives_sorted(e, nid, p, depth):
        """e is, position by position, computed from something gathered
        with the index sorted by p (element-wise arithmetic, running
        reductions and plain slices keep positions; any other gather does
        not)"""
        if depth > 6:
            return False
        if isinstance(e, ast.Subscript):
            sl = e.slice
            parts = sl.elts if isinstance(sl, ast.Tuple) else [sl]
            first = parts[0] if parts else None
            if isinstance(first, ast.Name) and (
                    first.id == p or sorted_by(first.id, nid, p)):
                return True
            if parts and all(isinstance(x, ast.Slice) for x in parts):
                # X[s[0]:s[-1]+1]: a contiguous read between elements of
                # the sorted index is in file order, which is the sorted
                # order (a request that does not fill the range does not
                # fit the result and fails)
                if any(isinstance(n_, ast.Name) and (
                        n_.id == p or sorted_by(n_.id, nid, p))
                       for x in parts for n_ in ast.walk(x)):
                    return True
                return derives_sorted(e.value, nid, p, depth + 1)
            if parts and all(isinstance(x, ast.Constant) for x in parts):
                # element of a tuple a reader returns
                return derives_sorted(e.value, nid, p, depth + 1)
            return False
        if isinstance(e, ast.Name):
            ds = rd.reaching(e.id, nid)
            vals = [d for d in ds if d.kind == 'assign'
                    and getattr(d, 'value', None) is not None
                    and not d.path]
            return bool(vals) and len(vals) == len(ds) and all(
                derives_sorted(d.value, d.node, p, depth + 1)
                for d in vals)
        if isinstance(e, ast.BinOp):
            return derives_sorted(e.left, nid, p, depth + 1) \
                or derives_sorted(e.right, nid, p, depth + 1)
        if isinstance(e, ast.UnaryOp):
            return derives_sorted(e.operand, nid, p, depth + 1)
        if isinstance(e, ast.Call):
            f = e.func
            if isinstance(f, ast.Attribute) and not (
                    isinstance(f.value, ast.Name)
                    and f.value.id in ('np', 'numpy')) and not (
                        isinstance(f.value, ast.Attribute)
                        and isinstance(f.value.value, ast.Name)
                        and f.value.value.id in ('np', 'numpy')):
                # method of an array: x.astype(...), x.copy()
                if f.attr in ('astype', 'copy', 'cumsum', 'round'):
                    return derives_sorted(f.value, nid, p, depth + 1)
                # reader.get_chunk(r0=s[0], r1=s[-1]+1): the same
                # contiguous read through a method
                bounds = list(e.args) + [k.value for k in e.keywords]
                if bounds and all(any(
                        isinstance(n_, ast.Name) and (
                            n_.id == p or sorted_by(n_.id, nid, p))
                        for n_ in ast.walk(b)) for b in bounds):
                    return True
                return False
            return any(derives_sorted(a, nid, p, depth + 1)
                       for a in e.args)
        return False

    def gathered_sorted(x_name, nid, p):
        """every definition of x reaching nid reads with an index sorted
        by p; returns (ok, offending definition)"""
        for d in rd.reaching(x_name, nid):
            v = getattr(d, 'value', None)
            ok = False
            if d.kind == 'assign' and isinstance(v, ast.Subscript):
                first = v.slice.elts[0] if isinstance(
                    v.slice, ast.Tuple) and v.slice.elts else v.slice
                if isinstance(first, ast.Name) and sorted_by(
                        first.id, d.node, p):
                    ok = True
            if not ok and d.kind == 'assign' and v is not None:
                # computed position by position from something gathered
                # with p itself: f(Y[p] * w), possibly through locals
                ok = derives_sorted(v, d.node, p, 0)
            if not ok:
                return False, d
        return True, None

    for p in perms:
        sites = []
        wrong_way = []
        # (a) for i, j in enumerate(p): OUT[j, ...] = X[i, ...]
        for lp in ast.walk(fi.node):
            if isinstance(lp, ast.For) and isinstance(
                    lp.iter, ast.Call) and _call_name(
                        lp.iter) == 'enumerate' and lp.iter.args \
                    and isinstance(lp.iter.args[0], ast.Name) \
                    and lp.iter.args[0].id == p and isinstance(
                        lp.target, ast.Tuple) and len(lp.target.elts) == 2:
                i_v, j_v = [getattr(e, 'id', None) for e in lp.target.elts]
                for st in ast.walk(lp):
                    if isinstance(st, ast.Assign) and isinstance(
                            st.targets[0], ast.Subscript) and isinstance(
                                st.value, ast.Subscript) and isinstance(
                                    st.value.value, ast.Name):
                        ti = st.targets[0].slice
                        vi = st.value.slice
                        t0 = ti.elts[0] if isinstance(ti, ast.Tuple) else ti
                        v0 = vi.elts[0] if isinstance(vi, ast.Tuple) else vi
                        if getattr(t0, 'id', None) == j_v and getattr(
                                v0, 'id', None) == i_v:
                            sites.append((st, st.value.value.id))
                        elif getattr(t0, 'id', None) == i_v and getattr(
                                v0, 'id', None) == j_v:
                            wrong_way.append((st, st.value.value.id))
        # (b) OUT[p] = X  /  OUT[p, :] = X
        for st in ast.walk(fi.node):
            if isinstance(st, ast.Assign) and isinstance(
                    st.targets[0], ast.Subscript) and isinstance(
                        st.value, ast.Name):
                ti = st.targets[0].slice
                t0 = ti.elts[0] if isinstance(ti, ast.Tuple) else ti
                if getattr(t0, 'id', None) == p:
                    sites.append((st, st.value.id))
        # (c) OUT = X[p] / OUT[i] = X[p[i]] where X was read in the order
        # sorted by p: that applies p a second time instead of undoing it
        for st in ast.walk(fi.node):
            if isinstance(st, ast.Assign) and isinstance(
                    st.value, ast.Subscript) and isinstance(
                        st.value.value, ast.Name):
                vi = st.value.slice
                v0 = vi.elts[0] if isinstance(vi, ast.Tuple) and vi.elts \
                    else vi
                if getattr(v0, 'id', None) == p:
                    wrong_way.append((st, st.value.value.id))
        for (st, x) in wrong_way:
            ns = [q for q in cfg.nodes_of(st) if q.id in rd.live]
            if not ns:
                continue
            was_sorted, _bad = gathered_sorted(x, ns[0].id, p)
            if not was_sorted:
                continue
            n += 1
            ctx.touch(fi)
            ctx.fail(rule, f'{fi.qual}:unsort#{n - 1}', fi.loc(st),
                     f'`{unparse(st)[:60]}` indexes `{x}` -- read in the '
                     f'order sorted by `{p}` -- with `{p}` itself: that '
                     'applies the permutation a second time instead of '
                     'undoing it (right only when the permutation is its '
                     'own inverse)')
        for (st, x) in sites:
            ns = [q for q in cfg.nodes_of(st) if q.id in rd.live]
            if not ns:
                continue
            n += 1
            ok, bad = gathered_sorted(x, ns[0].id, p)
            ctx.touch(fi)
            ctx.ob(rule, f'{fi.qual}:unsort#{n - 1}', fi.loc(st), ok,
                   f'`{x}` is read with the indices sorted by `{p}` on '
                   'every path before it is put back into the requested '
                   'order' if ok else
                   f'`{unparse(st)[:60]}` puts `{x}` back into the '
                   f'requested order through `{p}`, but `{x}` can be '
                   f'`{unparse(bad.value)[:60] if bad is not None and getattr(bad, "value", None) is not None else "?"}`'
                   ', which is not read in the order sorted by that '
                   'permutation: the rows come back scrambled')
    return n


def check_sorted_results_unsorted(ctx, fi, rule='R-PERM/unsort-before-return'):
    """a function that sorts its request (`idx = idx[np.argsort(idx)]`) and
    keeps the inverse permutation works on the sorted request from then
    on; what it hands back must have been put into the requested order
    again, i.e. every `return` that follows the sorting is reached only
    through a statement that reads the inverse permutation.  An early
    return of data gathered in sorted order gives the caller the right
    rows in the wrong order."""
    cfg = cfg_of(fi)
    rd = rd_of(fi)
    # p = np.argsort(R); inv = np.argsort(p)  (or inverse filled by a loop)
    perms = [d for d in rd.defs if d.kind == 'assign' and isinstance(
        getattr(d, 'value', None), ast.Call) and _call_name(
            d.value) == 'argsort' and not d.path]
    pnames = {p.name for p in perms}
    inverse = set()
    for d in rd.defs:
        v = getattr(d, 'value', None)
        if d.kind != 'assign' or v is None or d.path:
            continue
        if isinstance(v, ast.Subscript) and isinstance(
                v.value, ast.Name) and v.value.id == d.name:
            continue        # X = X[p]: the sorting itself
        if any(isinstance(x, ast.Name) and x.id in pnames
               for x in ast.walk(v)):
            # np.argsort(p), {p[i]: i for i in ...}, np.empty_like(p)...
            inverse.add(d.name)
    # the request is re-bound to its sorted copy: X = X[p]
    sort_nodes = set()
    for d in rd.defs:
        v = getattr(d, 'value', None)
        if d.kind == 'assign' and isinstance(v, ast.Subscript) \
                and isinstance(v.value, ast.Name) \
                and v.value.id == d.name and isinstance(
                    v.slice, ast.Name) and any(
                        p.name == v.slice.id for p in perms):
            # ... and what is sorted is a request: the sorted copy goes on
            # to select something (a subscript, a reader).  An array that
            # is put in order and merely handed back (with its companions
            # permuted alike) is data, not a request.
            if any(un.kind != 'return' for un, _ in rd.uses_of(d)):
                sort_nodes.add(d.node)
    if not sort_nodes:
        return 0
    # the permutation itself, read after the sorting, is applied the other
    # way round (`out[p[i]] = raw[i]`, `out[p] = raw`): that is the
    # inverse too
    perm_nodes = {p.node for p in perms}
    inverse |= pnames
    uses_inverse = {n.id for n in cfg.nodes if n.id in rd.live
                    and n.id not in sort_nodes and n.id not in perm_nodes
                    and any(
        isinstance(x, ast.Name) and x.id in inverse
        and isinstance(x.ctx, ast.Load)
        for root in n.exprs if root is not None for x in ast.walk(root))}
    # a loop that applies the inverse permutation element by element
    # counts as applying it (zero iterations = nothing to put back)
    for loop in ast.walk(fi.node):
        if isinstance(loop, (ast.For, ast.While)) and any(
                isinstance(x, ast.Name) and x.id in inverse
                for st in loop.body for x in ast.walk(st)):
            uses_inverse |= {x.id for x in cfg.nodes_of(loop)
                             if x.kind in ('for', 'while')}
    n = 0
    for r in cfg.nodes:
        if r.kind != 'return' or r.id not in rd.live:
            continue
        # reachable from the sorting?
        for s in sort_nodes:
            if not (cfg.path(s, {r.id}, edge_ok=lambda a, b, lab: lab
                             != 'exc') is not None):
                continue
            n += 1
            p = cfg.path(s, {r.id}, avoid=lambda x: x.id in uses_inverse
                         and x.id != r.id,
                         edge_ok=lambda a, b, lab: lab != 'exc')
            ok = p is None or r.id in uses_inverse
            ctx.touch(fi)
            ctx.ob(rule, f'{fi.qual}:return#{n - 1}', fi.loc(r.ast), ok,
                   'the result is put back into the requested order before '
                   'it is returned' if ok else
                   f'`{unparse(r.ast)[:60]}` is reached from the sorting '
                   'of the request without the inverse permutation being '
                   'applied: the rows come back in sorted, not requested, '
                   'order', witness=cfg.fmt_path(p) if p else None)
    return n


_DESTROYERS = {'merge_index_list', 'sort', 'sorted', 'unique', 'set'}
_WRAPPERS = {'array', 'asarray', 'deepcopy', 'copy', 'list', 'tuple'}


def check_request_order(ctx, fi, rule='R-PERM/request-order'):
    """a reader that is asked for rows in a given order and derives an
    order-free summary of the request (its sorted copy, its merged ranges,
    its minimum and maximum) must not answer from the summary alone: what
    it returns has to depend on the request itself (a gather by it, its
    argsort, a callee that is handed it) as well.  Otherwise the rows come
    back in file order, whatever order was asked for."""
    from ..core.defuse import Expander
    from ..core import terms as T
    cfg = cfg_of(fi)
    rd = rd_of(fi)
    ex = Expander(fi)
    params = {a.arg for a in fi.node.args.posonlyargs + fi.node.args.args
              + fi.node.args.kwonlyargs} - {'self', 'cls'}

    def strip(t):
        while isinstance(t, tuple) and t and t[0] == 'call' \
                and T.call_name(t) in _WRAPPERS and t[2]:
            t = t[2][0]
        return t

    # parameters the function itself treats as an ordered request: it
    # sorts / argsorts / merges them somewhere
    requests = set()
    alias = {p_: {p_} for p_ in params}
    for st in ast.walk(fi.node):
        if isinstance(st, ast.Assign) and len(st.targets) == 1 \
                and isinstance(st.targets[0], ast.Name):
            v = st.value
            while isinstance(v, ast.Call) and v.args and getattr(
                    v.func, 'attr', getattr(v.func, 'id', None)) \
                    in _WRAPPERS:
                v = v.args[0]
            if isinstance(v, ast.Name):
                for p_, names in alias.items():
                    if v.id in names:
                        names.add(st.targets[0].id)
    for c in ast.walk(fi.node):
        if isinstance(c, ast.Call):
            nm = getattr(c.func, 'attr', getattr(c.func, 'id', None))
            if nm in ('argsort', 'sort', 'sorted', 'unique',
                      'merge_index_list'):
                cands = list(c.args)
                if isinstance(c.func, ast.Attribute):
                    cands.append(c.func.value)
                for a in cands:
                    if isinstance(a, ast.Name):
                        for p_, names in alias.items():
                            if a.id in names:
                                requests.add(p_)
    n = 0
    for r in cfg.nodes:
        if r.kind != 'return' or r.id not in rd.live \
                or r.ast.value is None:
            continue
        t = ex.expand(r.ast.value, r.id)
        lost = set()
        kept = set()

        def visit(x, under):
            if isinstance(x, frozenset):
                for y in x:
                    visit(y, under)
                return
            if not isinstance(x, tuple) or not x:
                return
            if x[0] == 'param' and x[1] in params:
                (lost if under else kept).add(x[1])
                return
            # one element of the request (`rows[0]`, `rows[-1]`) or its
            # length says nothing about the order of the rest
            if x[0] == 'sub' and isinstance(x[2], tuple) and x[2] \
                    and (x[2][0] == 'const' or (
                        x[2][0] == 'unop' and isinstance(x[2][-1], tuple)
                        and x[2][-1] and x[2][-1][0] == 'const')):
                s_ = strip(x[1])
                if isinstance(s_, tuple) and s_ and s_[0] == 'param' \
                        and s_[1] in requests:
                    lost.add(s_[1])
                    return
            if x[0] == 'call' and T.call_name(x) == 'len' and x[2]:
                s_ = strip(x[2][0])
                if isinstance(s_, tuple) and s_ and s_[0] == 'param' \
                        and s_[1] in requests:
                    lost.add(s_[1])
                    return
            if x[0] == 'call':
                nm = T.call_name(x)
                if nm == 'argsort':
                    for a in x[2]:
                        s_ = strip(a)
                        if s_[0] == 'param':
                            kept.add(s_[1])
                    return
                if nm in _DESTROYERS and x[2]:
                    s_ = strip(x[2][0])
                    if isinstance(s_, tuple) and s_ and s_[0] == 'param':
                        for a in x[2]:
                            visit(a, True)
                        for (_k, v) in x[3]:
                            visit(v, under)
                        return
            for y in x[1:]:
                if isinstance(y, (tuple, frozenset)):
                    visit(y, under)
        visit(t, False)
        for p in sorted(lost):
            n += 1
            ok = p in kept
            ctx.touch(fi)
            ctx.ob(rule, f'{fi.qual}:{p}:return#{n - 1}', fi.loc(r.ast), ok,
                   f'the answer depends on `{p}` itself, not only on its '
                   'sorted / merged form' if ok else
                   f'`{unparse(r.ast)[:60]}` is computed from `{p}` only '
                   'through an order-free summary (sorted copy, merged '
                   'ranges, min / max): the rows come back in file order, '
                   'not in the order requested')
    return n


def check_parallel_windows_in_step(ctx, fi,
                                   rule='R-PERM/parallel-windows-in-step'):
    """two arrays cut by the same window (`indices[i0:i1]` and
    `data[i0:i1]`) are parallel: element k of one belongs to element k of
    the other.  Reordering one of the cuts -- sorting it in place, storing a
    sorted copy into it, rebinding it to its sorted self -- has to be done
    to the other with the same permutation (an argsort applied to both);
    otherwise every value moves to another column."""
    n = 0
    cuts = {}          # slice text -> {local name: source name}
    for st in ast.walk(fi.node):
        if isinstance(st, ast.Assign) and len(st.targets) == 1 \
                and isinstance(st.targets[0], ast.Name) \
                and isinstance(st.value, ast.Subscript) \
                and isinstance(st.value.slice, ast.Slice) \
                and isinstance(st.value.value, (ast.Name, ast.Subscript,
                                                ast.Attribute)):
            key = unparse(st.value.slice)
            cuts.setdefault(key, {})[st.targets[0].id] = unparse(
                st.value.value)
    for key, members in sorted(cuts.items()):
        if len(set(members.values())) < 2 or len(members) < 2:
            continue
        names = set(members)
        # views of a member: m[a:b] bound to a local
        alias = {m: {m} for m in names}
        changed = True
        while changed:
            changed = False
            for st in ast.walk(fi.node):
                if isinstance(st, ast.Assign) and len(st.targets) == 1 \
                        and isinstance(st.targets[0], ast.Name) \
                        and isinstance(st.value, ast.Subscript) \
                        and isinstance(st.value.slice, ast.Slice) \
                        and isinstance(st.value.value, ast.Name):
                    for m, al in alias.items():
                        if st.value.value.id in al \
                                and st.targets[0].id not in al \
                                and st.targets[0].id not in names:
                            al.add(st.targets[0].id)
                            changed = True

        def base(e):
            while isinstance(e, ast.Subscript):
                e = e.value
            return e.id if isinstance(e, ast.Name) else None

        def owner(name):
            for m, al in alias.items():
                if name in al:
                    return m
            return None

        def sorts_of(e):
            out = set()
            for c in ast.walk(e):
                if isinstance(c, ast.Call) and _call_name(c) in (
                        'sort', 'sorted') and c.args:
                    o = owner(base(c.args[0]))
                    if o is not None:
                        out.add(o)
            return out

        reordered = {}      # member -> node
        permuted = set()    # members reordered through an argsort
        for st in ast.walk(fi.node):
            if isinstance(st, ast.Expr) and isinstance(st.value, ast.Call) \
                    and isinstance(st.value.func, ast.Attribute) \
                    and st.value.func.attr == 'sort':
                o = owner(base(st.value.func.value))
                if o is not None:
                    reordered.setdefault(o, st)
            elif isinstance(st, (ast.Assign, ast.AugAssign)):
                tgts = st.targets if isinstance(st, ast.Assign) else [
                    st.target]
                for t in tgts:
                    o = owner(base(t))
                    if o is None:
                        continue
                    if o in sorts_of(st.value):
                        reordered.setdefault(o, st)
                    elif any(isinstance(c, ast.Call)
                             and _call_name(c) in ('argsort', 'lexsort')
                             for c in ast.walk(st.value)) or (
                            isinstance(st.value, ast.Subscript)
                            and owner(base(st.value)) == o
                            and not isinstance(st.value.slice, ast.Slice)
                            and isinstance(t, ast.Name)):
                        permuted.add(o)
        n += 1
        bad = [m for m in sorted(reordered)
               if any(o not in permuted for o in names if o != m)]
        ctx.touch(fi)
        if bad:
            st = reordered[bad[0]]
            others = sorted(members[o] for o in names if o != bad[0])
            ctx.ob(rule, f'{fi.qual}:[{key}]', fi.loc(st), False,
                   f'`{unparse(st)[:60]}` puts the cut of '
                   f'`{members[bad[0]]}` into sorted order, but the cut of '
                   f'{", ".join(others)} taken with the same window '
                   f'[{key}] keeps its order: the entries no longer '
                   'belong to each other')
        else:
            ctx.ob(rule, f'{fi.qual}:[{key}]', fi.loc(fi.node), True,
                   f'cuts {sorted(names)} by [{key}] are never reordered '
                   'separately')
    return n


def check_permuted_rows_not_windowed(ctx, fi,
                                     rule='R-PERM/permuted-row-window'):
    """in a function that re-orders rows by a given order (a parameter
    named like an order / permutation), `X[order[i] : order[i] + n]` with a
    run length n that is not a constant reads the n rows that *follow*
    order[i] in the source.  The rows that follow it in the new order are
    order[i+1], order[i+2], ...: unless the run was established row by row
    through the order, the window holds other rows (e.g. an empty row that
    sits between two rows whose data happen to be adjacent)."""
    from ..core.defuse import Expander
    from ..core import poly as P
    from ..core import terms as T
    orders = {p for p in fi.params
              if any(w in p for w in ('order', 'perm', 'shuffle'))}
    if not orders:
        return 0
    cfg = cfg_of(fi)
    rd = rd_of(fi)
    ex = Expander(fi)
    n = 0

    def is_row(t):
        if not (isinstance(t, tuple) and t):
            return False
        if t[0] == 'sub' and isinstance(t[1], tuple) \
                and t[1][:1] == ('param',) and t[1][1] in orders:
            return True             # order[i]
        # the loop variable of `for new, old in enumerate(order)` /
        # `for old in order`
        it = None
        if t[0] == 'iterelem':
            it = t[1]
        elif t[0] == 'sub' and isinstance(t[1], tuple) and t[1] \
                and t[1][0] == 'iterelem' and t[2] == ('const', '1'):
            it = t[1][1]
            if not (isinstance(it, tuple) and it and it[0] == 'call'
                    and T.call_name(it) == 'enumerate' and it[2]):
                return False
            it = it[2][0]
        return isinstance(it, tuple) and it[:1] == ('param',) \
            and it[1] in orders

    def atoms(t):
        if is_row(t):
            return P.atom(('ROW',))
        return None

    for node in cfg.nodes:
        if node.id not in rd.live or node.ast is None:
            continue
        roots = list(node.exprs)
        if node.kind == 'stmt' and isinstance(node.ast, ast.Assign):
            roots += node.ast.targets
        for root in roots:
            if root is None:
                continue
            for s_ in ast.walk(root):
                if not (isinstance(s_, ast.Subscript) and isinstance(
                        s_.slice, ast.Slice) and s_.slice.lower is not None
                        and s_.slice.upper is not None):
                    continue
                try:
                    lo = P.poly(ex.expand(s_.slice.lower, node.id), atoms)
                    up = P.poly(ex.expand(s_.slice.upper, node.id), atoms)
                except Exception:
                    continue
                rowm = ((('ROW',), 1),)
                if lo.get(rowm, 0) != 1 or any(
                        m not in ((), rowm) for m in lo):
                    continue
                n += 1
                d = P._add(up, lo, -1)
                ok = all(m == () for m in d)
                ctx.touch(fi)
                ctx.ob(rule, f'{fi.qual}:{unparse(s_)[:40]}', fi.loc(s_),
                       ok, 'a window of constant length' if ok else
                       f'`{unparse(s_)[:60]}` takes a run of rows that '
                       'follow a re-ordered row *in the source*; the rows '
                       'that follow it in the new order are other elements '
                       'of the order, so the window can hold rows that do '
                       'not belong to the run')
    return n
