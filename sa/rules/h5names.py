"""
R-TYPESTATE/h5-name-once: a name in an HDF5 group is created once.

`grp.create_dataset(name, ...)`, `grp.create_group(name)` and the item
assignment `grp[name] = value` all *create* a link called name in the
group; h5py refuses the second one ("name already exists").  Writing into
an existing dataset is `grp[name][...] = value`.  The rule follows each
creation along the control-flow graph: a second creation of the same name
in the same group may be reached only through `del grp[name]` or through
the header of a loop whose variable is part of the name (another turn,
another name).
"""
import ast

from ..core.cfg import cfg_of
from ..core.defuse import rd_of, Expander, fmt_term
from ..core import terms as T
from ..core.loader import unparse


def _is_h5_group(t):
    """the term denotes an h5py file / group handle"""
    for x in T.subterms(t):
        if x[0] == 'call':
            nm = T.call_name(x)
            if nm == 'File':
                return True
            if nm in ('create_group', 'require_group'):
                return True
    return False


def _loop_vars_of(term_names, fi, node_ast):
    out = []
    p = getattr(node_ast, '_parent', None)
    while p is not None and p is not fi.node:
        if isinstance(p, ast.For):
            names = {x.id for x in ast.walk(p.target)
                     if isinstance(x, ast.Name)}
            if names & term_names:
                out.append(p)
        p = getattr(p, '_parent', None)
    return out


def check_h5_names_created_once(ctx, fi, rule='R-TYPESTATE/h5-name-once'):
    cfg = cfg_of(fi)
    rd = rd_of(fi)
    ex = Expander(fi)
    creations = []      # (node, group term, key term, ast, key names)
    deletions = []      # (node, group term, key term)
    for n in cfg.nodes:
        if n.id not in rd.live or n.ast is None:
            continue
        st = n.ast
        for c in cfg.calls_in(n):
            f = c.func
            if isinstance(f, ast.Attribute) and f.attr in (
                    'create_dataset', 'create_group') and (
                        c.args or any(k.arg == 'name' for k in c.keywords)):
                key = c.args[0] if c.args else [
                    k.value for k in c.keywords if k.arg == 'name'][0]
                g = ex.expand(f.value, n.id)
                if _is_h5_group(g):
                    creations.append((n, g, ex.expand(key, n.id), c, {
                        x.id for x in ast.walk(key)
                        if isinstance(x, ast.Name)}))
        if isinstance(st, ast.Assign) and len(st.targets) == 1 \
                and isinstance(st.targets[0], ast.Subscript):
            tg = st.targets[0]
            g = ex.expand(tg.value, n.id)
            # only a direct item of a group (grp[name] = v), not
            # grp[name][...] = v
            if _is_h5_group(g) and not (g[0] == 'sub' and _is_h5_group(
                    g[1]) and not T.call_name(g) ):
                if isinstance(tg.slice, (ast.Slice, ast.Tuple)):
                    continue
                creations.append((n, g, ex.expand(tg.slice, n.id), st, {
                    x.id for x in ast.walk(tg.slice)
                    if isinstance(x, ast.Name)}))
        if isinstance(st, ast.Delete):
            for tg in st.targets:
                if isinstance(tg, ast.Subscript):
                    deletions.append((n, ex.expand(tg.value, n.id),
                                      ex.expand(tg.slice, n.id)))
    n_pairs = 0
    for i, (n1, g1, k1, a1, names1) in enumerate(creations):
        for (n2, g2, k2, a2, names2) in creations:
            if n2.id == n1.id or g1 != g2 or k1 != k2:
                continue
            dels = {d[0].id for d in deletions if d[1] == g1 and d[2] == k1}
            hdrs = set()
            for lp in _loop_vars_of(names1, fi, a1):
                hdrs |= {x.id for x in cfg.nodes_of(lp) if x.kind == 'for'}
            # re-opening the file gives a new handle (mode 'w' an empty
            # file): a path through the statement that opens it does not
            # lead to "the same group"
            opens = set()
            files = [x for x in T.subterms(g1) if x[0] == 'call'
                     and T.call_name(x) == 'File']
            for m in cfg.nodes:
                if m.id in rd.live and m.id not in (n1.id, n2.id):
                    for c_ in cfg.calls_in(m):
                        f_ = c_.func
                        nm_ = f_.attr if isinstance(f_, ast.Attribute) \
                            else (f_.id if isinstance(f_, ast.Name)
                                  else None)
                        if nm_ == 'File' and ex.expand(c_, m.id) in files:
                            opens.add(m.id)
            p = cfg.path(n1.id, {n2.id},
                         avoid=lambda x: x.id in dels or x.id in hdrs
                         or x.id in opens,
                         edge_ok=lambda a, b, lab: lab != 'exc')
            if p is None:
                continue
            n_pairs += 1
            ctx.touch(fi)
            ctx.fail(rule, f'{fi.qual}:{fmt_term(k1)[:30]}#{n_pairs - 1}',
                     fi.loc(a2),
                     f'`{unparse(a2)[:60]}` creates '
                     f'{fmt_term(k1)[:40]} in a group where '
                     f'`{unparse(a1)[:50]}` has already created it (no '
                     '`del` in between): h5py raises "name already '
                     'exists"; writing into the existing dataset is '
                     '`grp[name][...] = value`',
                     witness=cfg.fmt_path(p))
    return len(creations)
