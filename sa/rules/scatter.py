"""
R-IDIOM/pointer-scatter: CSR / CSC pointer values are not scatter positions.

`indptr` is non-decreasing, not increasing: a row (column) without stored
entries repeats its neighbour's pointer.  A store `a[ptrs] = c` or an
in-place `a[ptrs] += c` whose index array consists of pointer values
therefore hits the same position twice for every empty row, and numpy
applies a fancy-indexed update once per distinct position.  "Mark the row
starts, then cumulate" computed that way mislabels every row after an
empty one.  Pointer values are fine as slice bounds (`x[p[i]:p[i+1]]`).
"""
import ast

from ..core.cfg import cfg_of
from ..core.defuse import rd_of, Expander, fmt_term
from ..core.loader import unparse


_DB = [None, None]


def _returned_element_is_pointer(call_term, k, depth):
    """element k of the tuple returned by a package function"""
    db, fi = _DB
    if db is None or call_term[1][0] != 'name':
        return False
    cands = [f for f in db.iter_functions()
             if f.name == call_term[1][1] and f.module is fi.module]
    for callee in cands:
        ex = Expander(callee)
        cfg = cfg_of(callee)
        rd = rd_of(callee)
        for n in cfg.nodes:
            if n.kind == 'return' and n.id in rd.live and isinstance(
                    n.ast.value, ast.Tuple) and k < len(n.ast.value.elts):
                t = ex.expand(n.ast.value.elts[k], n.id)
                saved = list(_DB)
                _DB[1] = callee
                try:
                    if _is_pointer_term(t, depth + 1):
                        return True
                finally:
                    _DB[:] = saved
    return False


def _is_pointer_term(t, depth=0):
    """a window / selection / shifted copy of an array called indptr"""
    if not isinstance(t, tuple) or not t or depth > 8:
        return False
    if t[0] == 'sub' and t[1] and t[1][0] == 'call' and t[2] \
            and t[2][0] == 'const':
        try:
            k = int(t[2][1])
        except (TypeError, ValueError):
            k = None
        if k is not None and _returned_element_is_pointer(t[1], k, depth):
            return True
    if t[0] == 'binop' and len(t) >= 4:
        return _is_pointer_term(t[2], depth + 1)
    if t[0] == 'param' and 'indptr' in t[1]:
        return True
    if t[0] == 'sub':
        if t[2] and t[2][0] == 'const' and 'indptr' in str(t[2][1]):
            return True
        return _is_pointer_term(t[1], depth + 1)
    if t[0] == 'phi':
        return any(_is_pointer_term(a, depth + 1) for a in t[1])
    if t[0] == 'call' and t[1] and t[1][0] == 'attr' and t[1][-1] in (
            'astype', 'copy'):
        return _is_pointer_term(t[1][1], depth + 1)
    # np.asarray(indptr[1:-1]), np.array(..), np.copy(..): the same values
    if t[0] == 'call' and t[1] and t[1][0] == 'attr' and t[1][-1] in (
            'asarray', 'array', 'ascontiguousarray', 'copy', 'int64',
            'intp') and t[2]:
        return _is_pointer_term(t[2][0], depth + 1)
    return False


def check_pointer_scatter(ctx, fi, rule='R-IDIOM/pointer-scatter'):
    cfg = cfg_of(fi)
    rd = rd_of(fi)
    ex = None
    n = 0
    _DB[:] = [ctx.db, fi]
    for node in cfg.nodes:
        if node.kind != 'stmt' or node.id not in rd.live:
            continue
        st = node.ast
        tgs = []
        if isinstance(st, ast.Assign):
            tgs = st.targets
        elif isinstance(st, ast.AugAssign):
            tgs = [st.target]
        for tg in tgs:
            if not isinstance(tg, ast.Subscript):
                continue
            idxs = tg.slice.elts if isinstance(tg.slice, ast.Tuple) \
                else [tg.slice]
            for ix in idxs:
                if isinstance(ix, (ast.Slice, ast.Constant)):
                    continue
                if ex is None:
                    ex = Expander(fi)
                t = ex.expand(ix, node.id)
                n += 1
                if _is_pointer_term(t) and not (
                        isinstance(t, tuple) and t[0] == 'sub'
                        and t[2] and t[2][0] not in ('slice', 'cmp', 'call',
                                                     'sub', 'name', 'phi')):
                    ctx.touch(fi)
                    ctx.fail(rule, f'{fi.qual}:store#{n}', fi.loc(st),
                             f'`{unparse(st)[:70]}` uses pointer values '
                             f'({fmt_term(t)[:60]}) as the positions of a '
                             'fancy-indexed store: rows without stored '
                             'entries repeat a pointer, the update is '
                             'applied once, and every row after an empty '
                             'one is mislabelled')
    return n


def check_pointer_window_rebased(ctx, fi,
                                 rule='R-SAMEVAL/pointer-window-rebased'):
    """pointer values are offsets into the `indices` / `data` arrays they
    belong to.  A window of a pointer array copied into another array
    (`new[...] = indptr[a:b]`) describes the matrix cut out at `a` only
    after the first pointer of the window has been subtracted; copied
    as it is, it points into the old arrays -- past the end of the new,
    shorter ones.  Accepted: windows starting at 0 / None, and values that
    went through a subtraction."""
    cfg = cfg_of(fi)
    rd = rd_of(fi)
    ex = None
    n = 0
    _DB[:] = [ctx.db, fi]
    for node in cfg.nodes:
        if node.kind != 'stmt' or node.id not in rd.live \
                or not isinstance(node.ast, ast.Assign):
            continue
        st = node.ast
        if not (len(st.targets) == 1 and isinstance(
                st.targets[0], ast.Subscript)):
            continue
        v = st.value
        while isinstance(v, ast.Call) and isinstance(
                v.func, ast.Attribute) and v.func.attr in (
                    'astype', 'copy') :
            v = v.func.value
        if not (isinstance(v, ast.Subscript) and isinstance(
                v.slice, ast.Slice) and v.slice.lower is not None
                and not (isinstance(v.slice.lower, ast.Constant)
                         and v.slice.lower.value in (0, None))):
            continue
        if ex is None:
            ex = Expander(fi)
        t = ex.expand(v.value, node.id)
        if not _is_pointer_term(t):
            continue
        n += 1
        ctx.touch(fi)
        ctx.fail(rule, f'{fi.qual}:store#{n - 1}', fi.loc(st),
                 f'`{unparse(st)[:70]}` copies a window of pointer values '
                 f'({fmt_term(t)[:40]}) that does not start at 0 without '
                 'subtracting its first pointer: the copy points into the '
                 'source arrays, not into the arrays cut out with it')
    return n


def check_converted_pointer_extent(ctx, fi,
                                   rule='R-AXIS/converted-pointer-extent'):
    """a function that converts a sparse group to the other orientation
    (csc_to_csr, csr_to_csc, pivot, transpose) writes a pointer array over
    the *other* axis: its length comes from the shape / the largest index,
    its content from counting indices.  An output 'indptr' whose data or
    shape is taken from the input group's own 'indptr' (`zeros_like(
    group['indptr'])`, `shape=group['indptr'].shape`) has the extent of the
    wrong axis, right only for square matrices."""
    from ..core.cfg import cfg_of
    from ..core.defuse import rd_of, Expander, term_contains
    if not any(w in fi.name for w in ('csc_to_csr', 'csr_to_csc', 'pivot',
                                      'transpose')):
        return 0
    cfg = cfg_of(fi)
    rd = rd_of(fi)
    ex = None
    n = 0
    params = set(fi.params)

    def input_pointer(t):
        return isinstance(t, tuple) and t and t[0] == 'sub' \
            and t[2] == ('const', "'indptr'") and isinstance(t[1], tuple) \
            and t[1][:1] == ('param',) and t[1][1] in params

    for node in cfg.nodes:
        if node.id not in rd.live:
            continue
        for c in cfg.calls_in(node):
            if not (isinstance(c.func, ast.Attribute)
                    and c.func.attr == 'create_dataset' and c.args
                    and isinstance(c.args[0], ast.Constant)
                    and c.args[0].value == 'indptr'):
                continue
            if ex is None:
                ex = Expander(fi)
            n += 1
            bad = None
            for k in c.keywords:
                if k.arg in ('data', 'shape'):
                    t = ex.expand(k.value, node.id)
                    if term_contains(t, input_pointer):
                        bad = k
            ctx.touch(fi)
            ctx.ob(rule, f'{fi.qual}:indptr#{n - 1}', fi.loc(c),
                   bad is None,
                   'the output pointer array is not shaped like the '
                   'input\'s' if bad is None else
                   f'`{unparse(bad.value)[:50]}` gives the output pointer '
                   'array the extent of the input group\'s own pointer '
                   'array, i.e. of the axis that is being converted away '
                   'from: one entry per column where one per row is '
                   'needed')
    return n
