"""
R-SPACE: index-space typing of numpy array code (one function at a time).

Every array gets a *space*: where its positions come from.  A space is a
set of alternative chains (one per control-flow alternative); a chain is an
origin followed by the gathers / filters applied since:

    x = h[i0:i1]              Arr{ (rng(i0,i1),) }
    m = logical_and(x>=a,..)  Arr{ (rng(i0,i1),) }        element-wise
    x = x[m]                  Arr{ (rng(i0,i1), g(m)) }
    p = np.argsort(x)         Idx over that space
    x = x[p]                  Arr{ (rng(i0,i1), g(m), g(p)) }
    v, c = np.unique(x, return_counts=True)
                              Arr{chain+(uniq,)} , Cnt over space(x)
    j = np.searchsorted(x, e) Pos into space(x)
    s = np.cumsum(c) - c      Pos into space(x)  -- only if c is the
                              complete run-length array (no gather since
                              np.unique); otherwise Pos into the compacted
                              space of the kept runs

Obligations (reported only when both sides are typed; anything the table
below cannot type is Unknown and is not judged):

  * `X[j:j+n]`   with j : Pos(P) and X : Arr(S)   requires P == S
  * `X[idx]`     with idx : Idx(P) and X : Arr(S) requires P == S

Two arrays that are sliced with the same positions therefore must have been
filtered and permuted identically, and run starts must have been computed
in the space they are used in.  These are necessary conditions for the
transposition to put each stored value at the column it belongs to.
"""
import ast

from ..core.defuse import rd_of
from ..core.cfg import cfg_of
from ..core.loader import unparse


class V(object):
    """abstract value: kind in {arr, pos, idx, cnt, tuple, unk}"""
    __slots__ = ('kind', 'space', 'extra', 'elems')

    def __init__(self, kind, space=None, extra=None, elems=None):
        self.kind = kind
        self.space = space
        self.extra = extra
        self.elems = elems

    def __eq__(self, o):
        return isinstance(o, V) and (self.kind, self.space, self.extra,
                                     self.elems) == (
            o.kind, o.space, o.extra, o.elems)

    def __hash__(self):
        return hash((self.kind, self.space, self.extra))

    def __repr__(self):
        return f'{self.kind}{fmt_space(self.space) if self.space else ""}'


UNK = V('unk')
from ..core.resolve import register_cache  # noqa: E402
_DISPLAY = register_cache(dict())  # identity -> a name (messages only)
NONE = V('none')


def fmt_space(sp):
    if sp is None:
        return '?'
    alts = []
    for ch in sorted(sp, key=repr):
        alts.append('.'.join(_fmt_op(o) for o in ch))
    return '{' + ' | '.join(alts) + '}'


def _disp(x):
    if x in _DISPLAY:
        return _DISPLAY[x]
    if isinstance(x, tuple) and x and x[0] == 'e':
        return '<' + ','.join(_disp(y) for y in x[2:]) + '>'
    if isinstance(x, tuple) and x and x[0] == 'n':
        return x[1]
    return '?'


def _fmt_op(o):
    if o[0] == 'rng':
        return f'[{_disp(o[1])}:{_disp(o[2])}]'
    if o[0] == 'g':
        return f'[{_disp(o[1])}]'
    if o[0] == 'uniq':
        return 'unique'
    if o[0] == 'win':
        return 'window'
    if o[0] == 'compact':
        return 'kept-runs'
    if o[0] == 'full':
        return f'all({o[1]})'
    return str(o)


def join(a, b):
    if a is None or a.kind == 'none':
        return b
    if b is None or b.kind == 'none':
        return a
    if a.kind == b.kind and a.kind in ('arr', 'pos', 'idx', 'cnt') \
            and a.space is not None and b.space is not None:
        extra = a.extra if a.extra == b.extra else (
            (a.extra or frozenset()) | (b.extra or frozenset())
            if a.kind == 'cnt' else None)
        lay = a.elems if a.elems == b.elems else None
        return V(a.kind, a.space | b.space, extra,
                 elems=lay if a.kind == 'pos' else None)
    if a == b:
        return a
    return UNK


class SpaceEval(object):
    def __init__(self, db, fi):
        self.db = db
        self.fi = fi
        self.rd = rd_of(fi)
        self.cfg = cfg_of(fi)
        self.obligations = []     # (node, ok, message, key)
        self._seen = set()
        self.n_typed = 0

    # -- identities -----------------------------------------------------
    def _name_id(self, name_node):
        """identity of the value a Name denotes here: its name-independent
        reaching definitions (None-constant definitions dropped)"""
        ns = [x for x in self.cfg.node_of_expr(name_node)
              if x.id in self.rd.live]
        if not ns:
            return ('n', name_node.id)
        ds = []
        for d in self.rd.reaching(name_node.id, ns[0].id):
            v = getattr(d, 'value', None)
            if isinstance(v, ast.Constant) and v.value is None:
                continue
            ds.append(d.id)
        ident = ('d',) + tuple(sorted(ds))
        _DISPLAY[ident] = name_node.id
        return ident

    def _bound_id(self, e):
        if isinstance(e, ast.Name):
            return self._name_id(e)
        if e is None:
            return ('none',)
        ids = tuple(self._name_id(x) for x in ast.walk(e)
                    if isinstance(x, ast.Name))
        return ('e', _shape(e)) + ids

    # -- interpreter ----------------------------------------------------
    def run(self):
        # flags: parameters tested as bare booleans (`if use_data_array:`)
        # are fixed per run, so that statements guarded by the same flag
        # are seen together
        flags = []
        for n in ast.walk(self.fi.node):
            if isinstance(n, ast.If):
                t = n.test
                if isinstance(t, ast.UnaryOp) and isinstance(
                        t.op, ast.Not):
                    t = t.operand
                if isinstance(t, ast.Name) and t.id not in flags and (
                        t.id in self.fi.params or len(
                            [d for d in self.rd.defs
                             if d.name == t.id]) == 1):
                    flags.append(t.id)
        flags = flags[:3]
        for mask in range(2 ** len(flags)):
            self.assume = {f: bool(mask >> i & 1)
                           for i, f in enumerate(flags)}
            env = dict()
            self.block(self.fi.node.body, env)
        return self

    def block(self, stmts, env):
        for st in stmts:
            self.stmt(st, env)

    def stmt(self, st, env):
        if isinstance(st, ast.Assign):
            v = self.ev(st.value, env)
            for tg in st.targets:
                self.assign(tg, v, env)
                self.check_target(tg, env)
        elif isinstance(st, ast.AugAssign):
            self.ev(st.value, env)
            self.check_target(st.target, env)
            if isinstance(st.target, ast.Name):
                cur = env.get(st.target.id)
                rhs = self.ev(st.value, env)
                # x -= c / x += c : element-wise, the space is kept;
                # positions stay positions only when shifted by a scalar
                if cur is not None and cur.kind in ('arr', 'pos') \
                        and rhs.kind in ('unk', 'pos', 'arr'):
                    env[st.target.id] = cur
                else:
                    env[st.target.id] = UNK
        elif isinstance(st, ast.If):
            t, neg = st.test, False
            if isinstance(t, ast.UnaryOp) and isinstance(t.op, ast.Not):
                t, neg = t.operand, True
            if isinstance(t, ast.Name) and t.id in getattr(
                    self, 'assume', {}):
                val = self.assume[t.id] != neg
                self.block(st.body if val else st.orelse, env)
                return
            self.ev(st.test, env)
            e1 = dict(env)
            self.block(st.body, e1)
            e2 = dict(env)
            self.block(st.orelse, e2)
            self.merge(env, e1, e2)
        elif isinstance(st, (ast.For, ast.While)):
            if isinstance(st, ast.For):
                it = self.ev(st.iter, env)
            else:
                self.ev(st.test, env)
                it = None
            for _ in range(2):
                e1 = dict(env)
                if isinstance(st, ast.For):
                    self.bind_loop(st.target, st.iter, it, e1)
                self.block(st.body, e1)
                self.merge(env, env, e1)
            self.block(st.orelse, env)
        elif isinstance(st, ast.With):
            for it in st.items:
                self.ev(it.context_expr, env)
                if it.optional_vars is not None:
                    self.assign(it.optional_vars, UNK, env)
            self.block(st.body, env)
        elif isinstance(st, ast.Try):
            self.block(st.body, env)
            for h in st.handlers:
                self.block(h.body, env)
            self.block(st.orelse, env)
            self.block(st.finalbody, env)
        elif isinstance(st, ast.Expr):
            self.ev(st.value, env)
        elif isinstance(st, ast.Return):
            if st.value is not None:
                self.ev(st.value, env)
        elif isinstance(st, ast.Delete):
            pass
        # nested defs are not entered

    def merge(self, env, e1, e2):
        for k in set(e1) | set(e2):
            a, b = e1.get(k), e2.get(k)
            if a is None or b is None:
                # defined on one side only: keep what is known (the other
                # side has no value that could be used)
                env[k] = a if a is not None else b
            else:
                env[k] = join(a, b)

    def assign(self, tg, v, env):
        if isinstance(tg, ast.Name):
            env[tg.id] = v
        elif isinstance(tg, (ast.Tuple, ast.List)):
            for i, el in enumerate(tg.elts):
                if v.kind == 'tuple' and v.elems and i < len(v.elems):
                    self.assign(el, v.elems[i], env)
                else:
                    self.assign(el, UNK, env)

    def bind_loop(self, target, iter_expr, it, env):
        # for a, b in zip(A, B): elements keep the kind of their source
        if it is not None and it.kind == 'tuple' and it.extra == 'zip' \
                and isinstance(target, (ast.Tuple, ast.List)):
            for el, v in zip(target.elts, it.elems):
                self.assign(el, self.elem_of(v), env)
            return
        if it is not None and it.kind in ('arr', 'pos', 'cnt', 'idx') \
                and isinstance(target, ast.Name):
            env[target.id] = self.elem_of(it)
            return
        for x in ast.walk(target):
            if isinstance(x, ast.Name):
                env[x.id] = UNK

    def elem_of(self, v):
        if v.kind == 'pos':
            return V('pos', v.space, v.extra)
        if v.kind == 'cnt':
            return V('cntelem', v.space, v.extra)
        return UNK

    # -- expressions ----------------------------------------------------
    def ev(self, e, env):
        if e is None:
            return UNK
        if isinstance(e, ast.Name):
            return env.get(e.id, UNK)
        if isinstance(e, ast.Constant) and e.value is None:
            return NONE
        if isinstance(e, ast.Tuple):
            return V('tuple', elems=tuple(self.ev(x, env) for x in e.elts))
        if isinstance(e, ast.Subscript):
            return self.subscript(e, env)
        if isinstance(e, ast.BinOp):
            l = self.ev(e.left, env)
            r = self.ev(e.right, env)
            return self.binop(e, l, r)
        if isinstance(e, ast.UnaryOp):
            return self.ev(e.operand, env) if isinstance(
                e.op, (ast.USub, ast.UAdd)) else UNK
        if isinstance(e, ast.Compare):
            vals = [self.ev(e.left, env)] + [self.ev(c, env)
                                             for c in e.comparators]
            arrs = [v for v in vals if v.kind == 'arr']
            if arrs and all(a.space == arrs[0].space for a in arrs):
                return V('arr', arrs[0].space)
            return UNK
        if isinstance(e, ast.Call):
            return self.call(e, env)
        if isinstance(e, ast.IfExp):
            self.ev(e.test, env)
            return join(self.ev(e.body, env), self.ev(e.orelse, env))
        for sub in ast.iter_child_nodes(e):
            if isinstance(sub, ast.expr):
                self.ev(sub, env)
        return UNK

    def binop(self, e, l, r):
        add_sub = isinstance(e.op, (ast.Add, ast.Sub))
        # positions shifted by counts / scalars stay positions of the same
        # space; the difference of two position arrays of the same space
        # (cumsum(c) - c) is handled in call()/here through 'pos' - 'cnt'
        if add_sub and l.kind == 'pos' and r.kind in (
                'unk', 'cnt', 'cntelem'):
            if r.kind in ('cnt', 'cntelem') and l.extra != r.extra \
                    and l.extra is not None:
                return UNK
            return V('pos', l.space, l.extra, elems=l.elems)
        if isinstance(e.op, ast.Add) and r.kind == 'pos' \
                and l.kind in ('unk', 'cntelem'):
            return V('pos', r.space, r.extra)
        if l.kind == 'arr' and r.kind in ('unk', 'arr'):
            if r.kind == 'arr' and r.space != l.space:
                return UNK
            return V('arr', l.space)
        if r.kind == 'arr' and l.kind == 'unk':
            return V('arr', r.space)
        return UNK

    def subscript(self, e, env):
        base = self.ev(e.value, env)
        sl = e.slice
        if isinstance(sl, ast.Slice):
            lo = self.ev(sl.lower, env) if sl.lower is not None else UNK
            if sl.upper is not None:
                self.ev(sl.upper, env)
            if base.kind == 'arr' and base.space is not None:
                if lo.kind == 'pos':
                    self.oblige_pos(e, base, lo)
                if sl.step is None:
                    op = ('win', self._bound_id(sl.lower),
                          self._bound_id(sl.upper))
                    return V('arr', frozenset(ch + (op,)
                                              for ch in base.space))
                return UNK
            if base.kind == 'unk' and sl.lower is not None \
                    and sl.upper is not None and sl.step is None \
                    and isinstance(e.value, ast.Name):
                # a window of an on-disk / in-memory vector: new origin
                return V('arr', frozenset({(('rng', self._bound_id(sl.lower),
                                             self._bound_id(sl.upper)),)}))
            return UNK
        if isinstance(sl, ast.Constant):
            if base.kind == 'tuple' and base.elems and isinstance(
                    sl.value, int) and sl.value < len(base.elems):
                return base.elems[sl.value]
            return UNK
        if isinstance(sl, ast.Name):
            idx = env.get(sl.id, UNK)
            if base.kind in ('arr', 'cnt', 'pos') and idx.kind in (
                    'idx', 'arr'):
                op = ('g', self._name_id(sl))
                if base.kind == 'pos':
                    # an array of positions is laid out like the runs it
                    # was computed from; a subset of it still holds
                    # positions of the same space
                    lay = base.elems
                    if isinstance(lay, frozenset):
                        self.oblige_idx(e, V('arr', lay), idx, sl)
                        lay = frozenset(ch + (op,) for ch in lay)
                    return V('pos', base.space, base.extra, elems=lay)
                self.oblige_idx(e, base, idx, sl)
                sp = frozenset(ch + (op,) for ch in base.space) \
                    if base.space is not None else None
                if base.kind == 'cnt':
                    return V('cnt', sp, (base.extra or frozenset()) | {op})
                return V('arr', sp)
            return UNK
        self.ev(sl, env)
        return UNK

    def call(self, c, env):
        f = c.func
        nm = f.attr if isinstance(f, ast.Attribute) else (
            f.id if isinstance(f, ast.Name) else None)
        is_np = isinstance(f, ast.Attribute) and isinstance(
            f.value, ast.Name) and f.value.id in ('np', 'numpy')
        args = [self.ev(a, env) for a in c.args]
        kws = {k.arg: k.value for k in c.keywords if k.arg}
        for k in c.keywords:
            self.ev(k.value, env)
        if is_np and nm in ('logical_and', 'logical_or', 'logical_not',
                            'abs', 'copy', 'minimum', 'maximum'):
            arrs = [a for a in args if a.kind == 'arr']
            if arrs and all(a.space == arrs[0].space for a in arrs):
                return V('arr', arrs[0].space)
            return UNK
        if is_np and nm == 'argsort' and args and args[0].kind == 'arr':
            return V('idx', args[0].space)
        if is_np and nm == 'where' and len(args) == 1 \
                and args[0].kind == 'arr':
            one = V('idx', args[0].space)
            return V('tuple', elems=(one,))
        if is_np and nm == 'arange' and len(c.args) >= 2:
            return V('arr', frozenset({(('rng', self._bound_id(c.args[0]),
                                         self._bound_id(c.args[1])),)}))
        if is_np and nm == 'searchsorted' and len(args) >= 2:
            a, v = args[0], args[1]
            if a.kind == 'arr' and v.kind != 'arr':
                # position(s) of value(s) in the sorted array a
                return V('pos', a.space)
            if v.kind == 'arr':
                # one result per element of v
                return V('arr', v.space)
            return UNK
        if is_np and nm == 'unique' and args and args[0].kind == 'arr':
            rc = kws.get('return_counts')
            sp = frozenset(ch + (('uniq',),) for ch in args[0].space)
            vals = V('arr', sp)
            if isinstance(rc, ast.Constant) and rc.value is True:
                cnt = V('cnt', sp, frozenset())
                # extra = gathers applied since np.unique; the base space
                # (the array that was counted) is recovered by stripping
                # 'uniq' and those gathers
                return V('tuple', elems=(vals, cnt))
            return vals
        if is_np and nm == 'cumsum' and args and args[0].kind == 'cnt':
            cnt = args[0]
            if not cnt.extra:
                base = frozenset(ch[:-1] for ch in cnt.space
                                 if ch and ch[-1] == ('uniq',))
                if len(base) == len(cnt.space):
                    # inclusive prefix sums: run ends; minus the counts =
                    # run starts.  Both are positions of the counted array;
                    # the array of positions itself is laid out like the
                    # counts (one entry per run): kept in .elems
                    return V('pos', base, frozenset(), elems=cnt.space)
                return UNK
            comp = frozenset(ch + (('compact',),) for ch in cnt.space)
            return V('pos', comp, cnt.extra, elems=cnt.space)
        if nm == 'zip' and isinstance(f, ast.Name):
            return V('tuple', extra='zip', elems=tuple(args))
        if nm == 'astype' and isinstance(f, ast.Attribute):
            return self.ev(f.value, env)
        if nm in ('len', 'int', 'min', 'max', 'range', 'print'):
            return UNK
        if isinstance(f, ast.Attribute):
            self.ev(f.value, env)
        return UNK

    # -- obligations ----------------------------------------------------
    def check_target(self, tg, env):
        if isinstance(tg, ast.Subscript):
            self.subscript(tg, env)

    def _ob(self, node, ok, msg, key):
        tag = (id(node), key)
        if tag in self._seen:
            # keep the worst verdict of the passes
            for i, (n_, ok_, m_, k_) in enumerate(self.obligations):
                if (id(n_), k_) == tag and ok_ and not ok:
                    self.obligations[i] = (node, ok, msg, key)
            return
        self._seen.add(tag)
        self.obligations.append((node, ok, msg, key))

    def oblige_pos(self, e, base, lo):
        self.n_typed += 1
        ok = base.space == lo.space
        self._ob(e, ok,
                 f'`{unparse(e)[:60]}`: the start is a position in '
                 f'{fmt_space(lo.space)}, the array lives in '
                 f'{fmt_space(base.space)}'
                 + ('' if ok else
                    ': run starts computed for one arrangement of the '
                    'entries are applied to another, so the slice picks '
                    "other rows' entries"),
                 'slice-by-position')

    def oblige_idx(self, e, base, idx, sl):
        self.n_typed += 1
        bs = base.space
        ok = bs == idx.space
        self._ob(e, ok,
                 f'`{unparse(e)[:60]}`: index computed over '
                 f'{fmt_space(idx.space)}, applied to an array in '
                 f'{fmt_space(bs)}'
                 + ('' if ok else
                    ': arrays that travel together are no longer '
                    'filtered / permuted identically'),
                 'gather')


def _shape(e):
    """expression shape without names"""
    return type(e).__name__


def check_spaces(ctx, db, fi, rule='R-SPACE/positions'):
    se = SpaceEval(db, fi).run()
    n = 0
    per_kind = dict()
    for (node, ok, msg, key) in se.obligations:
        n += 1
        k = per_kind.get(key, 0)
        per_kind[key] = k + 1
        ctx.touch(fi)
        ctx.ob(rule, f'{fi.qual}:{key}#{k}', fi.loc(node), ok, msg)
    return n
