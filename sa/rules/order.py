"""Orders that two sites have to share.

`plainly_sorted` decides, on the reaching definitions of one function,
whether a sequence expression is ordered by the plain comparison of its
elements alone (a literal of constants, `sorted(x)`, `np.unique(x)`, a list
that was `.sort()`ed -- without key= or reverse= -- after it was last bound,
or an order-preserving image of such a sequence).  Two rules use it: the
elections of a chunk run in node-name order (C17), and the node pairs a
writer enumerates with itertools.combinations are oriented the way the
readers orient them with `<` (C18).
"""
import ast

from ..core.cfg import cfg_of
from ..core.defuse import rd_of
from ..core.loader import unparse


def _plain_sort_call(c):
    return not any(k.arg in ('key', 'reverse') for k in c.keywords)


def plainly_sorted(fi, e, nid, depth=0):
    cfg = cfg_of(fi)
    rd = rd_of(fi)
    if depth > 6:
        return False
    if isinstance(e, (ast.List, ast.Tuple)):
        return all(isinstance(x, ast.Constant) for x in e.elts)
    if isinstance(e, ast.Call):
        nm = getattr(e.func, 'id', getattr(e.func, 'attr', None))
        if nm in ('sorted', 'sort') and not (
                isinstance(e.func, ast.Attribute)
                and not isinstance(e.func.value, ast.Name)):
            return _plain_sort_call(e)
        if nm == 'sort' and isinstance(e.func, ast.Attribute) and e.args:
            return _plain_sort_call(e)      # np.sort(x)
        if nm in ('list', 'tuple', 'array', 'asarray') and e.args:
            return plainly_sorted(fi, e.args[0], nid, depth + 1)
        if nm == 'unique':
            return True
        return False
    if isinstance(e, (ast.ListComp, ast.GeneratorExp)):
        return len(e.generators) == 1 and plainly_sorted(
            fi, e.generators[0].iter, nid, depth + 1)
    if isinstance(e, ast.Name):
        defs = rd.reaching(e.id, nid)
        if not defs:
            return False
        here = {d.id for d in defs}
        for m in cfg.nodes:
            if m.id not in rd.live or m.ast is None:
                continue
            s = m.ast
            if isinstance(s, ast.Expr) and isinstance(
                    s.value, ast.Call) and isinstance(
                        s.value.func, ast.Attribute) \
                    and s.value.func.attr == 'sort' \
                    and isinstance(s.value.func.value, ast.Name) \
                    and s.value.func.value.id == e.id \
                    and _plain_sort_call(s.value) \
                    and cfg.dominates(m.id, nid) \
                    and {d.id for d in rd.reaching(e.id, m.id)} == here:
                return True
        return all(d.kind == 'assign' and d.value is not None
                   and not d.path
                   and plainly_sorted(fi, d.value, d.node, depth + 1)
                   for d in defs)
    return False


def check_pairs_plainly_oriented(ctx, fi,
                                 rule='R-ORDER/pairs-plainly-oriented'):
    """a pair of nodes is stored once, as (node1, node2) with node1 < node2
    in the plain order of the names: the readers orient the pair they ask
    for with `<` and refuse the reverse.  A writer that enumerates pairs
    with itertools.combinations(nodes, 2) and emits the two elements as
    they come therefore enumerates a plainly sorted list -- not one sorted
    with a key, reversed, or left in stored order."""
    cfg = cfg_of(fi)
    rd = rd_of(fi)
    n = 0

    def is_pairs(it):
        return (isinstance(it, ast.Call)
                and getattr(it.func, 'attr', getattr(it.func, 'id', None))
                == 'combinations' and len(it.args) == 2
                and isinstance(it.args[1], ast.Constant)
                and it.args[1].value == 2)

    sites = []      # (target, iter call, emitted roots, cfg nodes, where)
    for lp in ast.walk(fi.node):
        if isinstance(lp, ast.For) and is_pairs(lp.iter):
            sites.append((lp.target, lp.iter, lp.body,
                          [x for x in cfg.nodes_of(lp) if x.kind == 'for'],
                          lp))
        elif isinstance(lp, (ast.ListComp, ast.GeneratorExp, ast.SetComp,
                             ast.DictComp)) and len(lp.generators) == 1 \
                and is_pairs(lp.generators[0].iter):
            roots = [lp.key, lp.value] if isinstance(lp, ast.DictComp) \
                else [lp.elt]
            sites.append((lp.generators[0].target, lp.generators[0].iter,
                          roots, list(cfg.node_of_expr(lp)), lp))
    for tg, it, body, nodes, where in sites:

        def first_second(t):
            """does tuple display t hold both elements of the pair?"""
            got = set()
            for x in t.elts:
                if isinstance(tg, ast.Name) and isinstance(
                        x, ast.Subscript) and isinstance(
                            x.value, ast.Name) and x.value.id == tg.id \
                        and isinstance(x.slice, ast.Constant):
                    got.add(x.slice.value)
                elif isinstance(tg, ast.Tuple) and isinstance(x, ast.Name):
                    for i_, y in enumerate(tg.elts):
                        if isinstance(y, ast.Name) and y.id == x.id:
                            got.add(i_)
            return {0, 1} <= got
        emits = any(isinstance(t, ast.Tuple) and first_second(t)
                    for st in body for t in ast.walk(st))
        if not emits:
            continue
        for node in nodes:
            if node.id not in rd.live:
                continue
            n += 1
            ok = plainly_sorted(fi, it.args[0], node.id)
            ctx.touch(fi)
            ctx.ob(rule, f'{fi.qual}:{unparse(it.args[0])[:30]}',
                   fi.loc(where), ok,
                   'pairs come from a plainly sorted list' if ok else
                   f'pairs are emitted as itertools.combinations('
                   f'{unparse(it.args[0])[:30]}, 2) yields them, and '
                   'that list is not in plain sorted order on every path '
                   '(sorted with a key, reversed, or as stored): a pair '
                   'whose two orders differ is written as (b, a) while '
                   'every reader asks for (a, b) and is refused')
            break
    return n
