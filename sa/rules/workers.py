"""
Worker-process rules (R-PAIR for processes, drain-raises, no hidden failure).
"""
import ast

from ..core.cfg import cfg_of
from ..core.defuse import rd_of, _base_name
from ..core.loader import unparse, FunctionInfo
from ..core.resolve import (resolve_callee, process_target, ext_name,
                            call_name)

DRAIN_FUNCS = ('utils.multiprocessing_utils:winnow_process_list',
               'utils.multiprocessing_utils:winnow_process_dict')

# (an interrupt or an exit request that a worker turns into a normal
# return is a failure reported as success as well)
BROAD = ('Exception', 'BaseException', 'KeyboardInterrupt', 'SystemExit',
         'GeneratorExit')


class SpawnSite(object):
    def __init__(self, fi, call, var, target, kwargs):
        self.fi = fi
        self.call = call            # the Process(...) call
        self.var = var              # local name the process is bound to
        self.target = target        # FunctionInfo of the worker (or None)
        self.kwargs = kwargs        # dict name -> expr (or None)
        self.start_nodes = []       # cfg nodes calling var.start()
        self.stores = []            # (collection name, cfg node)

    @property
    def key(self):
        t = self.target.qual if self.target is not None else '?'
        return f'{self.fi.qual}:Process(target={t.split(":")[-1]})'


def find_spawn_sites(db, in_scope=None):
    sites = []
    for fi in db.iter_functions(in_scope):
        cfg = None
        for n in ast.walk(fi.node):
            if not isinstance(n, ast.Call):
                continue
            pt = process_target(db, fi, n)
            if pt is None:
                continue
            t = resolve_callee(db, fi, n)
            if ext_name(t) != 'multiprocessing.Process':
                continue
            # bound to a local?
            par = getattr(n, '_parent', None)
            var = None
            if isinstance(par, ast.Assign) and len(par.targets) == 1 \
                    and isinstance(par.targets[0], ast.Name):
                var = par.targets[0].id
            kwargs = pt[1] if isinstance(pt[1], dict) else None
            site = SpawnSite(fi, n, var, pt[0], kwargs)
            cfg = cfg_of(fi)
            rd = rd_of(fi)
            if var is not None:
                for node in cfg.nodes:
                    if node.id not in rd.live:
                        continue
                    for c in cfg.calls_in(node):
                        f = c.func
                        if isinstance(f, ast.Attribute) \
                                and isinstance(f.value, ast.Name) \
                                and f.value.id == var:
                            if f.attr == 'start':
                                site.start_nodes.append(node)
                        # X.append(p)
                        if isinstance(f, ast.Attribute) \
                                and f.attr in ('append', 'add') \
                                and len(c.args) == 1 \
                                and isinstance(c.args[0], ast.Name) \
                                and c.args[0].id == var:
                            b = _base_name(f.value)
                            if b:
                                site.stores.append((b, node))
                    s = node.ast
                    if node.kind == 'stmt' and isinstance(s, ast.Assign) \
                            and isinstance(s.value, ast.Name) \
                            and s.value.id == var:
                        for t_ in s.targets:
                            if isinstance(t_, ast.Subscript):
                                b = _base_name(t_)
                                if b:
                                    site.stores.append((b, node))
            sites.append(site)
    return sites


def _is_nonempty_test(test, coll):
    """is `test` true exactly when collection `coll` is non-empty?"""
    # len(X) > 0 ; len(X) != 0 ; len(X) >= 1 ; X ; len(X)
    if isinstance(test, ast.Name) and test.id == coll:
        return True
    if _is_len_of(test, coll):
        return True
    if isinstance(test, ast.Compare) and len(test.ops) == 1:
        l, op, r = test.left, test.ops[0], test.comparators[0]
        if _is_len_of(l, coll) and isinstance(r, ast.Constant):
            if isinstance(op, (ast.Gt, ast.NotEq)) and r.value == 0:
                return True
            if isinstance(op, ast.GtE) and r.value == 1:
                return True
        if _is_len_of(r, coll) and isinstance(l, ast.Constant):
            if isinstance(op, (ast.Lt, ast.NotEq)) and l.value == 0:
                return True
            if isinstance(op, ast.LtE) and l.value == 1:
                return True
    return False


def _is_len_of(e, coll):
    return (isinstance(e, ast.Call) and isinstance(e.func, ast.Name)
            and e.func.id == 'len' and len(e.args) == 1
            and isinstance(e.args[0], ast.Name) and e.args[0].id == coll)


def is_drain_call(db, fi, call, coll=None):
    t = resolve_callee(db, fi, call)
    if isinstance(t, FunctionInfo) and t.qual in DRAIN_FUNCS:
        if coll is None:
            return True
        return any(isinstance(a, ast.Name) and a.id == coll
                   for a in list(call.args)
                   + [k.value for k in call.keywords])
    return False


def check_spawn_drain(ctx, site, rule='R-PAIR/worker-drain'):
    """
    Every path from p.start() to a NORMAL exit leaves a loop
    `while <X non-empty>: X = winnow(X)` through its false edge, where X is
    the collection the process was stored in; after start() nothing else
    removes from / rebinds X; the drain's exception is not swallowed.
    """
    db = ctx.db
    fi = site.fi
    ctx.touch(fi)
    cfg = cfg_of(fi)
    rd = rd_of(fi)
    where = fi.loc(site.call)
    key = site.key
    if site.var is None:
        # Process(...).start() chained or passed elsewhere: not an idiom
        # the repo uses; cannot follow ownership
        ctx.fail(rule, key, where,
                 'Process object is not bound to a local variable; its '
                 'exit code can never be inspected')
        return
    if not site.start_nodes:
        ctx.ok(rule, key, where, 'process is never started',
               nontrivial=False)
        return
    colls = sorted({c for c, _n in site.stores})
    if not colls:
        ctx.fail(rule, key, where,
                 f'started process `{site.var}` is not stored in any '
                 'collection that is drained')
        return
    for start in site.start_nodes:
        ok_any = False
        problems = []
        for coll in colls:
            # final drain loops for this collection
            drain_heads = set()
            for node in cfg.nodes:
                if node.kind == 'while' and node.id in rd.live \
                        and _is_nonempty_test(node.ast.test, coll):
                    # no break inside, and body rebinding is a drain call
                    has_break = any(isinstance(x, ast.Break)
                                    for b in node.ast.body
                                    for x in ast.walk(b))
                    has_drain = any(
                        isinstance(x, ast.Call)
                        and is_drain_call(db, fi, x, coll)
                        for b in node.ast.body for x in ast.walk(b))
                    if has_drain and not has_break:
                        drain_heads.add(node.id)

            def edge_ok(a, b, lab, _h=drain_heads):
                # remove the exits of the final drain loops
                return not (a in _h and lab == 'false')
            p = cfg.path(start.id, {cfg.exit}, edge_ok=edge_ok)
            if p is not None:
                problems.append((coll, p))
                continue
            # the process must be stored on every path from start() to the
            # first drain head
            store_ids = {n.id for c, n in site.stores if c == coll}
            p2 = cfg.path(start.id, drain_heads,
                          avoid=lambda n, _s=store_ids: n.id in _s)
            if p2 is not None and not _store_precedes(cfg, store_ids,
                                                      start.id):
                problems.append((coll, p2))
                continue
            ok_any = True
            # nothing else shrinks / rebinds X after start()
            after = cfg.reachable(start.id)
            for d in rd.defs:
                if d.name != coll or d.node not in after:
                    continue
                if d.kind == 'del':
                    continue
                good = (d.kind == 'assign'
                        and isinstance(d.value, ast.Call)
                        and is_drain_call(db, fi, d.value, coll))
                if not good and d.kind == 'assign' and d.node not in \
                        _nodes_after_all_drains(cfg, drain_heads):
                    good = False
                if not good:
                    # re-initialisation after the final drain is harmless
                    if _dominated_by_drain_exit(cfg, drain_heads, d.node):
                        continue
                    ctx.fail(rule + '/rebind', key + f':{coll}',
                             fi.loc(cfg.nodes[d.node].ast),
                             f'collection `{coll}` of started processes is '
                             f'rebound by `{cfg.nodes[d.node].text()}` '
                             'without inspecting exit codes')
            for (nid, astn, how) in rd.mutations(coll):
                if nid not in after:
                    continue
                if how in ('append', 'add', 'store-item', 'extend',
                           'insert', 'update', 'setdefault'):
                    continue
                if _dominated_by_drain_exit(cfg, drain_heads, nid):
                    continue
                ctx.fail(rule + '/rebind', key + f':{coll}',
                         fi.loc(astn),
                         f'`{unparse(astn)}` removes processes from '
                         f'`{coll}` without inspecting exit codes')
            # the drain's exception must propagate
            for node in cfg.nodes:
                if node.id not in rd.live:
                    continue
                for c in cfg.calls_in(node):
                    if is_drain_call(db, fi, c, coll):
                        sw = swallowing_handlers_for(cfg, node.id)
                        for h in sw:
                            ctx.fail(rule + '/swallowed', key,
                                     fi.loc(h.ast),
                                     'the error raised by the drain '
                                     f'`{unparse(c)}` can be caught by '
                                     f'`{h.text()}` which does not '
                                     're-raise')
        if ok_any:
            ctx.ok(rule, key, where,
                   f'start() at L{start.lineno}: every normal path leaves '
                   f'a drain loop of `{"/".join(colls)}`')
        else:
            coll, p = problems[0]
            ctx.fail(rule, key, where,
                     f'a path from `{site.var}.start()` (L{start.lineno}) '
                     'reaches a normal return without draining '
                     f'`{coll}` through winnow_process_*',
                     witness=cfg.fmt_path(p))


def _store_precedes(cfg, store_ids, start_id):
    # stored before being started (X.append(p); p.start())
    for s in store_ids:
        if cfg.dominates(s, start_id):
            return True
    return False


def _nodes_after_all_drains(cfg, drain_heads):
    return set()


def _dominated_by_drain_exit(cfg, drain_heads, nid):
    """is nid only reachable after leaving a final drain loop?"""
    for h in drain_heads:
        for (t, lab) in cfg.succ[h]:
            if lab == 'false' and (t == nid or cfg.dominates(t, nid)):
                return True
    return False


def handler_reraises(cfg, hnode):
    """
    True iff no path starting in the handler leaves the handler's body
    other than by raising.
    """
    h_ast = hnode.ast
    inside = set()
    for b in h_ast.body:
        for sub in ast.walk(b):
            inside.add(id(sub))
    inside.add(id(h_ast))

    def in_handler(n):
        return n.ast is not None and id(n.ast) in inside and \
            n.kind not in ('join',) or (n.ast is not None
                                        and id(n.ast) in inside)
    seen = set()
    stack = [hnode.id]
    while stack:
        n = stack.pop()
        if n in seen:
            continue
        seen.add(n)
        for (t, lab) in cfg.succ[n]:
            tn = cfg.nodes[t]
            if lab in ('exc', 'reraise'):
                continue
            if tn.ast is not None and id(tn.ast) in inside:
                stack.append(t)
            else:
                # leaves the handler body without raising
                return False
    return True


def swallowing_handlers_for(cfg, nid):
    """handlers reachable from the exceptional edge of node nid (through
    dispatch / reraise chains and finally copies) that do not re-raise"""
    out = []
    seen = set()
    stack = [t for (t, lab) in cfg.succ[nid] if lab == 'exc']
    while stack:
        n = stack.pop()
        if n in seen:
            continue
        seen.add(n)
        node = cfg.nodes[n]
        if node.kind == 'dispatch':
            for (t, lab) in cfg.succ[n]:
                if lab == 'dispatch':
                    h = cfg.nodes[t]
                    if not handler_reraises(cfg, h):
                        out.append(h)
                    # a re-raising handler propagates outward
                    stack.extend(
                        t2 for (t2, lab2) in _exc_out_of_handler(cfg, h))
                elif lab == 'reraise':
                    stack.append(t)
        elif node.kind == 'join' and node.tag and node.tag.startswith(
                'finally[exc]'):
            # walk through the finally copy to its reraise edge
            for m in cfg.reachable(n):
                for (t, lab) in cfg.succ[m]:
                    if lab == 'reraise':
                        stack.append(t)
        # exc_exit: propagated
    return out


def _exc_out_of_handler(cfg, h):
    inside = set()
    for b in h.ast.body:
        for sub in ast.walk(b):
            inside.add(id(sub))
    res = []
    seen = set()
    stack = [h.id]
    while stack:
        n = stack.pop()
        if n in seen:
            continue
        seen.add(n)
        for (t, lab) in cfg.succ[n]:
            tn = cfg.nodes[t]
            if lab in ('exc', 'reraise'):
                res.append((t, lab))
            elif tn.ast is not None and id(tn.ast) in inside:
                stack.append(t)
    return res


# ----------------------------------------------------------------------
# drain-raises
# ----------------------------------------------------------------------

def _exitcode_of(e):
    """if e is `<something>.exitcode` return the text of <something>"""
    if isinstance(e, ast.Attribute) and e.attr == 'exitcode':
        return unparse(e.value)
    return None


def classify_exitcode_test(test):
    """
    returns (kind, subject) with kind in
      'nonzero'   true for every non-zero (and not None) exit code
      'finished'  true iff exit code is not None
      'running'   true iff exit code is None
      'zero'      true iff exit code == 0
      'partial'   a comparison that is true for only some non-zero codes
      None        not an exit-code test
    """
    if isinstance(test, ast.UnaryOp) and isinstance(test.op, ast.Not):
        k, s = classify_exitcode_test(test.operand)
        inv = {'finished': 'running', 'running': 'finished',
               'nonzero': 'zero-or-none', 'zero': 'nonzero-or-none'}
        return (inv.get(k), s) if k else (None, None)
    s = _exitcode_of(test)
    if s is not None:
        # truthiness: true for every non-zero code, false for 0 and None
        return 'nonzero', s
    if isinstance(test, ast.Compare) and len(test.ops) == 1:
        l, op, r = test.left, test.ops[0], test.comparators[0]
        s = _exitcode_of(l)
        other = r
        if s is None:
            s = _exitcode_of(r)
            other = l
            if s is None:
                return None, None
            # mirror operator
            mirror = {ast.Lt: ast.Gt, ast.Gt: ast.Lt, ast.LtE: ast.GtE,
                      ast.GtE: ast.LtE}
            op = mirror.get(type(op), type(op))()
        if isinstance(other, ast.Constant):
            v = other.value
            if v is None:
                if isinstance(op, (ast.IsNot, ast.NotEq)):
                    return 'finished', s
                if isinstance(op, (ast.Is, ast.Eq)):
                    return 'running', s
            if v == 0 and v is not False:
                if isinstance(op, ast.NotEq):
                    return 'nonzero', s
                if isinstance(op, ast.Eq):
                    return 'zero', s
                return 'partial', s
            return 'partial', s
        return 'partial', s
    return None, None


def check_drain_raises(ctx, fi, rule='R-DRAIN/raises'):
    """
    In a winnow function: whatever is removed from the collection has been
    seen finished (exitcode is not None) and its exit code has been compared
    with 0 by a test that is true for every non-zero value, whose true
    branch raises.
    """
    ctx.touch(fi)
    cfg = cfg_of(fi)
    rd = rd_of(fi)
    coll = fi.params[0] if fi.params else None
    key = fi.qual
    where = fi.loc()
    if coll is None:
        ctx.fail(rule, key, where, 'drain function takes no collection')
        return
    # classify all exit-code tests
    nonzero_tests = []
    finished_tests = []
    partial = []
    for node in cfg.nodes:
        if node.kind not in ('if', 'while') or node.id not in rd.live:
            continue
        k, subj = classify_exitcode_test(node.ast.test)
        if k == 'nonzero':
            nonzero_tests.append((node, subj))
        elif k == 'finished':
            finished_tests.append((node, subj, 'true'))
        elif k == 'running':
            finished_tests.append((node, subj, 'false'))
        elif k in ('partial',):
            partial.append((node, subj))
    for node, subj in partial:
        # a partial test that guards a raise is the classic mistake
        ctx.fail(rule + '/operator', key + ':' + node.text(),
                 fi.loc(node.ast),
                 f'`{node.text()}` is not true for every non-zero exit '
                 'code (a worker killed by a signal has a negative code)')
    if not nonzero_tests:
        ctx.fail(rule, key, where,
                 'no test of `.exitcode` that is true for every non-zero '
                 'value (accepted: `!= 0`, truthiness)')
        return
    # the true branch of each nonzero test raises on every path
    good_tests = []
    for node, subj in nonzero_tests:
        t_succ = [t for (t, lab) in cfg.succ[node.id] if lab == 'true']
        ok = True
        wit = None
        for t in t_succ:
            if cfg.nodes[t].kind == 'raise':
                continue
            okp, p = cfg.must_pass(
                t, {cfg.exit, node.id},
                lambda n: n.kind == 'raise',
                edge_ok=lambda a, b, lab: lab != 'exc')
            # also loops back to the loop header count as "not raising"
            heads = {n.id for n in cfg.nodes if n.kind in ('for', 'while')}
            okp2, p2 = cfg.must_pass(
                t, heads | {cfg.exit}, lambda n: n.kind == 'raise',
                edge_ok=lambda a, b, lab: lab != 'exc')
            if not (okp and okp2):
                ok = False
                wit = p or p2
        if ok:
            good_tests.append((node, subj))
            ctx.ok(rule + '/raise', key + ':' + node.text(),
                   fi.loc(node.ast),
                   'true branch raises on every path')
        else:
            ctx.fail(rule + '/raise', key + ':' + node.text(),
                     fi.loc(node.ast),
                     f'`{node.text()}` is true for a failed worker but its '
                     'true branch can continue without raising',
                     witness=cfg.fmt_path(wit) if wit else None)
    good_ids = {n.id for n, _s in good_tests}
    # removal / marking sites
    marks = []     # (cfg node, description)
    aux_lists = set()
    for (nid, astn, how) in rd.mutations(coll):
        if how in ('pop', 'remove', 'del-item', 'clear', 'popitem'):
            marks.append((cfg.nodes[nid], astn, how))
    for d in rd.defs:
        if d.name == coll and d.kind in ('assign', 'aug') and \
                d.node in rd.live:
            marks.append((cfg.nodes[d.node], d.stmt, 'rebind'))
    if not marks:
        ctx.ok(rule + '/removal', key, where,
               'the function never removes anything from the collection',
               nontrivial=False)
        return
    for node, astn, how in marks:
        # deferred removal:  for ii in to_pop: X.pop(ii)
        src_nodes = [(node, astn)]
        loop = _enclosing_for(astn)
        if loop is not None and isinstance(loop.iter, ast.Name):
            aux = loop.iter.id
            # is aux a local list filled by append?
            appends = [(cfg.nodes[n], a) for (n, a, h) in rd.mutations(aux)
                       if h == 'append']
            if appends and _removal_uses_loopvar(astn, loop):
                src_nodes = appends
                aux_lists.add(aux)
        for snode, sast in src_nodes:
            k = key + ':' + unparse(sast)
            # (1) finished: dominated by a finished-test edge
            fin_ok = False
            for tnode, subj, edge in finished_tests:
                for (t, lab) in cfg.succ[tnode.id]:
                    if lab == edge and (t == snode.id
                                        or cfg.dominates(t, snode.id)):
                        fin_ok = True
            # (2) exit code compared: dominated by the false edge of a good
            # nonzero test, or every path onward to the loop head / exit
            # passes through one
            cmp_ok = False
            for tnode, subj in good_tests:
                for (t, lab) in cfg.succ[tnode.id]:
                    if lab == 'false' and (t == snode.id
                                           or cfg.dominates(t, snode.id)):
                        cmp_ok = True
            if not cmp_ok:
                heads = {n.id for n in cfg.nodes
                         if n.kind in ('for', 'while')
                         and _ast_contains(n.ast, snode.ast)}
                okp, p = cfg.must_pass(
                    snode.id, heads | {cfg.exit},
                    lambda n: n.id in good_ids,
                    edge_ok=lambda a, b, lab: lab != 'exc')
                cmp_ok = okp
            if fin_ok and cmp_ok:
                ctx.ok(rule + '/removal', k, fi.loc(sast),
                       'removal is conditioned on a finished process whose '
                       'exit code is compared with 0')
            else:
                why = []
                if not fin_ok:
                    why.append('not conditioned on `exitcode is not None`')
                if not cmp_ok:
                    why.append('exit code not compared with 0 on every '
                               'path')
                ctx.fail(rule + '/removal', k, fi.loc(sast),
                         f'`{unparse(sast)}` drops a process from the '
                         'pool: ' + '; '.join(why))


def _enclosing_for(astn):
    n = getattr(astn, '_parent', None)
    while n is not None and not isinstance(n, (ast.For, ast.FunctionDef)):
        n = getattr(n, '_parent', None)
    return n if isinstance(n, ast.For) else None


def _removal_uses_loopvar(astn, loop):
    names = {x.id for x in ast.walk(loop.target) if isinstance(x, ast.Name)}
    return any(isinstance(x, ast.Name) and x.id in names
               for x in ast.walk(astn))


def _ast_contains(outer, inner):
    if outer is None or inner is None:
        return False
    for sub in ast.walk(outer):
        if sub is inner:
            return True
    return False


# ----------------------------------------------------------------------
# no hidden failure in workers
# ----------------------------------------------------------------------

def handler_names(h):
    if h.type is None:
        return ['<bare>']
    if isinstance(h.type, ast.Tuple):
        return [unparse(e) for e in h.type.elts]
    return [unparse(h.type)]


def is_broad(h):
    return any(n in BROAD or n == '<bare>' for n in handler_names(h))


def check_no_swallow(ctx, fi, role, rule='R-HANDLER/no-swallow',
                     broad_only=True):
    """no (broad) handler in fi that can complete without re-raising"""
    ctx.touch(fi)
    cfg = cfg_of(fi)
    rd = rd_of(fi)
    n = 0
    for node in cfg.nodes:
        if node.kind != 'handler' or node.id not in rd.live:
            continue
        h = node.ast
        if broad_only and not is_broad(h):
            continue
        n += 1
        key = f'{fi.qual}:except {",".join(handler_names(h))}'
        if handler_reraises(cfg, node):
            ctx.ok(rule, key, fi.loc(h), f'{role}: handler re-raises')
        else:
            ctx.fail(rule, key, fi.loc(h),
                     f'{role}: `{node.text()}` can complete without '
                     're-raising, so a failure inside it is reported as '
                     'success (exit code 0)')
    return n
