"""
R-POS: a value used as a range step, a slice stride or an HDF5 chunk extent
must not be able to be zero.

Abstract values: POS (>= 1 whenever defined), MAYZERO (a count, or the
result of rounding / floor division / integer casting, never floored), UNK
(a parameter or anything else -- not judged).  Variables are evaluated over
their reaching definitions; a definition is refined to POS when every path
from it to the use crosses an edge that establishes "not zero" for that
variable (`if x > 0`, `if x == 0: x = K`, `if x:` ...).
"""
import ast

from ..core.cfg import cfg_of
from ..core.defuse import rd_of
from ..core.loader import unparse
from ..core.resolve import resolve_callee, ext_name

POS, MAYZERO, UNK = 'POS', 'MAYZERO', 'UNK'

ROUNDERS = {'round', 'floor', 'int', 'rint', 'trunc', 'fix'}
CEILERS = {'ceil'}
COUNTERS = {'len', 'sum', 'count_nonzero', 'size'}


def join(a, b):
    if a == b:
        return a
    if MAYZERO in (a, b):
        return MAYZERO
    return UNK


class SignEval(object):

    def __init__(self, db, fi):
        self.db = db
        self.fi = fi
        self.cfg = cfg_of(fi)
        self.rd = rd_of(fi)
        self._memo = dict()
        self.trace = []

    def _callee_name(self, call):
        f = call.func
        if isinstance(f, ast.Name):
            return f.id
        if isinstance(f, ast.Attribute):
            return f.attr
        return None

    def eval(self, e, at, depth=0):
        if e is None or depth > 14:
            return UNK
        if isinstance(e, ast.Constant):
            v = e.value
            if isinstance(v, bool) or v is None:
                return UNK
            if isinstance(v, (int, float)):
                return POS if v >= 1 else (MAYZERO if v == 0 else UNK)
            return UNK
        if isinstance(e, ast.Name):
            return self._var(e.id, at, depth)
        if isinstance(e, ast.Tuple) and len(e.elts) == 1:
            return self.eval(e.elts[0], at, depth+1)
        if isinstance(e, ast.IfExp):
            return join(self.eval(e.body, at, depth+1),
                        self.eval(e.orelse, at, depth+1))
        if isinstance(e, ast.BinOp):
            a = self.eval(e.left, at, depth+1)
            b = self.eval(e.right, at, depth+1)
            if isinstance(e.op, ast.Add):
                if (a == POS and b in (POS, MAYZERO)) or (
                        b == POS and a in (POS, MAYZERO)):
                    return POS
                if a == MAYZERO and b == MAYZERO:
                    return MAYZERO
                return UNK
            if isinstance(e.op, ast.Mult):
                if a == POS and b == POS:
                    return POS
                if MAYZERO in (a, b):
                    return MAYZERO
                return UNK
            if isinstance(e.op, (ast.FloorDiv, ast.Mod)):
                return MAYZERO
            if isinstance(e.op, ast.Div):
                # a real quotient: positive if both are, zero if the
                # numerator may be
                if a == POS and b == POS:
                    return POS
                if a == MAYZERO:
                    return MAYZERO
                return UNK
            if isinstance(e.op, ast.Pow):
                if a == POS:
                    return POS
                return UNK
            return UNK
        if isinstance(e, ast.Subscript):
            # x.shape[i]
            if isinstance(e.value, ast.Attribute) \
                    and e.value.attr == 'shape':
                return MAYZERO
            if isinstance(e.value, ast.Name) and 'shape' in e.value.id:
                # a parameter / local holding an array shape
                return MAYZERO
            # an element / a view (`x[:, None]`) of an array whose
            # entries are all positive
            if self.eval(e.value, at, depth+1) == POS:
                return POS
            return UNK
        if isinstance(e, ast.Attribute):
            if e.attr in ('size', 'nnz'):
                return MAYZERO
            return UNK
        if isinstance(e, ast.Call):
            nm = self._callee_name(e)
            f = e.func
            # x.astype(int) / int(x): integer cast
            if nm == 'astype' and isinstance(f, ast.Attribute):
                inner = f.value
                if isinstance(inner, ast.Call) and self._callee_name(
                        inner) in CEILERS | ROUNDERS:
                    return self.eval(inner, at, depth+1)
                c = self.eval(inner, at, depth+1)
                return MAYZERO if c in (POS, MAYZERO, UNK) and \
                    self._is_realvalued(inner) else c
            if nm in CEILERS and e.args:
                return self.eval(e.args[0], at, depth+1)
            if nm in ROUNDERS and e.args:
                inner = e.args[0]
                if isinstance(inner, ast.Call) and self._callee_name(
                        inner) in CEILERS:
                    return self.eval(inner, at, depth+1)
                if nm == 'int' and not self._is_realvalued(inner):
                    return self.eval(inner, at, depth+1)
                return MAYZERO
            if nm in ('max', 'maximum') and e.args:
                cs = [self.eval(a, at, depth+1) for a in e.args]
                if POS in cs:
                    return POS
                if all(c == MAYZERO for c in cs):
                    return MAYZERO
                return UNK
            if nm in ('min', 'minimum') and e.args:
                cs = [self.eval(a, at, depth+1) for a in e.args]
                if all(c == POS for c in cs):
                    return POS
                if MAYZERO in cs:
                    return MAYZERO
                return UNK
            if nm in COUNTERS:
                return MAYZERO
            if nm == 'abs' and e.args:
                return self.eval(e.args[0], at, depth+1)
            return UNK
        return UNK

    def _is_realvalued(self, e):
        """does the expression involve a true division / a float constant
        / a rounding input, i.e. can it lie strictly between 0 and 1?"""
        for sub in ast.walk(e):
            if isinstance(sub, ast.BinOp) and isinstance(sub.op, ast.Div):
                return True
            if isinstance(sub, ast.Constant) and isinstance(sub.value,
                                                            float):
                return True
            if isinstance(sub, ast.Name) and ('gb' in sub.id.lower()
                                              or 'factor' in sub.id.lower()
                                              or 'frac' in sub.id.lower()):
                return True
        return False

    def _var(self, name, at, depth):
        key = (name, at)
        if key in self._memo:
            return self._memo[key]
        self._memo[key] = UNK
        defs = self.rd.reaching(name, at)
        if not defs:
            self._memo[key] = UNK
            return UNK
        res = None
        for d in defs:
            c = self._def_class(d, depth)
            if c == MAYZERO and self._established_nonzero(name, d, at):
                c = POS
            res = c if res is None else join(res, c)
        self._memo[key] = res
        return res

    def _def_class(self, d, depth):
        if d.kind == 'param':
            return UNK
        if d.kind == 'assign':
            if d.path:
                return self._returned_class(d.value, d.path, depth)
            if isinstance(d.value, ast.Call):
                c = self.eval(d.value, d.node, depth+1)
                if c != UNK:
                    return c
                return self._returned_class(d.value, (), depth)
            return self.eval(d.value, d.node, depth+1)
        if d.kind == 'aug':
            old = self._var(d.name, d.node, depth+1)
            new = self.eval(d.value, d.node, depth+1)
            op = d.stmt.op
            if isinstance(op, ast.Add):
                if (old == POS and new in (POS, MAYZERO)) or (
                        new == POS and old in (POS, MAYZERO)):
                    return POS
                if old == MAYZERO and new == MAYZERO:
                    return MAYZERO
                return UNK
            if isinstance(op, ast.Mult):
                if old == POS and new == POS:
                    return POS
                if MAYZERO in (old, new):
                    return MAYZERO
                return UNK
            if isinstance(op, ast.Sub):
                # x -= x % k keeps a non-negative value, possibly zero
                if isinstance(d.value, ast.BinOp) and isinstance(
                        d.value.op, ast.Mod):
                    return MAYZERO
                return UNK
            if isinstance(op, (ast.FloorDiv, ast.Mod)):
                return MAYZERO
            return UNK
        return UNK

    def _returned_class(self, value, path, depth):
        """class of (component `path` of) the value returned by a call
        into the package"""
        if not isinstance(value, ast.Call) or depth > 6:
            return UNK
        from ..core.loader import FunctionInfo
        t = resolve_callee(self.db, self.fi, value)
        if not isinstance(t, FunctionInfo) or len(path) > 1:
            return UNK
        if any(not isinstance(p, int) for p in path):
            return UNK
        sub = SignEval(self.db, t)
        res = None
        for n in sub.cfg.nodes:
            if n.kind != 'return' or n.id not in sub.rd.live:
                continue
            v = n.ast.value
            if v is None:
                return UNK
            if path:
                if not isinstance(v, ast.Tuple) or path[0] >= len(v.elts):
                    return UNK
                v = v.elts[path[0]]
            c = sub.eval(v, n.id, depth+2)
            res = c if res is None else join(res, c)
        return res if res is not None else UNK

    def _nonzero_edges(self, name):
        """{(node id, edge label)} of branch edges on which `name` != 0"""
        out = set()
        for n in self.cfg.nodes:
            if n.kind not in ('if', 'while'):
                continue
            for (edge, _v) in _zero_tests(n.ast.test, name):
                out.add((n.id, edge))
        return out

    def _established_nonzero(self, name, d, at):
        edges = self._nonzero_edges(name)
        if not edges:
            return False

        def edge_ok(a, b, lab):
            return (a, lab) not in edges
        if d.node == at:
            return False
        # only paths along which this definition is still the live one
        redefs = {x.node for x in self.rd.defs
                  if x.name == name and x.id != d.id}
        p = self.cfg.path(d.node, {at}, edge_ok=edge_ok,
                          avoid=lambda n: n.id in redefs)
        return p is None


def _zero_tests(test, name):
    """yield (edge, None) for edges of an `if` on which name is non-zero"""
    def is_name(e):
        return isinstance(e, ast.Name) and e.id == name
    if is_name(test):
        yield ('true', None)
    elif isinstance(test, ast.UnaryOp) and isinstance(test.op, ast.Not) \
            and is_name(test.operand):
        yield ('false', None)
    elif isinstance(test, ast.UnaryOp) and isinstance(test.op, ast.Not):
        for (edge, x) in _zero_tests(test.operand, name):
            yield ('false' if edge == 'true' else 'true', None)
    elif isinstance(test, ast.Compare) and len(test.ops) == 1:
        l, op, r = test.left, test.ops[0], test.comparators[0]
        if is_name(l) and isinstance(r, ast.Constant) and isinstance(
                r.value, (int, float)):
            v = r.value
            if isinstance(op, ast.Gt) and v >= 0:
                yield ('true', None)
            elif isinstance(op, ast.GtE) and v >= 1:
                yield ('true', None)
            elif isinstance(op, ast.NotEq) and v == 0:
                yield ('true', None)
            elif isinstance(op, ast.Eq) and v == 0:
                yield ('false', None)
            elif isinstance(op, ast.LtE) and v == 0:
                yield ('false', None)
            elif isinstance(op, ast.Lt) and v == 1:
                yield ('false', None)
        if is_name(r) and isinstance(l, ast.Constant) and isinstance(
                l.value, (int, float)):
            v = l.value
            if isinstance(op, ast.Lt) and v >= 0:
                yield ('true', None)
            elif isinstance(op, ast.Eq) and v == 0:
                yield ('false', None)
            elif isinstance(op, ast.NotEq) and v == 0:
                yield ('true', None)
    elif isinstance(test, ast.BoolOp) and isinstance(test.op, ast.And):
        for v in test.values:
            for (edge, x) in _zero_tests(v, name):
                if edge == 'true':
                    yield ('true', None)
    elif isinstance(test, ast.BoolOp) and isinstance(test.op, ast.Or):
        # not (a or b) = not a and not b
        for v in test.values:
            for (edge, x) in _zero_tests(v, name):
                if edge == 'false':
                    yield ('false', None)


def step_and_chunk_sites(db, fi):
    """(kind, expr, call/subscript node, cfg node) for every range step,
    slice stride and create_dataset chunk extent in fi"""
    cfg = cfg_of(fi)
    rd = rd_of(fi)
    out = []
    for node in cfg.nodes:
        if node.id not in rd.live:
            continue
        roots = list(node.exprs)
        if node.kind == 'for':
            roots = [node.ast.iter]
        for root in roots:
            if root is None:
                continue
            for sub in ast.walk(root):
                if isinstance(sub, ast.Call):
                    f = sub.func
                    if isinstance(f, ast.Name) and f.id == 'range' \
                            and len(sub.args) == 3:
                        out.append(('range-step', sub.args[2], sub, node))
                    if isinstance(f, ast.Attribute) and f.attr in (
                            'create_dataset', 'require_dataset'):
                        for kw in sub.keywords:
                            if kw.arg == 'chunks':
                                v = kw.value
                                if isinstance(v, ast.Tuple):
                                    for el in v.elts:
                                        out.append(('chunk-extent', el,
                                                    sub, node))
                                elif not (isinstance(v, ast.Constant)):
                                    out.append(('chunk-extent', v, sub,
                                                node))
                elif isinstance(sub, ast.Slice) and sub.step is not None:
                    if not (isinstance(sub.step, ast.Constant)
                            or (isinstance(sub.step, ast.UnaryOp)
                                and isinstance(sub.step.operand,
                                               ast.Constant))):
                        out.append(('slice-stride', sub.step, sub, node))
    return out


def chunk_none_guard(se, expr, node):
    """`chunks=x` where x is None on the zero path: the idiom
    `if chunks == 0: chunks = None` is handled by the nonzero-edge
    refinement; a chunks value of None/True is not an extent"""
    return False
