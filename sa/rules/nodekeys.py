"""
R-KEY/node-identity: a taxonomy node is identified by (level, label).

Labels are unique within a level, not across levels (a class and one of its
subclasses may both be called "Astro"; data-release taxonomies number their
nodes per level).  Every per-node table of the package is therefore
two-level, `table[level][label]`, or keyed by a string / tuple that
contains the level.  The rule looks at loops that walk the levels of the
hierarchy and reports a table that

  * was created outside the loop (so it collects entries of several
    levels), and
  * receives, inside the loop, a store `table[k] = ...` whose whole key
    chain contains neither a level variable of the loop nor something
    built from one (an f-string, tuple, sum or call that takes the level
    as an operand -- a value merely *looked up by* level, such as
    `cell[level]['assignment']`, is a label, not a level), or
    an `update(...)` with the per-level sub-table (`table.update(t[level])`).

Entries of different levels that share a label then overwrite each other:
a cell is routed by the rows of a namesake one level up, a dropped level is
back-filled with a grandparent, a name of the wrong level is printed.
"""
import ast

from ..core.cfg import cfg_of
from ..core.defuse import rd_of, Expander
from ..core.loader import unparse


def _hierarchy_like(t, depth=0):
    """the term denotes the ordered list of levels (or a slice / zip /
    prefix-extended copy of it)"""
    if not isinstance(t, tuple) or not t or depth > 10:
        return False
    k = t[0]
    if k == 'attr' and t[-1] in ('hierarchy',):
        return True
    if k == 'param' and t[1] in ('hierarchy', 'column_hierarchy',
                                 'level_list'):
        return True
    if k == 'sub':
        if t[2] and t[2][0] == 'const' and 'hierarchy' in str(t[2][1]):
            return True
        if t[2] and t[2][0] == 'slice':
            return _hierarchy_like(t[1], depth + 1)
        return False
    if k == 'call':
        f = t[1]
        nm = f[1] if f[0] == 'name' else (f[-1] if f[0] == 'attr' else '')
        if nm in ('zip', 'enumerate', 'list', 'reversed', 'tuple',
                  'deepcopy', 'copy'):
            args = t[2] if len(t) > 2 else ()
            return bool(args) and all(
                _hierarchy_like(a, depth + 1) or a[0] == 'const'
                for a in args)
        return False
    if k == 'binop':
        return any(_hierarchy_like(a, depth + 1) for a in t[2:]
                   if isinstance(a, tuple))
    if k == 'list':
        return False
    if k == 'phi':
        return all(_hierarchy_like(a, depth + 1) for a in t[1])
    return False


def _level_loops(fi):
    cfg = cfg_of(fi)
    rd = rd_of(fi)
    ex = Expander(fi)
    for n in cfg.nodes:
        if n.kind != 'for' or n.id not in rd.live:
            continue
        t = ex.expand(n.ast.iter, n.id)
        if _hierarchy_like(t):
            yield n.ast
            continue
        # for k in table: merged.update(table[k])  -- a dict of per-level
        # dicts flattened into one
        it = n.ast.iter
        if isinstance(n.ast.target, ast.Name) and isinstance(
                it, (ast.Name, ast.Attribute)):
            src = unparse(it)
            v = n.ast.target.id
            for x in ast.walk(n.ast):
                if isinstance(x, ast.Call) and isinstance(
                        x.func, ast.Attribute) and x.func.attr == 'update' \
                        and x.args and isinstance(x.args[0], ast.Subscript) \
                        and unparse(x.args[0].value) == src \
                        and isinstance(x.args[0].slice, ast.Name) \
                        and x.args[0].slice.id == v:
                    yield n.ast
                    break


def _outside_subscripts(expr, names):
    """a name of `names` occurs in expr other than inside a subscript
    index"""
    def rec(e, in_index):
        if isinstance(e, ast.Name):
            return e.id in names and not in_index
        if isinstance(e, ast.Subscript):
            return rec(e.value, in_index) or rec(e.slice, True)
        return any(rec(c, in_index) for c in ast.iter_child_nodes(e))
    return rec(expr, False)


def _level_vars(loop):
    lv = {x.id for x in ast.walk(loop.target) if isinstance(x, ast.Name)}
    grow = True
    while grow:
        grow = False
        for st in ast.walk(loop):
            if isinstance(st, ast.Assign) and len(st.targets) == 1 \
                    and isinstance(st.targets[0], ast.Name) \
                    and st.targets[0].id not in lv \
                    and _outside_subscripts(st.value, lv):
                lv.add(st.targets[0].id)
                grow = True
    return lv


def _inside(node, loop):
    p = getattr(node, '_parent', None)
    while p is not None:
        if p is loop:
            return True
        p = getattr(p, '_parent', None)
    return False


def check_node_keys(ctx, fi, rule='R-KEY/node-identity'):
    """returns the number of keyed stores examined"""
    n = 0
    rd = rd_of(fi)
    for loop in _level_loops(fi):
        lv = _level_vars(loop)
        created_inside = set()
        for st in ast.walk(loop):
            if isinstance(st, ast.Assign):
                for t in st.targets:
                    if isinstance(t, ast.Name):
                        created_inside.add(t.id)
        fresh_outside = set()
        for d in rd.defs:
            v = getattr(d, 'value', None)
            if d.kind == 'assign' and d.stmt is not None and not _inside(
                    d.stmt, loop) and d.name not in created_inside and (
                        (isinstance(v, ast.Dict) and not v.keys)
                        or (isinstance(v, ast.Call) and isinstance(
                            v.func, ast.Name) and v.func.id == 'dict'
                            and not v.args and not v.keywords)):
                fresh_outside.add(d.name)
        for st in ast.walk(loop):
            if isinstance(st, ast.Assign) and isinstance(
                    st.targets[0], ast.Subscript):
                tg = st.targets[0]
                base = tg
                chain = []
                while isinstance(base, ast.Subscript):
                    chain.append(base.slice)
                    base = base.value
                if not (isinstance(base, ast.Name)
                        and base.id in fresh_outside):
                    continue
                n += 1
                has_level = any(
                    isinstance(x, ast.Name) and x.id in lv
                    for c in chain for x in ast.walk(c))
                if not has_level:
                    ctx.touch(fi)
                    ctx.fail(rule, f'{fi.qual}:{_key_role(st)}',
                             fi.loc(st),
                             f'`{unparse(st)[:70]}` fills `{base.id}` '
                             '(created outside the loop over the levels) '
                             'under a key that does not contain the '
                             'level: nodes of different levels that share '
                             'a label overwrite each other')
            elif isinstance(st, ast.Expr) and isinstance(
                    st.value, ast.Call) and isinstance(
                        st.value.func, ast.Attribute) \
                    and st.value.func.attr == 'update' and isinstance(
                        st.value.func.value, ast.Name) \
                    and st.value.func.value.id in fresh_outside \
                    and st.value.args:
                a = st.value.args[0]
                if isinstance(a, ast.Subscript) and any(
                        isinstance(x, ast.Name) and x.id in lv
                        for x in ast.walk(a.slice)):
                    n += 1
                    ctx.touch(fi)
                    ctx.fail(rule, f'{fi.qual}:{_key_role(st)}',
                             fi.loc(st),
                             f'`{unparse(st)[:70]}` merges the per-level '
                             'tables into one table keyed by label alone: '
                             'a label used at two levels keeps only one '
                             'entry')
        # a table created outside the loop and handed to a helper that
        # fills it: the helper's key must contain the parameter that
        # receives the level
        from ..core.resolve import resolve_callee, bind_args
        from ..core.loader import FunctionInfo
        for c in ast.walk(loop):
            if not isinstance(c, ast.Call):
                continue
            passed = [a for a in list(c.args) + [k.value
                                                 for k in c.keywords]
                      if isinstance(a, ast.Name) and a.id in fresh_outside]
            if not passed:
                continue
            t = resolve_callee(ctx.db, fi, c)
            if not isinstance(t, FunctionInfo):
                continue
            mapping, _ = bind_args(t, c)
            level_params = {pn for pn, a in mapping.items()
                            if a is not None and _outside_subscripts(a, lv)}
            table_params = {pn for pn, a in mapping.items()
                            if isinstance(a, ast.Name)
                            and a.id in fresh_outside}
            if not level_params or not table_params:
                continue
            for st in ast.walk(t.node):
                if isinstance(st, ast.Assign) and isinstance(
                        st.targets[0], ast.Subscript):
                    tg = st.targets[0]
                    base = tg
                    chain = []
                    while isinstance(base, ast.Subscript):
                        chain.append(base.slice)
                        base = base.value
                    if not (isinstance(base, ast.Name)
                            and base.id in table_params):
                        continue
                    n += 1
                    clv = _level_vars_from(t.node, level_params)
                    if not any(isinstance(x, ast.Name) and x.id in clv
                               for ch in chain for x in ast.walk(ch)):
                        ctx.touch(fi)
                        ctx.touch(t)
                        ctx.fail(rule, f'{t.qual}:{_key_role(st)}',
                                 t.loc(st),
                                 f'`{unparse(st)[:70]}` in {t.name} fills '
                                 'a table that its caller shares between '
                                 'the levels, under a key that does not '
                                 'contain the level: nodes of different '
                                 'levels that share a label get each '
                                 "other's entry")
    return n


def _level_vars_from(fn_node, seeds):
    lv = set(seeds)
    grow = True
    while grow:
        grow = False
        for st in ast.walk(fn_node):
            if isinstance(st, ast.Assign) and len(st.targets) == 1 \
                    and isinstance(st.targets[0], ast.Name) \
                    and st.targets[0].id not in lv \
                    and _outside_subscripts(st.value, lv):
                lv.add(st.targets[0].id)
                grow = True
    return lv


def _key_role(st):
    kind = 'update' if isinstance(st, ast.Expr) else 'store'
    fn = st
    while fn is not None and not isinstance(
            fn, (ast.FunctionDef, ast.AsyncFunctionDef)):
        fn = getattr(fn, '_parent', None)
    sibs = [x for x in ast.walk(fn) if type(x) is type(st)] if fn else [st]
    sibs.sort(key=lambda x: (x.lineno, x.col_offset))
    return f'{kind}#{next((i for i, x in enumerate(sibs) if x is st), 0)}'


# ----------------------------------------------------------------------
# R-MEMO/key-complete
# ----------------------------------------------------------------------

def _enclosing(n, kinds):
    out = []
    p = getattr(n, '_parent', None)
    while p is not None and not isinstance(
            p, (ast.FunctionDef, ast.AsyncFunctionDef)):
        if isinstance(p, kinds):
            out.append(p)
        p = getattr(p, '_parent', None)
    return out


def _atoms(e, vary):
    """what an expression reads of the varying names, as access paths:
    (name,) for the whole value, (name, path) for the longest chain of
    subscripts / attributes read from it (`item['path']`,
    `cell[level]['assignment']`, `spec.layer`)"""
    out = set()
    inner = set()
    chains = []
    for x in ast.walk(e):
        if isinstance(x, (ast.Subscript, ast.Attribute)):
            parts = []
            b = x
            while isinstance(b, (ast.Subscript, ast.Attribute)):
                if isinstance(b, ast.Subscript):
                    parts.append('[' + unparse(b.slice) + ']')
                else:
                    parts.append('.' + b.attr)
                b = b.value
            if isinstance(b, ast.Name) and b.id in vary:
                chains.append((x, b, ''.join(reversed(parts))))
    # keep maximal chains only
    for (x, b, path) in chains:
        sub = x.value
        while isinstance(sub, (ast.Subscript, ast.Attribute)):
            inner.add(id(sub))
            sub = sub.value
        inner.add(id(b))
    for (x, b, path) in chains:
        if id(x) in inner:
            continue
        out.add((b.id, path))
    for x in ast.walk(e):
        if isinstance(x, ast.Name) and x.id in vary and id(x) not in inner:
            out.add((x.id,))
    return out


def _covered(a, key_atoms):
    """the part of the input `a` is determined by the key: the key holds
    the whole name, or a path of which `a`'s path is an extension"""
    if (a[0],) in key_atoms or a in key_atoms:
        return True
    if len(a) == 1:
        return False
    for k in key_atoms:
        if k[0] == a[0] and len(k) > 1 and a[1].startswith(k[1]):
            return True
    return False


def _local_values(fi, name):
    """values assigned to a plain local in the function"""
    out = []
    for st in ast.walk(fi.node):
        if isinstance(st, ast.Assign) and len(st.targets) == 1 \
                and isinstance(st.targets[0], ast.Name) \
                and st.targets[0].id == name:
            out.append(st.value)
        # what is put into the local afterwards is part of its value:
        # name[k] = v, name.append(v), name.update(v)
        if isinstance(st, ast.Assign) and len(st.targets) == 1 \
                and isinstance(st.targets[0], ast.Subscript) \
                and isinstance(st.targets[0].value, ast.Name) \
                and st.targets[0].value.id == name:
            out.append(st.value)
        if isinstance(st, ast.Call) and isinstance(
                st.func, ast.Attribute) and st.func.attr in (
                    'append', 'extend', 'update', 'add', 'insert') \
                and isinstance(st.func.value, ast.Name) \
                and st.func.value.id == name:
            out.extend(st.args)
    return out


def check_memo_keys(ctx, fi, rule='R-MEMO/key-complete'):
    """`if k not in cache: cache[k] = f(a, b, ...)`: the cached value is
    reused for every later occurrence of k, so everything it is computed
    from that varies during the life of the cache must be part of the
    key.  For a cache created in the function that is the loop variables
    of the loops between its creation and the store; for a cache held in
    an attribute of the object (`self._cache`) the parameters of the
    method.  Parts are compared by access path: a value computed from
    `item['path']` and `item['layer']` and cached under `item['path']`
    alone is handed to the next item with that path, whatever its layer;
    a value computed from (level, label) and cached under label alone is
    handed to the namesake of another level."""
    creations = dict()
    for st in ast.walk(fi.node):
        if isinstance(st, ast.Assign) and len(st.targets) == 1 \
                and isinstance(st.targets[0], ast.Name):
            v = st.value
            if (isinstance(v, ast.Dict) and not v.keys) or (
                    isinstance(v, ast.Call) and isinstance(
                        v.func, ast.Name) and v.func.id == 'dict'
                    and not v.args and not v.keywords) or isinstance(
                        v, ast.DictComp):
                # (a table of per-key sub-tables built by a comprehension
                # is a fresh table as well)
                creations.setdefault(st.targets[0].id, []).append(st)
    params = {a.arg for a in fi.node.args.posonlyargs + fi.node.args.args
              + fi.node.args.kwonlyargs} - {'self', 'cls'}
    n = 0
    for st in ast.walk(fi.node):
        if not (isinstance(st, ast.Assign) and isinstance(
                st.targets[0], ast.Subscript)):
            continue
        tg = st.targets[0]
        b = tg
        while isinstance(b, (ast.Subscript, ast.Attribute)):
            b = b.value
        local_cache = isinstance(b, ast.Name) and b.id in creations
        attr_cache = isinstance(b, ast.Name) and b.id == 'self' \
            and isinstance(tg.value, ast.Attribute)
        # a module-level container lives as long as the process: every
        # parameter of the function varies during its life
        gv = fi.module.globals.get(b.id) if isinstance(b, ast.Name) else None
        global_cache = (not local_cache and isinstance(b, ast.Name)
                        and b.id not in params and gv is not None and (
                            (isinstance(gv, ast.Dict) and not gv.keys)
                            or (isinstance(gv, ast.Call) and isinstance(
                                gv.func, ast.Name)
                                and gv.func.id in ('dict', 'OrderedDict')
                                and not gv.args)))
        if not (local_cache or attr_cache or global_cache):
            continue
        memo = False
        for g in _enclosing(st, (ast.If,)):
            t = g.test
            if isinstance(t, ast.UnaryOp) and isinstance(t.op, ast.Not) \
                    and isinstance(t.operand, ast.Compare) and len(
                        t.operand.ops) == 1 and isinstance(
                            t.operand.ops[0], ast.In):
                c = t.operand
                if unparse(c.comparators[0]) == unparse(tg.value) \
                        and unparse(c.left) == unparse(tg.slice) \
                        and st in ast.walk(g) and not any(
                            st is x for o in g.orelse for x in ast.walk(o)):
                    memo = True
            if isinstance(t, ast.Compare) and len(t.ops) == 1 \
                    and isinstance(t.ops[0], ast.NotIn) \
                    and unparse(t.comparators[0]) == unparse(tg.value) \
                    and unparse(t.left) == unparse(tg.slice):
                memo = True
        if not memo:
            # early-exit form: `if k in cache: <use cache[k]>; continue`
            # (or return) earlier in the same block, the store further
            # down on the path that computed the value
            for other in ast.walk(fi.node):
                if not (isinstance(other, ast.If) and isinstance(
                        other.test, ast.Compare) and len(
                            other.test.ops) == 1 and isinstance(
                                other.test.ops[0], ast.In)):
                    continue
                c = other.test
                if unparse(c.comparators[0]) != unparse(tg.value) \
                        or unparse(c.left) != unparse(tg.slice):
                    continue
                if any(st is x for x in ast.walk(other)):
                    continue
                if not (other.body and isinstance(
                        other.body[-1], (ast.Continue, ast.Return))):
                    continue
                reads = any(isinstance(x, ast.Subscript) and unparse(
                    x.value) == unparse(tg.value) and unparse(
                        x.slice) == unparse(tg.slice)
                    for b_ in other.body for x in ast.walk(b_))
                if reads and getattr(other, 'lineno', 0) < getattr(
                        st, 'lineno', 0):
                    memo = True
        if not memo:
            continue
        # "first one wins, a different later one is an error": where the
        # key is already present the stored value is compared with the
        # new one -- a uniqueness check, not a cache
        checked = False
        for g in _enclosing(st, (ast.If,)):
            for arm in (g.body, g.orelse):
                if any(st is x for o in arm for x in ast.walk(o)):
                    continue
                for o in arm:
                    for x in ast.walk(o):
                        if isinstance(x, ast.Compare) and len(x.ops) == 1 \
                                and isinstance(x.ops[0], (ast.Eq, ast.NotEq)):
                            sides = {unparse(x.left),
                                     unparse(x.comparators[0])}
                            if unparse(tg) in sides and unparse(
                                    st.value) in sides:
                                checked = True
        if checked:
            continue
        if local_cache:
            cr_loops = set()
            for c in creations[b.id]:
                cr_loops |= {id(lp) for lp in _enclosing(c, (ast.For,))}
            vary = set()
            for lp in _enclosing(st, (ast.For,)):
                if id(lp) not in cr_loops:
                    vary |= {x.id for x in ast.walk(lp.target)
                             if isinstance(x, ast.Name)}
        else:
            # the cache outlives the call: every parameter varies, and so
            # does every variable of a loop around the store
            vary = set(params)
            for lp in _enclosing(st, (ast.For,)):
                vary |= {x.id for x in ast.walk(lp.target)
                         if isinstance(x, ast.Name)}
        # the key, with plain locals resolved to what they were assigned
        key_atoms = set()
        e = tg
        while isinstance(e, ast.Subscript):
            key_atoms |= _atoms(e.slice, vary)
            for x in ast.walk(e.slice):
                if isinstance(x, ast.Name) and x.id not in vary:
                    for v in _local_values(fi, x.id):
                        key_atoms |= _atoms(v, vary)
            e = e.value
        used = _atoms(st.value, vary)
        for x in ast.walk(st.value):
            if isinstance(x, ast.Name) and x.id not in vary \
                    and x.id != getattr(b, 'id', None):
                for v in _local_values(fi, x.id):
                    used |= _atoms(v, vary)
        missing = {a for a in used if not _covered(a, key_atoms)}
        n += 1
        ctx.touch(fi)
        shown = sorted(a[0] + (a[1] if len(a) > 1 else '')
                       for a in missing)
        ctx.ob(rule, f'{fi.qual}:{_key_role(st)}', fi.loc(st), not missing,
               'the cached value depends only on its key' if not missing
               else f'`{unparse(st)[:70]}` caches a value computed from '
               f'{shown} under a key that does not contain '
               f'{"it" if len(missing) == 1 else "them"}: a later lookup '
               'with another value of '
               f'{shown} gets the stale entry')
    return n


# ----------------------------------------------------------------------
# R-ALIGN/zip-lockstep
# ----------------------------------------------------------------------

def check_zip_alignment(ctx, fi, rule='R-ALIGN/zip-lockstep'):
    """`zip(a, b)` pairs element i of a with element i of b.  When one of
    them is a list filled by `append` in a loop, the pairing is right only
    if the other was filled in the same loop (lock-step) or *is* the
    sequence that loop iterates -- not a sorted or otherwise re-ordered
    copy of it."""
    cfg = cfg_of(fi)
    rd = rd_of(fi)
    ex = None
    n = 0

    def append_loops(name):
        out = []
        for c in ast.walk(fi.node):
            if isinstance(c, ast.Call) and isinstance(
                    c.func, ast.Attribute) and c.func.attr == 'append' \
                    and isinstance(c.func.value, ast.Name) \
                    and c.func.value.id == name:
                lps = _enclosing(c, (ast.For,))
                out.append(lps[0] if lps else None)
        return out

    for z in ast.walk(fi.node):
        if not (isinstance(z, ast.Call) and isinstance(z.func, ast.Name)
                and z.func.id == 'zip' and len(z.args) >= 2
                and all(isinstance(a, ast.Name) for a in z.args)):
            continue
        filled = {a.id: append_loops(a.id) for a in z.args}
        loops = {id(lp): lp for ls in filled.values() for lp in ls
                 if lp is not None}
        if not loops:
            continue
        ns = [x for x in cfg.node_of_expr(z) if x.id in rd.live]
        if not ns:
            continue
        n += 1
        ok = True
        why = ''
        if len(loops) > 1:
            ok = False
            why = 'its arguments are filled in different loops'
        else:
            lp = next(iter(loops.values()))
            for a in z.args:
                if filled[a.id]:
                    continue
                if ex is None:
                    ex = Expander(fi)
                hdr = [x for x in cfg.nodes_of(lp) if x.kind == 'for'
                       and x.id in rd.live]
                ta = ex.expand(a, ns[0].id)
                tl = ex.expand(lp.iter, hdr[0].id) if hdr else None
                if ta != tl and unparse(a) != unparse(lp.iter):
                    ok = False
                    why = (f'`{a.id}` is not the sequence '
                           f'`{unparse(lp.iter)[:40]}` that the loop '
                           'filling the other argument iterates')
        ctx.touch(fi)
        ctx.ob(rule, f'{fi.qual}:zip#{n - 1}', fi.loc(z), ok,
               'zipped lists are filled in lock-step' if ok else
               f'`{unparse(z)[:60]}` pairs lists that are not in the same '
               f'order: {why}')
    return n


_READS = {'open', 'File', 'read_csv', 'read_text', 'read_bytes', 'load',
          'loads_file', 'read_h5ad', 'read_df_from_h5ad',
          'read_uns_from_h5ad', 'genfromtxt', 'loadtxt', 'fromfile'}
_MEMO_DECORATORS = {'lru_cache', 'cache', 'cached', 'memoize', 'memoized',
                    'cached_property'}


def _decorator_name(d):
    if isinstance(d, ast.Call):
        d = d.func
    if isinstance(d, ast.Attribute):
        return d.attr
    if isinstance(d, ast.Name):
        return d.id
    return None


def check_memo_of_outside_state(ctx, fi,
                                rule='R-MEMO/outside-state-not-in-key'):
    """a memo that lives as long as the process (functools.lru_cache /
    cache on the function, or a module-level table it fills) hands back
    what it computed the first time for equal arguments.  A function that
    reads a file computes from the file's contents, which are not among
    its arguments: the second taxonomy / the rewritten CSV under the same
    path is answered with the first one's contents."""
    memo = [d for d in fi.node.decorator_list
            if _decorator_name(d) in _MEMO_DECORATORS]
    tables = set()
    tree = fi.module.tree
    for st in tree.body:
        if isinstance(st, ast.Assign) and len(st.targets) == 1 \
                and isinstance(st.targets[0], ast.Name):
            v = st.value
            if isinstance(v, ast.Dict) or (
                    isinstance(v, ast.Call) and getattr(
                        v.func, 'id', getattr(v.func, 'attr', None))
                    in ('dict', 'OrderedDict', 'defaultdict')):
                tables.add(st.targets[0].id)
    local = {a.arg for a in fi.node.args.posonlyargs + fi.node.args.args
             + fi.node.args.kwonlyargs}
    for st in ast.walk(fi.node):
        if isinstance(st, ast.Assign):
            for t in st.targets:
                if isinstance(t, ast.Name):
                    local.add(t.id)
    stores = []
    for st in ast.walk(fi.node):
        if isinstance(st, ast.Assign) and isinstance(
                st.targets[0], ast.Subscript):
            b = st.targets[0].value
            if isinstance(b, ast.Name) and b.id in tables \
                    and b.id not in local:
                stores.append(st)
    if not memo and not stores:
        return 0
    reads = []
    seen = set()
    todo = [fi]
    while todo:
        f = todo.pop()
        if f.qual in seen:
            continue
        seen.add(f.qual)
        for c in ast.walk(f.node):
            if isinstance(c, ast.Call):
                nm = getattr(c.func, 'attr', getattr(c.func, 'id', None))
                if nm in _READS and not (
                        nm in ('load', 'loads_file')
                        and not isinstance(c.func, ast.Attribute)):
                    reads.append((f, c))
        if len(seen) < 12:
            for t in ctx.cg.edges.get(f.qual, ()):
                g = ctx.db.functions.get(t)
                if g is not None:
                    todo.append(g)
    ctx.touch(fi)
    what = (f'@{unparse(memo[0])[:40]}' if memo else
            f'the module-level table `{stores[0].targets[0].value.id}`')
    ok = not reads
    where = memo[0] if memo else stores[0]
    ctx.ob(rule, f'{fi.qual}:memo', fi.loc(where), ok,
           'the memoised function reads no file' if ok else
           f'{what} keeps the result of {fi.name} for the life of the '
           f'process, keyed by its arguments; the result is read from a '
           f'file (`{unparse(reads[0][1])[:50]}` in {reads[0][0].qual}) '
           'whose contents are not part of the key: another file written '
           'under the same path is answered with the first one\'s contents')
    return 1
