"""
Module scan: the generic structural rules over every function of the
modules a property is anchored in.

The per-property checks name individual functions.  A defect of one of the
generic kinds (a window that does not tile, a cache keyed by half of its
inputs, a value forced back into the element type of the raw data, an HDF5
name created twice, ...) in a *neighbouring* function of the same modules
breaks the property just as well, but no anchor rule looks there.  After a
property's own obligations have been evaluated, this scan takes the
modules listed as the property's anchors (properties.jsonl, anchors.files)
together with the modules of the functions the check analysed, and
evaluates the generic rules on every function of those modules that the
property's own check has not already judged with the same rule.

The scope is deliberately the property's own modules and not everything
reachable from them: a tiling defect in a reader breaks the reader's
property, not that of every stage that eventually reads a file.

Only rules are used here whose instances on the tree are all discharged
(or that expect none); what they report is a defect of the construct
itself.
"""
from ..core.loader import AnalysisError


def check_closure_idioms(ctx, extra_roots=()):
    from .idioms import (check_shared_mutable, check_abs_of_extremum,
                         check_narrowing_cast, check_inplace_float_store,
                         check_truthy_position, check_jump_in_finally,
                         check_partially_empty_return,
                         check_sentinel_codes_gather,
                         check_falsy_numeric_default,
                         check_span_contiguity,
                         check_alias_edited_in_place,
                         check_merge_default_overwrites,
                         check_returns_depend_alike)
    from .h5names import check_h5_names_created_once
    from .scatter import (check_pointer_scatter,
                          check_pointer_window_rebased,
                          check_converted_pointer_extent)
    from .tiling import (check_tiling, check_whole_axis,
                         check_window_writes, check_buffer_windows,
                         check_store_advances, check_batch_search,
                         check_copy_not_filtered_by_content,
                         check_extent_follows_array)
    from .perm import (check_request_order, check_unsort_pairs,
                       check_sorted_results_unsorted,
                       check_parallel_windows_in_step,
                       check_permuted_rows_not_windowed)
    from .nodekeys import check_memo_keys, check_memo_of_outside_state
    from .capacity import (check_index_dtype, check_borrowed_dtype,
                           check_sum_capacity, check_bound_kind,
                           check_index_arithmetic_widened,
                           check_index_cast_to_input_dtype,
                           check_capacity_predicates)
    from . import cursors as CU
    from .order import check_pairs_plainly_oriented
    from .roles import check_columns_and_names_selected_together
    from .forwarding import (check_keywords_not_crossed,
                             check_sibling_defaults_bound)
    db = ctx.db
    seeds = [q for q in sorted(ctx.functions_analysed)
             if q in db.functions] + [q for q in extra_roots
                                      if q in db.functions]
    modules = {db.functions[q].module.short for q in seeds}
    modules |= _anchor_modules(ctx.prop_id)
    closure = [f.qual for f in db.iter_functions()
               if f.module.short in modules]
    # instances the property's own check has judged (armed); an advisory
    # record of the thorough sweep is replaced by the armed one
    have = {(o.rule, o.key) for o in ctx.obligations if not o.advisory}
    start = len(ctx.obligations)
    touched_before = set(ctx.functions_analysed)
    n_fn = 0
    for q in sorted(closure):
        fi = db.functions.get(q)
        if fi is None or fi.module.short.startswith(('gpu_utils',)):
            continue
        n_fn += 1
        for rule in (check_shared_mutable, check_abs_of_extremum,
                     check_partially_empty_return,
                     check_sentinel_codes_gather,
                     check_falsy_numeric_default,
                     check_span_contiguity,
                     check_alias_edited_in_place,
                     check_merge_default_overwrites,
                     check_truthy_position, check_jump_in_finally,
                     check_narrowing_cast, check_inplace_float_store,
                     check_h5_names_created_once, check_pointer_scatter,
                     check_pointer_window_rebased,
                     check_converted_pointer_extent,
                     check_whole_axis, check_request_order,
                     check_unsort_pairs, check_sorted_results_unsorted,
                     check_parallel_windows_in_step,
                     check_permuted_rows_not_windowed,
                     check_memo_keys, check_memo_of_outside_state,
                     check_keywords_not_crossed,
                     check_sibling_defaults_bound,
                     check_pairs_plainly_oriented,
                     check_columns_and_names_selected_together, check_index_dtype, check_borrowed_dtype,
                     check_sum_capacity, check_bound_kind,
                     check_index_arithmetic_widened,
                     check_index_cast_to_input_dtype,
                     check_capacity_predicates, check_tiling,
                     check_window_writes, check_buffer_windows,
                     check_store_advances, check_batch_search,
                     check_copy_not_filtered_by_content,
                     check_extent_follows_array,
                     CU.check_cursors,
                     CU.check_advance):
            try:
                rule(ctx, fi)
            except AnalysisError:
                continue
    # the small helpers the anchored code calls directly to turn a request
    # into read windows (utils.utils and the like) are part of how the
    # anchored function computes its answer: the value-shape rules that
    # need no context judge them too
    inside = set(closure)
    helpers = set()
    frontier = list(closure)
    while frontier:
        q = frontier.pop()
        for t in ctx.cg.edges.get(q, ()):
            f = db.functions.get(t)
            if f is not None and t not in inside and t not in helpers \
                    and f.module.short in ('utils.utils',
                                           'utils.h5_utils'):
                helpers.add(t)
                frontier.append(t)      # helpers of helpers
    for q in sorted(helpers):
        fi = db.functions[q]
        for rule in (check_span_contiguity, check_request_order,
                     check_unsort_pairs, check_sorted_results_unsorted,
                     check_truthy_position, check_partially_empty_return,
                     check_whole_axis, check_tiling):
            try:
                rule(ctx, fi)
            except AnalysisError:
                continue
    new = ctx.obligations[start:]
    kept = [o for o in new if (o.rule, o.key) not in have]
    del ctx.obligations[start:]
    armed = {(o.rule, o.key) for o in kept}
    ctx.obligations[:] = [o for o in ctx.obligations
                          if not (o.advisory and (o.rule, o.key) in armed)]
    ctx.obligations.extend(kept)
    # the scan does not widen "functions analysed" beyond what failed
    ctx.functions_analysed = touched_before | {
        o.key.split(':')[0] + ':' + o.key.split(':')[1]
        for o in kept if not o.ok and o.key.count(':') >= 1
        and (o.key.split(':')[0] + ':' + o.key.split(':')[1])
        in db.functions}
    n_bad = sum(1 for o in kept if not o.ok and not o.advisory)
    ctx.ok('R-CLOSURE/generic-rules', 'modules of the anchors',
           'package',
           f'{n_fn} functions of the {len(modules)} anchored modules '
           f'scanned with the generic structural rules: '
           f'{len(kept)} further instance(s), {n_bad} violated',
           nontrivial=len(kept) > 0)
    return n_fn


def _anchor_modules(prop_id):
    import json
    import pathlib
    root = pathlib.Path(__file__).resolve().parent.parent.parent
    out = set()
    try:
        for line in (root / 'properties.jsonl').read_text().splitlines():
            d = json.loads(line)
            if d.get('id') != prop_id:
                continue
            for f in d.get('anchors', {}).get('files', []):
                if f.startswith('src/cell_type_mapper/') and f.endswith(
                        '.py'):
                    out.add(f[len('src/cell_type_mapper/'):-3].replace(
                        '/', '.'))
    except (OSError, ValueError):
        pass
    return out
