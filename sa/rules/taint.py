"""
C1: order / nondeterministic-value taint (DESIGN.md section 3 E-C1 and
appendix B.2).

Abstract value AV = (kind, ord, val)
  kind  'set' | 'seq' | 'dict' | 'scalar' | 'unk'
  ord   labels on the *iteration order* of the container
  val   labels on *which value* it is (content as a sequence, a scalar
        picked by position, ...)
Labels: ('HASH', where) iteration order of a set; ('SCHED', where) content
order of a Manager list/dict filled by workers; ('FS', where) directory
listing order; ('P', i, 'ord'|'val') symbolic label of parameter i used in
function summaries.

The analysis is flow-sensitive over the statement CFG (join = union of
labels, fixpoint), with summaries for package callees.  Sinks are reported
when a non-symbolic label reaches them; symbolic labels reaching a sink
become part of the function's summary and are instantiated at call sites.
"""
import ast

from ..core.cfg import cfg_of
from ..core.loader import FunctionInfo, ClassInfo, unparse
from ..core.resolve import (resolve_callee, ext_name, bind_args,
                            process_target)

EMPTY = frozenset()

ORDER_CLEARING = {'sorted', 'sort', 'unique', 'argsort', 'lexsort'}
ORDER_FREE_RESULT = {
    'len', 'sum', 'min', 'max', 'any', 'all', 'isin', 'in1d', 'mean',
    'std', 'var', 'median', 'count_nonzero', 'bool', 'int', 'float',
    'isinstance', 'issubclass', 'hasattr', 'callable', 'id', 'hash',
    'prod', 'amax', 'amin', 'nanmax', 'nanmin', 'isdisjoint', 'issubset',
    'issuperset', 'count', 'allclose', 'array_equal', 'equal'}
SEQ_PRESERVING = {
    'list', 'tuple', 'array', 'asarray', 'deepcopy', 'copy', 'astype',
    'concatenate', 'vstack', 'hstack', 'stack', 'where', 'reversed',
    'enumerate', 'zip', 'iter', 'map', 'filter', 'chain', 'dumps', 'encode',
    'decode', 'str', 'repr', 'tolist', 'flatten', 'ravel', 'reshape',
    'values', 'keys', 'items', 'Series', 'DataFrame', 'cumsum', 'diff',
    'take', 'ascontiguousarray', 'squeeze', 'transpose', 'format',
    'extend_', 'strip', 'split', 'replace', 'lower', 'upper', 'Path'}
SET_MAKERS = {'set', 'frozenset'}
SET_METHODS = {'union', 'intersection', 'difference',
               'symmetric_difference'}
FS_LISTERS = {'iterdir', 'listdir', 'glob', 'rglob', 'scandir', 'walk'}


def timing(labels):
    """what is collected (appended, +=) *when* depends on timing ends up
    in an order that depends on timing"""
    return frozenset(l for l in labels if l[0] == 'SCHED')


def frozen(labels):
    """a *list* whose order came from a set: the order is frozen into the
    value (a set that is still a set can be sorted by whoever serialises
    it; a list made from it cannot).  Marked with a label of its own that
    ordinary sinks ignore."""
    return frozenset(('FROZEN', l[1]) for l in labels if l[0] == 'HASH')


class AV(object):
    """kord: labels on the key (insertion) order of a dict, or of dicts
    nested in this value; they become `ord` when the dict is iterated or
    converted to a sequence, and are not a sink by themselves (JSON
    objects and HDF5 groups are unordered)"""
    __slots__ = ('kind', 'ord', 'val', 'kord', 'fields')

    def __init__(self, kind='unk', ord=EMPTY, val=EMPTY, kord=EMPTY,
                 fields=None):
        self.kind = kind
        self.ord = frozenset(ord)
        self.val = frozenset(val)
        self.kord = frozenset(kord)
        # field sensitivity for dicts with constant string keys:
        # tuple of (key, AV) sorted by key, or None
        self.fields = fields

    REST = '\x00rest'

    def field(self, key, exact=False):
        """AV stored under constant key `key`; if the key is not among
        the known fields, the AV of the unknown remainder"""
        if self.fields is None:
            return None
        rest = None
        for (k, v) in self.fields:
            if k == key:
                return v
            if k == AV.REST:
                rest = v
        if exact:
            return None
        return rest

    def join(self, o):
        k = self.kind if self.kind == o.kind else 'unk'
        f = None
        if self.fields is not None and o.fields is not None:
            keys = {x[0] for x in self.fields} | {x[0] for x in o.fields}
            merged = []
            for key in sorted(keys):
                a, b = self.field(key, True), o.field(key, True)
                if a is None:
                    merged.append((key, b))
                elif b is None:
                    merged.append((key, a))
                else:
                    merged.append((key, a.join(b)))
            f = tuple(merged)
        return AV(k, self.ord | o.ord, self.val | o.val,
                  self.kord | o.kord, f)

    def __eq__(self, o):
        return (isinstance(o, AV) and self.kind == o.kind
                and self.ord == o.ord and self.val == o.val
                and self.kord == o.kord and self.fields == o.fields)

    def __hash__(self):
        return hash((self.kind, self.ord, self.val, self.kord,
                     self.fields))

    def __repr__(self):
        return (f'AV({self.kind}, ord={set(self.ord)}, '
                f'val={set(self.val)}, kord={set(self.kord)})')

    @property
    def clean(self):
        return not self.ord and not self.val and not self.kord

    @property
    def iter_ord(self):
        """labels on the order in which iteration visits the elements"""
        if self.kind == 'dict':
            return self.kord | self.ord
        if self.kind == 'unk':
            return self.ord | self.kord
        return self.ord


CLEAN = AV()


def real(labels):
    return frozenset(x for x in labels if x[0] != 'P')


def symbolic(labels):
    return frozenset(x for x in labels if x[0] == 'P')


from ..core.resolve import register_cache  # noqa: E402
_LOCALS = register_cache(dict())
_SRC_KEYS = register_cache(dict())


def _local_names(fi):
    if fi.qual not in _LOCALS or _LOCALS[fi.qual][0] is not fi.node:
        loc = set()
        for n in ast.walk(fi.node):
            if isinstance(n, ast.Name) and isinstance(
                    n.ctx, (ast.Store, ast.Del)):
                loc.add(n.id)
        _LOCALS[fi.qual] = (fi.node, loc - set(fi.params))
    return _LOCALS[fi.qual][1]


def _norm_text(fi, node):
    """source text of a construct with the function's local variable
    names replaced by positional placeholders: keys built from it survive
    the renaming of a local"""
    loc = _local_names(fi)
    order = dict()
    txt = unparse(node)
    import re
    def sub(m):
        w = m.group(0)
        if w in loc:
            if w not in order:
                order[w] = f'_{len(order) + 1}'
            return order[w]
        return w
    return re.sub(r'(?<![\w.])[A-Za-z_]\w*', sub, txt)


class Finding(object):
    def __init__(self, fi, site, sink, labels, how, chain=()):
        self.fi = fi
        self.site = site
        self.sink = sink
        self.labels = labels
        self.how = how
        self.chain = chain

    def key(self):
        src = sorted({f'{lab[0]}@{lab[1]}' for lab in self.labels})
        return (f'{self.fi.qual}:{self.sink}:'
                f'{_norm_text(self.fi, self.site)[:40]}<-{";".join(src)}')


class _SinkList(list):
    """list without duplicates (the fixpoint revisits statements)"""

    def append(self, item):
        key = (item[0], item[1], item[2], id(item[3]), id(item[4]))
        seen = self.__dict__.setdefault('_seen', set())
        if key in seen:
            return
        seen.add(key)
        list.append(self, item)


class Summary(object):
    def __init__(self):
        self.ret = CLEAN            # AV over symbolic + fresh labels
        self.param_sinks = _SinkList()   # (param index, 'ord'|'val'|'kord',
        #                                   sink desc, site, fi)
        self.param_out = dict()     # param index -> AV added to the
        #                             argument by mutation
        self.findings = []


class TaintEngine(object):

    def __init__(self, db, cg, stage_api=(), sink_filter=None):
        self.db = db
        self.cg = cg
        self.summaries = dict()
        self._inprogress = set()
        self.stage_api = set(stage_api)
        self.findings = []
        self.n_functions = 0
        self.source_locs = dict()
        self.sinks_seen = set()

    # ------------------------------------------------------------------
    def summary(self, fi):
        key = id(fi)
        if key in self.summaries:
            return self.summaries[key]
        if key in self._inprogress:
            # a recursive call: until the summary is known, what comes back
            # carries what went in (a cleaner that walks a nested
            # structure hands back its argument, cleaned, in its order)
            s = Summary()
            n_ = len(fi.params)
            s.ret = AV('unk',
                       {('P', i, 'ord') for i in range(n_)},
                       {('P', i, 'val') for i in range(n_)},
                       {('P', i, 'kord') for i in range(n_)})
            return s
        self._inprogress.add(key)
        s = self._analyse(fi)
        self._inprogress.discard(key)
        self.summaries[key] = s
        self.n_functions += 1
        return s

    def accum_params(self, fi, _depth=0):
        """names of the parameters of fi that it accumulates into
        (`p[...] += x`, directly or through a callee it hands p to)"""
        key = id(fi)
        cache = self.__dict__.setdefault('_accum_cache', dict())
        if key in cache:
            return cache[key]
        cache[key] = set()
        out = set()
        params = set(fi.params)
        stored = {n.id for n in ast.walk(fi.node)
                  if isinstance(n, ast.Name) and isinstance(
                      n.ctx, ast.Store)}
        cand = params - stored
        for n in ast.walk(fi.node):
            if isinstance(n, ast.AugAssign) and isinstance(
                    n.target, ast.Subscript):
                b = n.target
                while isinstance(b, (ast.Subscript, ast.Attribute)):
                    b = b.value
                if isinstance(b, ast.Name) and b.id in cand:
                    out.add(b.id)
            elif isinstance(n, ast.Call) and _depth < 4:
                t = resolve_callee(self.db, fi, n)
                if isinstance(t, FunctionInfo) and t is not fi:
                    sub = self.accum_params(t, _depth + 1)
                    if sub:
                        mapping, _ = bind_args(t, n)
                        for pn in sub:
                            a = mapping.get(pn)
                            if isinstance(a, ast.Name) and a.id in cand:
                                out.add(a.id)
        cache[key] = out
        return out

    def analyse_all(self, in_scope=None):
        for fi in self.db.iter_functions(in_scope):
            s = self.summary(fi)
        out = []
        seen = set()
        for s in self.summaries.values():
            for f in s.findings:
                k = f.key()
                if k not in seen:
                    seen.add(k)
                    out.append(f)
        return out

    # ------------------------------------------------------------------
    def _analyse(self, fi):
        cfg = cfg_of(fi)
        summ = Summary()
        env0 = dict()
        params = list(fi.params)
        for i, p in enumerate(params):
            env0[p] = AV('unk', {('P', i, 'ord')}, {('P', i, 'val')},
                         {('P', i, 'kord')})
        if fi.cls is not None and params and params[0] in ('self', 'cls'):
            env0[params[0]] = CLEAN
        state = _FnState(self, fi, cfg, summ, params)
        IN = {cfg.entry: env0}
        work = [cfg.entry]
        guard = 0
        while work and guard < 20000:
            guard += 1
            n = work.pop()
            env = IN[n]
            node = cfg.nodes[n]
            out = state.transfer(node, env)
            for (t, lab) in cfg.succ[n]:
                carry = env if lab == 'exc' else out
                if lab in ('iter',):
                    carry = state.enter_loop(node, out)
                if node.kind == 'if' and lab in ('true', 'false'):
                    carry = state.refine_branch(node, out, lab)
                if t not in IN:
                    IN[t] = dict(carry)
                    work.append(t)
                else:
                    j, changed = _join_env(IN[t], carry)
                    if changed:
                        IN[t] = j
                        work.append(t)
        summ.ret = state.ret if state.ret is not None else CLEAN
        # second pass for reporting with the fixpoint environments
        state.reporting = True
        for n in sorted(IN):
            state.transfer(cfg.nodes[n], IN[n])
        return summ


def _join_env(a, b):
    out = dict(a)
    changed = False
    for k, v in b.items():
        if k in out:
            j = out[k].join(v)
            if j != out[k]:
                out[k] = j
                changed = True
        else:
            out[k] = v
            changed = True
    return out, changed


class _FnState(object):

    def __init__(self, eng, fi, cfg, summ, params):
        self.eng = eng
        self.db = eng.db
        self.fi = fi
        self.cfg = cfg
        self.summ = summ
        self.params = params
        self.ret = None
        self.reporting = False
        self.loop_labels = self._loop_membership()
        self._reported = set()
        # p = np.argsort(x): name -> order labels of x at that point;
        # x[p] (and y[p] for y carrying the same order labels, i.e.
        # filled in lock-step with x) is in sorted order
        self.perm = dict()

    # -- loops ----------------------------------------------------------
    def _loop_membership(self):
        """ast stmt id -> list of enclosing For nodes (innermost last)"""
        out = dict()

        def rec(stmts, stack):
            for s in stmts:
                out[id(s)] = list(stack)
                if isinstance(s, (ast.For, ast.AsyncFor)):
                    rec(s.body, stack + [s])
                    rec(s.orelse, stack)
                elif isinstance(s, ast.While):
                    rec(s.body, stack)
                    rec(s.orelse, stack)
                elif isinstance(s, ast.If):
                    rec(s.body, stack)
                    rec(s.orelse, stack)
                elif isinstance(s, (ast.With, ast.AsyncWith)):
                    rec(s.body, stack)
                elif isinstance(s, ast.Try):
                    rec(s.body, stack)
                    rec(s.orelse, stack)
                    rec(s.finalbody, stack)
                    for h in s.handlers:
                        rec(h.body, stack)
        rec(self.fi.node.body, [])
        return out

    def loop_ord(self, stmt, env, target=None):
        """labels on the order in which the enclosing for loops visit
        their elements.  For a container `target` that is (re)created
        inside some of those loops only the loops nested inside its
        creation count."""
        labs = set()
        loops = self.loop_labels.get(id(stmt), [])
        skip = set()
        if target is not None:
            skip = self._loops_enclosing_creation(target, stmt, loops)
        for lp in loops:
            if id(lp) in skip:
                continue
            labs |= self.ev(lp.iter, env).iter_ord
        return frozenset(l for l in labs if l[0] != 'FROZEN')

    def _loops_enclosing_creation(self, name, stmt, loops):
        """ids of the loops (among `loops`) that also enclose every
        reaching fresh creation of container `name`"""
        from ..core.defuse import rd_of
        rd = rd_of(self.fi)
        nodes = [n for n in self.cfg.nodes_of(stmt) if n.id in rd.live]
        if not nodes:
            return set()
        defs = rd.reaching(name, nodes[0].id)
        if not defs:
            return set()
        common = None
        for d in defs:
            if d.kind != 'assign' or d.stmt is None or not _is_fresh(
                    d.value):
                return set()
            enc = {id(lp) for lp in self.loop_labels.get(id(d.stmt), [])}
            common = enc if common is None else (common & enc)
        return {id(lp) for lp in loops if id(lp) in (common or set())}

    def enter_loop(self, node, env):
        return env

    def refine_branch(self, node, env, lab):
        """on the edge where len(v) <= 1 the order of v is void"""
        # on the edge where isinstance(v, set) holds, v is a set: whatever
        # walks it walks it in hash order
        t_ = node.ast.test
        if lab == 'true' and isinstance(t_, ast.Call) and isinstance(
                t_.func, ast.Name) and t_.func.id == 'isinstance' \
                and len(t_.args) == 2 and isinstance(t_.args[0], ast.Name):
            kinds = t_.args[1].elts if isinstance(
                t_.args[1], ast.Tuple) else [t_.args[1]]
            if kinds and all(isinstance(k, ast.Name) and k.id in (
                    'set', 'frozenset') for k in kinds):
                nm_ = t_.args[0].id
                a = env.get(nm_, CLEAN)
                env = dict(env)
                env[nm_] = AV('set', a.ord | {('HASH', self._src_key(t_))},
                              a.val, a.kord)
        small = _small_on_edge(node.ast.test)
        if not small:
            return env
        out = None
        for (name, edge) in small:
            if edge == lab and name in env and (env[name].ord
                                                or env[name].kord):
                if out is None:
                    out = dict(env)
                a = env[name]
                out[name] = AV(a.kind, EMPTY, a.val, EMPTY, a.fields)
                # lists filled in lock-step with it (one append each per
                # iteration of the same loops) are just as short
                for other in self._lockstep(name):
                    b = env.get(other)
                    if b is not None and b.ord == a.ord:
                        out[other] = AV(b.kind, EMPTY, b.val, b.kord,
                                        b.fields)
        return out if out is not None else env

    def _lockstep(self, name):
        if not hasattr(self, '_append_loops'):
            m = dict()
            for n in ast.walk(self.fi.node):
                if isinstance(n, ast.Expr) and isinstance(
                        n.value, ast.Call) and isinstance(
                            n.value.func, ast.Attribute) \
                        and n.value.func.attr == 'append' and isinstance(
                            n.value.func.value, ast.Name):
                    loops = tuple(id(lp) for lp in
                                  self.loop_labels.get(id(n), []))
                    m.setdefault(n.value.func.value.id, []).append(loops)
            self._append_loops = m
        mine = self._append_loops.get(name)
        if not mine or len(mine) != 1:
            return []
        return [k for k, v in self._append_loops.items()
                if k != name and v == mine]

    # -- expression evaluation ----------------------------------------------
    def ev(self, e, env):
        if e is None:
            return CLEAN
        if isinstance(e, ast.Constant):
            return AV('scalar')
        if isinstance(e, ast.Name):
            return env.get(e.id, CLEAN)
        if isinstance(e, (ast.Set, ast.SetComp)):
            inner = self._elems(e, env)
            return AV('set', {('HASH', self._src_key(e))}, inner.val)
        if isinstance(e, (ast.List, ast.Tuple)):
            # nesting is not tracked: a literal of containers carries the
            # inner order labels as order labels (never as value labels)
            a = self._elems(e, env)
            fields = None
            if isinstance(e, ast.Tuple) and e.elts and not any(
                    isinstance(x, ast.Starred) for x in e.elts):
                # positional field sensitivity for tuples (multiple
                # return values)
                fields = tuple((f'#{i}', self._nofields(self.ev(x, env)))
                               for i, x in enumerate(e.elts))
            return AV('seq', a.ord, a.val, a.kord, fields)
        if isinstance(e, ast.Dict):
            v = CLEAN
            for x in list(e.keys) + list(e.values):
                if x is not None:
                    v = v.join(self.ev(x, env))
            fields = None
            if e.keys and all(isinstance(k, ast.Constant) and isinstance(
                    k.value, str) for k in e.keys):
                fields = tuple(sorted(
                    [(k.value, self._nofields(self.ev(x, env)))
                     for k, x in zip(e.keys, e.values)]
                    + [(AV.REST, CLEAN)],
                    key=lambda kv: kv[0]))
            return AV('dict', v.ord, v.val, v.kord, fields)
        if isinstance(e, (ast.ListComp, ast.GeneratorExp)):
            return self._comp(e, env, 'seq')
        if isinstance(e, ast.DictComp):
            return self._comp(e, env, 'dict')
        if isinstance(e, ast.Subscript):
            return self._subscript(e, env)
        if isinstance(e, ast.Attribute):
            if e.attr == 'args' and isinstance(e.value, ast.Name) \
                    and e.value.id == 'self' and self.fi.cls is not None:
                # the configuration of an argschema runner: a pseudo
                # parameter, bound at `Runner(input_data=cfg).run()`
                return AV('dict', {('P', 'args', 'ord')},
                          {('P', 'args', 'val')}, {('P', 'args', 'kord')})
            b = self.ev(e.value, env)
            if e.attr in ('shape', 'size', 'dtype', 'ndim', 'n_cells',
                          'n_genes'):
                return AV('scalar', EMPTY, EMPTY)
            return AV('unk', b.ord, b.val, b.kord)
        if isinstance(e, ast.BinOp):
            a = self.ev(e.left, env)
            b = self.ev(e.right, env)
            if isinstance(e.op, (ast.BitOr, ast.BitAnd, ast.Sub,
                                 ast.BitXor)) and 'set' in (a.kind,
                                                            b.kind):
                return AV('set', a.ord | b.ord, a.val | b.val)
            # d.keys() & e.keys(), d.items() - ...: set algebra on dict
            # views gives a plain set (no `set(` in sight)
            if isinstance(e.op, (ast.BitOr, ast.BitAnd, ast.Sub,
                                 ast.BitXor)) and any(
                    isinstance(x, ast.Call) and isinstance(
                        x.func, ast.Attribute)
                    and x.func.attr in ('keys', 'items')
                    for x in (e.left, e.right)):
                return AV('set', {('HASH', self._src_key(e))},
                          a.val | b.val)
            k = a.kind if a.kind == b.kind else 'unk'
            return AV(k, a.ord | b.ord, a.val | b.val, a.kord | b.kord)
        if isinstance(e, ast.UnaryOp):
            return self.ev(e.operand, env)
        if isinstance(e, ast.BoolOp):
            v = CLEAN
            for x in e.values:
                v = v.join(self.ev(x, env))
            return v
        if isinstance(e, ast.Compare):
            # membership / equality: order-free
            v = self.ev(e.left, env)
            vals = set(v.val)
            for c in e.comparators:
                vals |= self.ev(c, env).val
            return AV('scalar', EMPTY, vals)
        if isinstance(e, ast.IfExp):
            return self.ev(e.body, env).join(self.ev(e.orelse, env)).join(
                AV('scalar', EMPTY, self.ev(e.test, env).val))
        if isinstance(e, ast.JoinedStr):
            v = CLEAN
            for x in e.values:
                if isinstance(x, ast.FormattedValue):
                    a = self.ev(x.value, env)
                    v = v.join(AV('scalar', EMPTY, a.val | a.ord))
            return AV('scalar', EMPTY, v.val)
        if isinstance(e, ast.Call):
            return self._call(e, env)
        if isinstance(e, ast.Starred):
            return self.ev(e.value, env)
        if isinstance(e, ast.NamedExpr):
            return self.ev(e.value, env)
        if isinstance(e, ast.Lambda):
            return CLEAN
        return CLEAN

    def _src_key(self, node):
        """stable key of a source construct: function and normalised
        text (not a line number); the location is kept aside"""
        ck = (self.fi.qual, id(node))
        hit = _SRC_KEYS.get(ck)
        if hit is not None and hit[0] is node:
            self.eng.source_locs[hit[1]] = (
                f'{self.fi.module.relpath}:{getattr(node, "lineno", 0)}')
            return hit[1]
        txt = _norm_text(self.fi, node)[:60]
        # occurrence index among constructs of this function with the
        # same normalised text (source order)
        same = [n for n in ast.walk(self.fi.node)
                if type(n) is type(node)
                and _norm_text(self.fi, n)[:60] == txt]
        same.sort(key=lambda n: (getattr(n, 'lineno', 0),
                                 getattr(n, 'col_offset', 0)))
        k = next((i for i, n in enumerate(same) if n is node), 0)
        key = f'{self.fi.qual}|{txt}#{k}'
        _SRC_KEYS[ck] = (node, key)
        self.eng.source_locs[key] = (
            f'{self.fi.module.relpath}:{getattr(node, "lineno", 0)}')
        return key

    def _nofields(self, av):
        return AV(av.kind, av.ord, av.val, av.kord)

    def _elems(self, e, env):
        v = CLEAN
        if isinstance(e, (ast.Set, ast.List, ast.Tuple)):
            for x in e.elts:
                v = v.join(self.ev(x, env))
        elif isinstance(e, ast.SetComp):
            v = self._comp(e, env, 'set')
        return v

    def _comp(self, e, env, kind):
        env2 = dict(env)
        ordl = set()
        val = set()
        for g in e.generators:
            it = self.ev(g.iter, env2)
            ordl |= it.iter_ord
            # a selection that depends on timing, mapped: still one
            val |= timing(it.val)
            tv = self._iter_elem(g.iter, it)
            self._bind_target(g.target, tv, env2, g.iter)
            for c in g.ifs:
                val |= self.ev(c, env2).val
        nested = EMPTY
        if isinstance(e, ast.DictComp):
            vav = self.ev(e.value, env2)
            val |= self.ev(e.key, env2).val | vav.val
            # the order inside the values (lists stored per key) is
            # lumped into the table, as for `d[k] = v`
            nested = vav.ord
        else:
            val |= self.ev(e.elt, env2).val
        if kind == 'set':
            return AV('set', EMPTY, val)
        if kind == 'dict':
            return AV('dict', nested, val, ordl)
        return AV(kind, ordl, val)

    def _iter_elem(self, it_expr, it_av):
        """AV of one element of the iterable"""
        return AV('unk', EMPTY, it_av.val)

    def _bind_target(self, target, av, env, it_expr=None):
        # enumerate: the index is positional
        if isinstance(it_expr, ast.Call) and isinstance(
                it_expr.func, ast.Name) and it_expr.func.id == 'enumerate' \
                and isinstance(target, (ast.Tuple, ast.List)) \
                and len(target.elts) == 2:
            src = self.ev(it_expr.args[0], env) if it_expr.args else CLEAN
            self._bind_target(target.elts[0],
                              AV('scalar', EMPTY, src.iter_ord), env)
            self._bind_target(target.elts[1],
                              AV('unk', EMPTY, src.val), env)
            return
        if isinstance(target, ast.Name):
            env[target.id] = av
        elif isinstance(target, (ast.Tuple, ast.List)):
            for t in target.elts:
                self._bind_target(t, av, env)

    def _subscript(self, e, env):
        if isinstance(e.slice, ast.Constant) and isinstance(
                e.slice.value, str) and isinstance(
                    e.value, ast.Attribute) and e.value.attr == 'args' \
                and isinstance(e.value.value, ast.Name) \
                and e.value.value.id == 'self' \
                and self.fi.cls is not None:
            k = f'args:{e.slice.value}'
            return AV('unk', {('P', k, 'ord')}, {('P', k, 'val')},
                      {('P', k, 'kord')})
        b = self.ev(e.value, env)
        if isinstance(e.slice, ast.Slice):
            lo = self.ev(e.slice.lower, env)
            hi = self.ev(e.slice.upper, env)
            return AV(b.kind, b.ord, b.val | lo.val | hi.val)
        i = self.ev(e.slice, env)
        if isinstance(e.slice, ast.Name) and e.slice.id in self.perm:
            cleared = self.perm[e.slice.id]
            return AV(b.kind, b.ord - cleared, b.val | i.val, b.kord)
        if isinstance(e.slice, ast.Constant) and isinstance(
                e.slice.value, str):
            fv = b.field(e.slice.value)
            if fv is not None:
                return fv
        if isinstance(e.slice, ast.Tuple):
            # numpy multi-axis index: gather
            return AV(b.kind, b.ord, b.val | i.val | i.ord)
        if b.kind == 'dict':
            # an element of a dict may itself be a dict whose keys were
            # stored through the outer one (d[k1][k2] = v): its key order
            # was recorded on d
            return AV('unk', b.ord, b.val | i.val, b.kord)
        const_idx = isinstance(e.slice, ast.Constant) or (
            isinstance(e.slice, ast.UnaryOp)
            and isinstance(e.slice.operand, ast.Constant))
        int_idx = const_idx and isinstance(
            e.slice.value if isinstance(e.slice, ast.Constant)
            else e.slice.operand.value, int)
        if b.kind in ('seq', 'set') or int_idx:
            # positional access turns order into value
            return AV('unk', EMPTY, b.val | b.ord | i.val)
        if isinstance(e.slice, ast.Constant) and isinstance(
                e.slice.value, str):
            return AV('unk', b.ord, b.val, b.kord)
        # unknown container, non-constant index: permutation / mask /
        # keyed lookup -- keep order labels on the result as order (and
        # key-order labels as key order: the element may be a nested dict)
        return AV('unk', b.ord | i.ord, b.val | i.val, b.kord)

    # -- calls -----------------------------------------------------------
    def _call(self, c, env):
        db = self.db
        f = c.func
        nm = f.attr if isinstance(f, ast.Attribute) else (
            f.id if isinstance(f, ast.Name) else None)
        args = list(c.args) + [k.value for k in c.keywords]
        avs = [self.ev(a, env) for a in args]
        recv = self.ev(f.value, env) if isinstance(
            f, ast.Attribute) else CLEAN
        allv = CLEAN
        for a in avs:
            allv = allv.join(a)
        t = resolve_callee(db, self.fi, c)
        loc = self._src_key(c)
        # sources
        if nm in SET_MAKERS and not isinstance(t, FunctionInfo):
            src = avs[0] if avs else CLEAN
            return AV('set', {('HASH', loc)}, src.val)
        if nm in SET_METHODS and isinstance(f, ast.Attribute):
            return AV('set', {('HASH', loc)}, recv.val | allv.val)
        if nm in FS_LISTERS and not isinstance(t, FunctionInfo):
            return AV('seq', {('FS', loc)}, recv.val | allv.val)
        if nm in ('list', 'dict') and isinstance(f, ast.Attribute) \
                and self._is_manager(f.value, env):
            if nm == 'list':
                return AV('seq', {('SCHED', loc)}, EMPTY)
            return AV('dict', EMPTY, EMPTY, {('SCHED', loc)})
        if nm == 'winnow_process_dict' and isinstance(t, FunctionInfo):
            # which workers are still alive is a matter of timing: what is
            # selected by membership in the surviving table (and the order
            # in which such selections are collected) varies from run to
            # run
            return AV('dict', EMPTY, {('SCHED', loc)}, EMPTY)
        if nm == 'Manager':
            return AV('unk', EMPTY, {('MGR', loc)})
        # order clearing
        if nm in ORDER_CLEARING and not isinstance(t, FunctionInfo):
            src = avs[0] if avs else recv
            has_key = any(k.arg == 'key' for k in c.keywords)
            if nm == 'argsort':
                return AV('seq', EMPTY, src.val)
            keep = (src.ord | (src.kord if src.kind == 'dict' else EMPTY)
                    ) if has_key else EMPTY
            return AV('seq', keep, src.val | recv.val,
                      EMPTY if src.kind == 'dict' else src.kord)
        if nm in ('searchsorted', 'digitize', 'bisect', 'bisect_left',
                  'bisect_right') and not isinstance(t, FunctionInfo) \
                and avs:
            # positions found by binary search in `a`: the answer assumes
            # `a` is sorted, so the arrangement of `a` decides *which*
            # positions come back
            a0 = avs[0] if not (isinstance(f, ast.Attribute) and not (
                isinstance(f.value, ast.Name)
                and f.value.id in ('np', 'numpy', 'bisect'))) else recv
            return AV('seq', allv.ord - a0.ord,
                      allv.val | recv.val | a0.ord)
        if nm in ORDER_FREE_RESULT and not isinstance(t, FunctionInfo):
            return AV('scalar', EMPTY, allv.val | recv.val)
        if nm in ('pop', 'popitem') and isinstance(f, ast.Attribute):
            if c.args and recv.kind == 'dict':
                return AV('unk', EMPTY, recv.val)
            return AV('unk', EMPTY, recv.val | recv.ord)
        if nm == 'next':
            return AV('unk', EMPTY, allv.val | allv.ord)
        if nm == 'join' and isinstance(f, ast.Attribute):
            return AV('scalar', EMPTY, allv.val | allv.ord)
        if nm in ('get', 'setdefault') and isinstance(f, ast.Attribute):
            return AV('unk', EMPTY, recv.val | allv.val)
        if nm == 'dict' and not isinstance(t, FunctionInfo):
            src = avs[0] if avs else CLEAN
            return AV('dict', src.ord, allv.val, src.kord)
        if nm in ('dumps',):
            src = avs[0] if avs else CLEAN
            o = src.ord if src.kind != 'dict' else EMPTY
            return AV('scalar', EMPTY, src.val | o)
        if nm in ('zeros', 'ones', 'empty', 'full', 'arange', 'range',
                  'zeros_like', 'ones_like'):
            return AV('seq', EMPTY, allv.val)
        if nm in SEQ_PRESERVING and not isinstance(t, FunctionInfo):
            k = 'seq'
            if nm in ('keys', 'values', 'items'):
                return AV('seq', recv.ord | recv.kord, recv.val)
            if nm == 'deepcopy' or nm == 'copy':
                src = avs[0] if avs else recv
                return AV(src.kind, src.ord, src.val, src.kord, src.fields)
            if nm in ('list', 'tuple', 'array', 'asarray', 'iter',
                      'enumerate', 'reversed'):
                src = avs[0] if avs else recv
                fz = frozen(src.ord | src.kord) if nm in (
                    'list', 'tuple', 'array', 'asarray') else EMPTY
                if src.kind == 'dict':
                    return AV('seq', src.ord | src.kord | fz, src.val)
                return AV('seq', src.ord | fz, src.val, src.kord)
            return AV(k, allv.ord | recv.ord, allv.val | recv.val,
                      allv.kord | recv.kord)
        # package functions
        callee = None
        if isinstance(t, FunctionInfo):
            callee = t
        elif isinstance(t, ClassInfo):
            callee = db.find_method(t, '__init__')
            if callee is None:
                return AV('unk', allv.ord, allv.val)
        if callee is not None:
            return self._apply_summary(c, callee, env,
                                       is_ctor=isinstance(t, ClassInfo),
                                       recv=recv)
        pt = process_target(db, self.fi, c)
        if pt is not None and pt[0] is not None and isinstance(pt[1], dict):
            self._apply_worker(c, pt[0], pt[1], env)
            return CLEAN
        # unknown external: conservative
        return AV('unk', allv.ord | recv.ord, allv.val | recv.val,
                  allv.kord | recv.kord)

    def _is_manager(self, e, env):
        av = self.ev(e, env)
        return any(lab[0] == 'MGR' for lab in av.val)

    def _subst(self, labels, binding):
        out = set()
        for lab in labels:
            if lab[0] == 'P':
                av = binding.get(lab[1])
                if av is None and isinstance(lab[1], str) \
                        and lab[1].startswith('args:'):
                    cfg = binding.get('args')
                    if cfg is not None:
                        av = cfg.field(lab[1][5:])
                        if av is None:
                            av = cfg
                if av is None:
                    continue
                out |= {'ord': av.ord, 'val': av.val,
                        'kord': av.kord}[lab[2]]
            else:
                out.add(lab)
        return frozenset(out)

    def _runner_config(self, call, env):
        """X.run() where X = Runner(args=[], input_data=cfg): AV of cfg"""
        recv = call.func.value
        if not isinstance(recv, ast.Name):
            return None
        from ..core.defuse import rd_of
        rd = rd_of(self.fi)
        out = None
        for d in rd.reaching_at_expr(recv):
            if d.kind == 'assign' and isinstance(d.value, ast.Call):
                for kw in d.value.keywords:
                    if kw.arg == 'input_data':
                        av = self.ev(kw.value, env)
                        out = av if out is None else out.join(av)
        return out

    def _subst_av(self, av, binding):
        f = None
        if av.fields is not None:
            f = tuple((k, self._subst_av(v, binding))
                      for (k, v) in av.fields)
        return AV(av.kind, self._subst(av.ord, binding),
                  self._subst(av.val, binding),
                  self._subst(av.kord, binding), f)

    def _binding(self, callee, call, env, skip_self):
        mapping, _ = bind_args(callee, call)
        params = list(callee.params)
        binding = dict()
        for i, p in enumerate(params):
            a = mapping.get(p)
            if a is not None:
                binding[i] = self.ev(a, env)
        return binding

    def _apply_summary(self, call, callee, env, is_ctor=False, recv=CLEAN):
        s = self.eng.summary(callee)
        binding = self._binding(callee, call, env, None)
        # receiver binds to self
        params = list(callee.params)
        if params and params[0] == 'self' and isinstance(
                call.func, ast.Attribute) and not is_ctor:
            binding[0] = recv
            cfg_av = self._runner_config(call, env)
            if cfg_av is not None:
                binding['args'] = cfg_av
        ret = self._subst_av(s.ret, binding)
        if is_ctor:
            # the object carries what it was built from
            allv = CLEAN
            for av in binding.values():
                allv = allv.join(av)
            ret = AV('unk', allv.ord, allv.val, allv.kord)
            # a taxonomy is serialised into every stage's output; sets in
            # it are sorted by the serialiser, lists are written as they
            # are: a tree must not be built from a list whose order was
            # frozen from a set
            if callee.cls is not None and callee.cls.name == 'TaxonomyTree':
                fz = {('HASH', l[1]) for l in (allv.ord | allv.val
                                                | allv.kord)
                      if l[0] == 'FROZEN'}
                if fz:
                    self._sink(frozenset(fz), call,
                               'taxonomy tree (serialised into the '
                               'outputs)')
                elif not self.reporting:
                    self._sink(allv.ord | allv.val | allv.kord, call,
                               'taxonomy tree (serialised into the '
                               'outputs)')
        # sinks inside the callee reached by our arguments
        if self.reporting:
            for (i, which, desc, site, sfi) in s.param_sinks:
                av = binding.get(i)
                if av is None:
                    continue
                labs = {'ord': av.ord, 'val': av.val,
                        'kord': av.kord}[which]
                self._sink(labs, site, desc, sfi,
                           chain=((self.fi, call),))
        else:
            for (i, which, desc, site, sfi) in s.param_sinks:
                av = binding.get(i)
                if av is None:
                    continue
                labs = {'ord': av.ord, 'val': av.val,
                        'kord': av.kord}[which]
                for lab in symbolic(labs):
                    self.summ.param_sinks.append(
                        (lab[1], lab[2], desc, site, sfi))
        return ret

    def _apply_worker(self, call, target, kwargs, env):
        s = self.eng.summary(target)
        params = list(target.params)
        binding = dict()
        for i, p in enumerate(params):
            if p in kwargs:
                binding[i] = self.ev(kwargs[p], env)
        for (i, which, desc, site, sfi) in s.param_sinks:
            av = binding.get(i)
            if av is None:
                continue
            labs = {'ord': av.ord, 'val': av.val,
                    'kord': av.kord}[which]
            if self.reporting:
                self._sink(labs, site, desc, sfi,
                           chain=((self.fi, call),))
            else:
                for lab in symbolic(labs):
                    self.summ.param_sinks.append(
                        (lab[1], lab[2], desc, site, sfi))

    # -- sinks -----------------------------------------------------------
    def _sink(self, labels, site, desc, fi=None, chain=()):
        fi = fi or self.fi
        self.eng.sinks_seen.add((fi.qual, getattr(site, 'lineno', 0),
                                 desc))
        r = real(labels)
        r = frozenset(x for x in r if x[0] in ('HASH', 'SCHED', 'FS'))
        if r and self.reporting:
            f = Finding(fi, site, desc, r, '', chain)
            k = f.key()
            if k not in self._reported:
                self._reported.add(k)
                self.summ.findings.append(f)
        if not self.reporting:
            for lab in symbolic(labels):
                self.summ.param_sinks.append(
                    (lab[1], lab[2], desc, site, fi))

    def _check_sinks(self, node, env):
        for c in self.cfg.calls_in(node):
            f = c.func
            nm = f.attr if isinstance(f, ast.Attribute) else (
                f.id if isinstance(f, ast.Name) else None)
            if nm in ('create_dataset', 'require_dataset'):
                data = None
                for kw in c.keywords:
                    if kw.arg == 'data':
                        data = kw.value
                if data is None and len(c.args) > 1:
                    data = c.args[1]
                if data is not None:
                    av = self.ev(data, env)
                    self._sink(av.ord | av.val, c,
                               f'HDF5 dataset {unparse(c.args[0])[:30]}'
                               if c.args else 'HDF5 dataset')
            elif nm in ('dump', 'dumps') and c.args:
                t = resolve_callee(self.db, self.fi, c)
                if ext_name(t) in ('json.dump',):
                    av = self.ev(c.args[0], env)
                    o = av.ord if av.kind != 'dict' else EMPTY
                    self._sink(o | av.val, c, 'JSON file')
            elif nm in ('write', 'writelines', 'to_csv', 'write_text') \
                    and isinstance(f, ast.Attribute) and c.args:
                t = resolve_callee(self.db, self.fi, c)
                if isinstance(t, FunctionInfo):
                    continue
                av = self.ev(c.args[0], env) if nm != 'to_csv' \
                    else self.ev(f.value, env)
                self._sink(av.ord | av.val, c, 'file write')
            elif nm in ('write_elem',) and len(c.args) >= 3:
                av = self.ev(c.args[2], env)
                self._sink(av.ord | av.val, c, 'h5ad element')

    # -- statements ---------------------------------------------------------
    def transfer(self, node, env):
        out = dict(env)
        s = node.ast
        k = node.kind
        if k in ('entry', 'exit', 'exc_exit', 'join', 'try', 'dispatch',
                 'with_exit', 'def', 'handler', 'break', 'continue',
                 'raise', 'assert'):
            return out
        self._check_sinks(node, env)
        if k == 'stmt':
            if isinstance(s, ast.Assign):
                av = self.ev(s.value, env)
                lo = self.loop_ord(s, env)
                if lo and self._draws_from_rng(s.value):
                    # a shared random stream is an order-sensitive
                    # accumulator: what a draw returns depends on how many
                    # draws came before it, i.e. on the order in which the
                    # enclosing loops visit their elements
                    extra = frozenset(
                        (lab[0], f'{lab[1]}=>random-stream') + tuple(lab[2:])
                        for lab in lo)
                    for lab in extra:
                        self.eng.source_locs.setdefault(
                            lab[1], self.eng.source_locs.get(
                                lab[1].split('=>')[0], '?'))
                    fl = av.fields
                    if fl is not None:
                        fl = tuple((k_, AV(f_.kind, f_.ord, f_.val | extra,
                                           f_.kord, f_.fields))
                                   for (k_, f_) in fl)
                    av = AV(av.kind, av.ord, av.val | extra, av.kord, fl)
                for t in s.targets:
                    self._assign(t, av, out, env, s, lo)
                v = s.value
                if isinstance(v, ast.Call) and isinstance(
                        v.func, ast.Attribute) and v.func.attr == 'argsort' \
                        and len(s.targets) == 1 and isinstance(
                            s.targets[0], ast.Name):
                    src = v.args[0] if v.args else v.func.value
                    if not any(k.arg == 'axis' for k in v.keywords):
                        # environments only grow during the fixpoint, so
                        # the latest evaluation is the most complete
                        self.perm[s.targets[0].id] = self.ev(src, env).ord
            elif isinstance(s, ast.AnnAssign) and s.value is not None:
                self._assign(s.target, self.ev(s.value, env), out, env, s,
                             self.loop_ord(s, env))
            elif isinstance(s, ast.AugAssign):
                av = self.ev(s.value, env)
                lo = self.loop_ord(s, env, s.target.id if isinstance(
                    s.target, ast.Name) else None)
                if isinstance(s.target, ast.Name):
                    old = env.get(s.target.id, CLEAN)
                    ordl = old.ord | av.ord
                    val = old.val | av.val
                    if old.kind in ('seq', 'unk') and isinstance(
                            s.op, ast.Add) and av.kind == 'seq':
                        # (the collection as a whole ends up holding
                        # everything: only its order is a matter of timing)
                        ordl |= timing(av.val)
                        val = old.val | (av.val - timing(av.val))
                    if old.kind in ('seq', 'unk') and isinstance(
                            s.op, ast.Add) and self._order_sensitive_add(
                                s, old, av):
                        ordl |= lo
                    elif isinstance(s.op, (ast.Add, ast.Sub, ast.Mult)) \
                            and not self._integer_literal(s.value):
                        # numeric accumulation in labelled order (see
                        # _store_into); counters `n += 1` are exact
                        val |= lo
                    out[s.target.id] = AV(old.kind, ordl, val,
                                          old.kord | av.kord)
                else:
                    self._store_into(s.target, av, out, env, s, lo,
                                     aug=True)
            elif isinstance(s, ast.Expr):
                self._expr_stmt(s.value, out, env, s)
            if isinstance(s, (ast.Expr, ast.Assign)):
                self._accumulate_through_calls(s, out, env)
            elif isinstance(s, ast.Delete):
                pass
        elif k == 'for':
            it = self.ev(s.iter, env)
            # an element that is itself a sequence (a list of lists) has
            # its order lumped into the outer one
            tv = AV('unk', it.ord if it.kind == 'seq' and self._nested_seq(
                s.iter) else EMPTY, it.val)
            self._bind_target(s.target, tv, out, s.iter)
            # `for k in T[..]: T[..][k].sort()` puts every element list of
            # the table in order; with no element there is nothing whose
            # order could be frozen either
            if len(s.body) == 1 and isinstance(s.body[0], ast.Expr) \
                    and isinstance(s.body[0].value, ast.Call) \
                    and isinstance(s.body[0].value.func, ast.Attribute) \
                    and s.body[0].value.func.attr == 'sort' \
                    and not s.body[0].value.keywords:
                b = s.body[0].value.func.value
                while isinstance(b, ast.Subscript):
                    b = b.value
                if isinstance(b, ast.Name) and b.id in out and any(
                        isinstance(x, ast.Name) and x.id == b.id
                        for x in ast.walk(s.iter)):
                    old_ = out[b.id]

                    def _drop(ls):
                        return frozenset(l for l in ls
                                         if l[0] != 'FROZEN')
                    out[b.id] = AV(old_.kind, _drop(old_.ord),
                                   _drop(old_.val), _drop(old_.kord),
                                   old_.fields)
            # a loop that can stop early (break / return) makes everything
            # it defines depend on the visiting order
            if it.ord and _has_early_exit(s):
                for sub in ast.walk(s):
                    if isinstance(sub, ast.Name) and isinstance(
                            sub.ctx, ast.Store) and sub.id in out:
                        pass
        elif k == 'with':
            for item in s.items:
                if item.optional_vars is not None:
                    self._bind_target(item.optional_vars,
                                      self.ev(item.context_expr, env), out)
        elif k == 'return':
            if s.value is not None:
                av = self.ev(s.value, env)
                self.ret = av if self.ret is None else self.ret.join(av)
                if self.fi.qual in self.eng.stage_api:
                    self._sink(av.ord | av.val, s,
                               f'return value of {self.fi.name}')
        return out

    def _rng_names(self):
        if not hasattr(self, '_rng_cache'):
            names = {p for p in self.fi.params if 'rng' in p.lower()}
            for n in ast.walk(self.fi.node):
                if isinstance(n, ast.Assign) and isinstance(
                        n.value, ast.Call) and isinstance(
                            n.value.func, ast.Attribute) \
                        and n.value.func.attr in ('default_rng',
                                                  'RandomState'):
                    for t in n.targets:
                        if isinstance(t, ast.Name):
                            names.add(t.id)
            self._rng_cache = names
        return self._rng_cache

    def _draws_from_rng(self, expr):
        names = self._rng_names()
        if not names:
            return False
        for c in ast.walk(expr):
            if not isinstance(c, ast.Call):
                continue
            f = c.func
            if isinstance(f, ast.Attribute) and isinstance(
                    f.value, ast.Name) and f.value.id in names:
                return True
            for a in list(c.args) + [k.value for k in c.keywords]:
                if isinstance(a, ast.Name) and a.id in names:
                    return True
        return False

    def _accumulate_through_calls(self, s, out, env):
        """a callee that accumulates into a container it was handed
        (`buf[k] += x`) does so in the order of the loops around the call"""
        lo = self.loop_ord(s, env)
        if not lo:
            return
        for c in ast.walk(s.value):
            if not isinstance(c, ast.Call):
                continue
            t = resolve_callee(self.db, self.fi, c)
            if not isinstance(t, FunctionInfo):
                continue
            acc = self.eng.accum_params(t)
            if not acc:
                continue
            mapping, _ = bind_args(t, c)
            for pn in acc:
                a = mapping.get(pn)
                if isinstance(a, ast.Name) and a.id in out:
                    o = out[a.id]
                    out[a.id] = AV(o.kind, o.ord, o.val | lo, o.kord,
                                   o.fields)

    def _selects_loop_element(self, stmt, loop):
        """stmt is `name = <loop variable>` (or an expression of it that is
        not a measure being compared) under an `if` inside `loop`"""
        if not (isinstance(stmt, ast.Assign) and isinstance(
                stmt.value, ast.Name)):
            return False
        lvars = {x.id for x in ast.walk(loop.target)
                 if isinstance(x, ast.Name)}
        if stmt.value.id not in lvars:
            return False
        p = getattr(stmt, '_parent', None)
        while p is not None and p is not loop:
            if isinstance(p, ast.If):
                return True
            p = getattr(p, '_parent', None)
        return False

    def _nested_seq(self, it_expr):
        """the iterated name has `name[i].append(...)` somewhere in this
        function: its elements are sequences"""
        if not isinstance(it_expr, ast.Name):
            return False
        for n in ast.walk(self.fi.node):
            if isinstance(n, ast.Call) and isinstance(
                    n.func, ast.Attribute) and n.func.attr in (
                        'append', 'extend') and isinstance(
                            n.func.value, ast.Subscript):
                b = n.func.value
                while isinstance(b, ast.Subscript):
                    b = b.value
                if isinstance(b, ast.Name) and b.id == it_expr.id:
                    return True
        return False

    @staticmethod
    def _integer_literal(v):
        """an integer by construction (a literal, an extent, a count, sums
        and differences of these): adding such values up is exact and
        commutative, whatever order they come in"""
        if isinstance(v, ast.Constant):
            return isinstance(v.value, int) and not isinstance(
                v.value, bool)
        if isinstance(v, ast.BinOp) and isinstance(
                v.op, (ast.Add, ast.Sub, ast.Mult)):
            return _FnState._integer_literal(v.left) \
                and _FnState._integer_literal(v.right)
        if isinstance(v, ast.Subscript) and isinstance(
                v.value, ast.Attribute) and v.value.attr == 'shape' \
                and isinstance(v.slice, ast.Constant):
            return True
        if isinstance(v, ast.Call) and isinstance(v.func, ast.Name) \
                and v.func.id == 'len':
            return True
        return False

    def _order_sensitive_add(self, s, old, av):
        # list += list / str += str are order sensitive; numeric sums are
        # not (the property excludes floating point summation order)
        v = s.value
        if isinstance(v, (ast.List, ast.ListComp, ast.JoinedStr)):
            return True
        if isinstance(v, ast.Constant) and isinstance(v.value, str):
            return True
        if isinstance(v, ast.Call) and isinstance(
                v.func, (ast.Name, ast.Attribute)):
            nm = v.func.id if isinstance(v.func, ast.Name) else v.func.attr
            if nm in ('list', 'load', 'loads', 'format', 'str'):
                return True
        if old.kind == 'seq' and av.kind == 'seq':
            return True
        return False

    def _assign(self, target, av, out, env, stmt, loop_ord):
        if isinstance(target, ast.Name):
            # last-write-wins inside an order-tainted loop with early exit
            extra = EMPTY
            for lp in self.loop_labels.get(id(stmt), []):
                lo = self.ev(lp.iter, env).iter_ord
                if lo and _has_early_exit(lp):
                    extra |= lo
                elif lo and self._selects_loop_element(stmt, lp):
                    # `if better(x): best = x` -- which element is kept
                    # among equals depends on the visiting order
                    extra |= lo
            out[target.id] = AV(av.kind, av.ord, av.val | extra, av.kord,
                                av.fields if not extra else None)
        elif isinstance(target, (ast.Tuple, ast.List)):
            for i, t in enumerate(target.elts):
                fv = av.field(f'#{i}', True) if av.fields is not None \
                    else None
                if fv is not None:
                    self._assign(t, fv, out, env, stmt, loop_ord)
                else:
                    self._assign(t, AV('unk', av.ord, av.val, av.kord),
                                 out, env, stmt, loop_ord)
        else:
            self._store_into(target, av, out, env, stmt, loop_ord)

    def _store_into(self, target, av, out, env, stmt, loop_ord, aug=False):
        """d[k] = v ; a[idx] = v ; obj.attr = v"""
        base = target
        while isinstance(base, (ast.Subscript, ast.Attribute)):
            base = base.value
        if not isinstance(base, ast.Name):
            return
        old = env.get(base.id, CLEAN)
        idx_val = EMPTY
        if isinstance(target, ast.Subscript):
            i = self.ev(target.slice, env)
            idx_val = i.val
        if isinstance(target, ast.Subscript) and old.kind in ('dict',):
            # keyed store: insertion order follows the loop order
            lo = self.loop_ord(stmt, env, base.id)
            fields = None
            if isinstance(target.value, ast.Name) and isinstance(
                    target.slice, ast.Constant) and isinstance(
                        target.slice.value, str) and not aug:
                cur = dict(old.fields) if old.fields is not None else (
                    {AV.REST: CLEAN} if self._born_empty(base.id, stmt)
                    else {AV.REST: self._nofields(old)})
                if cur is not None:
                    cur[target.slice.value] = self._nofields(av)
                    fields = tuple(sorted(cur.items(),
                                          key=lambda kv: kv[0]))
            if fields is None and old.fields is not None:
                cur = dict(old.fields)
                r = cur.get(AV.REST, CLEAN)
                cur[AV.REST] = r.join(self._nofields(av))
                fields = tuple(sorted(cur.items(), key=lambda kv: kv[0]))
            # the sequence of keys inserted by a loop is as unordered as
            # the keys themselves: `for i in range(n): d[names[i]] = ...`
            # inserts in the order of `names`
            key_lab = idx_val if self.loop_labels.get(id(stmt)) else EMPTY
            out[base.id] = AV('dict', old.ord | av.ord,
                              old.val | av.val,
                              old.kord | lo | av.kord | key_lab, fields)
        elif isinstance(target, ast.Subscript):
            # array scatter / list item store: position given by the index
            kind = old.kind
            newo = old.ord
            newk = old.kord
            if old.kind == 'unk' and not aug:
                # unknown container filled per key inside an order-tainted
                # loop: treat as dict (insertion order)
                if self._looks_like_dict(base.id):
                    newk = old.kord | self.loop_ord(stmt, env, base.id)
            accum = EMPTY
            if aug:
                # `a[i] += x` in a loop whose visiting order is labelled:
                # floating-point accumulation is not associative, so the
                # sum carries the order labels as value labels (integer
                # counters are exact, but their type is not known here;
                # the property asks for identical results)
                accum = self.loop_ord(stmt, env, base.id)
            # `table[i] = x` in a loop whose visiting order is labelled,
            # into a table that outlives the loop, at a position that is
            # not given by the loop element itself: a later element may
            # overwrite what an earlier one stored (last writer wins, or
            # "replace if larger" with ties), so what is left depends on
            # the visiting order
            over = EMPTY
            if not aug:
                over = self._overwrite_labels(target, stmt, env, base.id)
            out[base.id] = AV(kind, newo | av.ord,
                              old.val | av.val | idx_val | accum | over,
                              newk | av.kord)
            # a dataset handle: persistent write
            if self._is_dataset(base.id, env):
                self._sink(av.ord | av.val | idx_val | over, stmt,
                           'HDF5 dataset')
            elif over and self._is_h5_write_handle(base.id):
                self._sink(av.ord | av.val | idx_val | over, stmt,
                           'HDF5 dataset')
        else:
            out[base.id] = AV(old.kind, old.ord, old.val | av.val)

    def _overwrite_labels(self, target, stmt, env, base_name):
        labs = set()
        loops = self.loop_labels.get(id(stmt), [])
        if not loops:
            return EMPTY
        skip = self._loops_enclosing_creation(base_name, stmt, loops)
        idx_names = set()
        t = target
        while isinstance(t, (ast.Subscript, ast.Attribute)):
            if isinstance(t, ast.Subscript):
                idx_names |= {x.id for x in ast.walk(t.slice)
                              if isinstance(x, ast.Name)}
            t = t.value
        for lp in loops:
            if id(lp) in skip:
                continue
            lo = self.ev(lp.iter, env).iter_ord
            if not lo:
                continue
            lvars = {x.id for x in ast.walk(lp.target)
                     if isinstance(x, ast.Name)}
            if lvars & idx_names:
                continue          # one slot per element: no overwrite
            labs |= lo
        return frozenset(labs)

    def _is_h5_write_handle(self, name):
        for n in ast.walk(self.fi.node):
            call = None
            if isinstance(n, ast.With):
                for it in n.items:
                    if isinstance(it.optional_vars, ast.Name) \
                            and it.optional_vars.id == name:
                        call = it.context_expr
            elif isinstance(n, ast.Assign) and len(n.targets) == 1 \
                    and isinstance(n.targets[0], ast.Name) \
                    and n.targets[0].id == name:
                call = n.value
            if isinstance(call, ast.Call) and isinstance(
                    call.func, ast.Attribute) and call.func.attr == 'File':
                mode = None
                if len(call.args) > 1 and isinstance(
                        call.args[1], ast.Constant):
                    mode = call.args[1].value
                for kw in call.keywords:
                    if kw.arg == 'mode' and isinstance(
                            kw.value, ast.Constant):
                        mode = kw.value.value
                if mode in ('a', 'w', 'r+', 'w-', 'x'):
                    return True
        return False

    def _born_empty(self, name, stmt):
        """every reaching definition of `name` is an empty dict"""
        from ..core.defuse import rd_of
        rd = rd_of(self.fi)
        nodes = [n for n in self.cfg.nodes_of(stmt) if n.id in rd.live]
        if not nodes:
            return False
        defs = rd.reaching(name, nodes[0].id)
        return bool(defs) and all(
            d.kind == 'assign' and d.value is not None and (
                (isinstance(d.value, ast.Dict) and not d.value.keys)
                or (isinstance(d.value, ast.Call) and isinstance(
                    d.value.func, ast.Name) and d.value.func.id == 'dict'
                    and not d.value.args and not d.value.keywords))
            for d in defs)

    def _looks_like_dict(self, name):
        for n in ast.walk(self.fi.node):
            if isinstance(n, ast.Assign) and len(n.targets) == 1 \
                    and isinstance(n.targets[0], ast.Name) \
                    and n.targets[0].id == name:
                v = n.value
                if isinstance(v, ast.Dict) or (
                        isinstance(v, ast.Call) and isinstance(
                            v.func, ast.Name) and v.func.id == 'dict'):
                    return True
        return False

    def _is_dataset(self, name, env):
        for n in ast.walk(self.fi.node):
            if isinstance(n, ast.Assign) and len(n.targets) == 1 \
                    and isinstance(n.targets[0], ast.Name) \
                    and n.targets[0].id == name and isinstance(
                        n.value, ast.Call) and isinstance(
                            n.value.func, ast.Attribute) \
                    and n.value.func.attr in ('create_dataset',
                                              'require_dataset'):
                return True
        return False

    def _expr_stmt(self, v, out, env, stmt):
        if not isinstance(v, ast.Call):
            return
        f = v.func
        if isinstance(f, ast.Attribute) and isinstance(
                f.value, ast.Subscript) and f.attr in ('append', 'extend',
                                                       'insert'):
            # work[i].append(x): nesting is lumped into the outer container
            b = f.value
            while isinstance(b, ast.Subscript):
                b = b.value
            if isinstance(b, ast.Name):
                name = b.id
                old = env.get(name, CLEAN)
                lo = self.loop_ord(stmt, env, name)
                allv = CLEAN
                for a in v.args:
                    allv = allv.join(self.ev(a, env))
                out[name] = AV('seq' if old.kind == 'unk' else old.kind,
                               old.ord | lo | frozen(lo) | allv.ord,
                               old.val | allv.val,
                               old.kord | allv.kord)
                return
        if isinstance(f, ast.Attribute) and f.attr == 'sort' \
                and isinstance(f.value, ast.Subscript) and not any(
                    k.arg == 'key' for k in v.keywords):
            # table[a][b].sort(): the element lists of the table are put
            # in order (the loops that do this visit every element); the
            # frozen-order labels lumped into the table are cleared
            b = f.value
            while isinstance(b, ast.Subscript):
                b = b.value
            if isinstance(b, ast.Name) and b.id in env:
                old = env[b.id]

                def drop(ls):
                    return frozenset(l for l in ls if l[0] != 'FROZEN')
                out[b.id] = AV(old.kind, drop(old.ord), drop(old.val),
                               drop(old.kord), None)
                return
        if isinstance(f, ast.Attribute) and isinstance(f.value, ast.Name):
            name = f.value.id
            old = env.get(name, CLEAN)
            lo = self.loop_ord(stmt, env, name)
            args = [self.ev(a, env) for a in v.args]
            allv = CLEAN
            for a in args:
                allv = allv.join(a)
            if f.attr in ('append', 'insert'):
                out[name] = AV('seq' if old.kind == 'unk' else old.kind,
                               old.ord | lo | frozen(lo) | allv.ord,
                               old.val | allv.val,
                               old.kord | allv.kord)
                return
            if f.attr == 'extend':
                out[name] = AV('seq' if old.kind == 'unk' else old.kind,
                               old.ord | lo | allv.ord | timing(allv.val),
                               old.val | (allv.val - timing(allv.val)),
                               old.kord | allv.kord)
                return
            if f.attr == 'sort':
                has_key = any(k.arg == 'key' for k in v.keywords)
                out[name] = AV('seq', old.ord if has_key else EMPTY,
                               old.val)
                return
            if f.attr in ('add', 'discard', 'remove'):
                out[name] = AV(old.kind, old.ord, old.val | allv.val)
                return
            if f.attr == 'update':
                k = old.kind
                fields = None
                src = args[0] if args else CLEAN
                if src.fields is not None:
                    cur = dict(old.fields) if old.fields is not None \
                        else {AV.REST: self._nofields(old)}
                    for (fk, fv) in src.fields:
                        if fk == AV.REST:
                            cur[AV.REST] = cur.get(AV.REST,
                                                   CLEAN).join(fv)
                        else:
                            cur[fk] = fv
                    fields = tuple(sorted(cur.items(),
                                          key=lambda kv: kv[0]))
                out[name] = AV('dict' if k in ('dict', 'unk') else k,
                               old.ord | allv.ord, old.val | allv.val,
                               old.kord | allv.kord | (
                                   lo if k == 'dict' else EMPTY), fields)
                return
            if f.attr in ('reverse',):
                return
        # a call evaluated for its effects: summaries' sinks
        self.ev(v, env)


def _small_on_edge(test):
    """[(var, edge)] such that on `edge` of the test len(var) <= 1"""
    out = []
    if isinstance(test, ast.Compare) and len(test.ops) == 1:
        l, op, r = test.left, test.ops[0], test.comparators[0]
        if isinstance(l, ast.Call) and isinstance(l.func, ast.Name) \
                and l.func.id == 'len' and l.args and isinstance(
                    l.args[0], ast.Name) and isinstance(r, ast.Constant) \
                and isinstance(r.value, int):
            v, c = l.args[0].id, r.value
            if isinstance(op, ast.Gt) and c in (0, 1):
                out.append((v, 'false'))
            elif isinstance(op, ast.GtE) and c in (1, 2):
                out.append((v, 'false'))
            elif isinstance(op, ast.Eq) and c in (0, 1):
                out.append((v, 'true'))
            elif isinstance(op, ast.NotEq) and c in (0, 1):
                out.append((v, 'false'))
            elif isinstance(op, ast.Lt) and c in (1, 2):
                out.append((v, 'true'))
            elif isinstance(op, ast.LtE) and c in (0, 1):
                out.append((v, 'true'))
    return out


def _is_fresh(v):
    if isinstance(v, (ast.List, ast.Dict, ast.Set, ast.Tuple)):
        return True
    if isinstance(v, ast.Call) and isinstance(v.func, ast.Name) \
            and v.func.id in ('list', 'dict', 'set') and not v.args:
        return True
    return False


def _has_early_exit(loop):
    for sub in ast.walk(loop):
        if isinstance(sub, (ast.Break, ast.Return)):
            return True
    return False
