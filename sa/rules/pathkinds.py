"""
C3 seeds: path kinds of configuration keys, read from the repository's own
argschema declarations (InputFile/InputDir -> Input, OutputFile/OutputDir ->
Output), plus the override table sa/specs/entry_points.json for what the
schemas cannot say.
"""
import ast
import json
import pathlib

from ..core.loader import ClassInfo, AnalysisError
from ..core.resolve import resolve_name_in_module, resolve_attr_chain, \
    dotted_external

_SPEC = pathlib.Path(__file__).resolve().parent.parent / 'specs' / \
    'entry_points.json'

FIELD_KIND = {
    'argschema.fields.InputFile': 'Input',
    'argschema.fields.InputDir': 'Input',
    'argschema.fields.OutputFile': 'Output',
    'argschema.fields.OutputDir': 'Output',
    'argschema.fields.files.InputFile': 'Input',
    'argschema.fields.files.OutputFile': 'Output',
}


def load_spec():
    return json.loads(_SPEC.read_text())


def schema_path_keys(db, ci, prefix=(), seen=None):
    """{key tuple: kind} for an argschema schema class, following mixins
    and Nested schemas; List(InputFile) keys get kind with suffix '[]'"""
    seen = seen or set()
    out = dict()
    if ci.qual in seen:
        return out
    seen = seen | {ci.qual}
    for c in reversed(db.mro(ci)):
        for stmt in c.node.body:
            if not isinstance(stmt, ast.Assign) or len(stmt.targets) != 1:
                continue
            t = stmt.targets[0]
            if not isinstance(t, ast.Name) or not isinstance(
                    stmt.value, ast.Call):
                continue
            name = t.id
            d = dotted_external(db, c.module, stmt.value.func)
            if d in FIELD_KIND:
                out[prefix + (name,)] = FIELD_KIND[d]
            elif d in ('argschema.fields.Nested',):
                if stmt.value.args:
                    a = stmt.value.args[0]
                    sub = None
                    if isinstance(a, ast.Name):
                        sub = resolve_name_in_module(db, c.module, a.id)
                    elif isinstance(a, ast.Attribute):
                        sub = resolve_attr_chain(db, c.module, a)
                    if isinstance(sub, ClassInfo):
                        out.update(schema_path_keys(
                            db, sub, prefix + (name,), seen))
            elif d in ('argschema.fields.List',):
                if stmt.value.args:
                    a = stmt.value.args[0]
                    dd = dotted_external(db, c.module, a if not isinstance(
                        a, ast.Call) else a.func)
                    if dd in FIELD_KIND:
                        out[prefix + (name,)] = FIELD_KIND[dd] + '[]'
            elif out.get(prefix + (name,)) is not None:
                # a later definition of another type overrides the mixin's
                del out[prefix + (name,)]
    return out


def runner_schema(db, runner_ci):
    """the schema class named by `default_schema` of an ArgSchemaParser"""
    for c in db.mro(runner_ci):
        v = c.class_attrs.get('default_schema')
        if v is not None:
            t = None
            if isinstance(v, ast.Name):
                t = resolve_name_in_module(db, c.module, v.id)
            elif isinstance(v, ast.Attribute):
                t = resolve_attr_chain(db, c.module, v)
            if isinstance(t, ClassInfo):
                return t
    return None


def runners(db):
    """all ArgSchemaParser subclasses: [(ClassInfo runner, ClassInfo
    schema)]"""
    out = []
    for ci in db.classes.values():
        if 'argschema.ArgSchemaParser' in db.external_bases(ci):
            sc = runner_schema(db, ci)
            if sc is not None:
                out.append((ci, sc))
    return sorted(out, key=lambda x: x[0].qual)


def key_root(base, keys):
    return base + ''.join(f"['{k}']" for k in keys)


def runner_kinds(db, runner_ci, schema_ci, spec):
    """{root string "self.args['k']...": kind} for one CLI runner"""
    kinds = dict()
    for keys, kind in schema_path_keys(db, schema_ci).items():
        kinds[key_root('self.args', keys)] = kind
    for k, kind in spec.get('config_overrides', {}).items():
        keys = tuple(k.split('.'))
        root = key_root('self.args', keys)
        # only for keys the schema actually has
        kinds[root] = kind
    return kinds
