"""
R-COVER: a loop that must treat every item does so on every path.

For a designated loop (found by what it does, never by variable names) and
a designated action inside it (a call, a store), every path of one
iteration -- from the first statement of the body back to the loop header
-- passes through the action, and no `break` leaves the loop early.

The only bypass accepted is an enumerated idiom that is visibly harmless,
passed in as `allow(test, edge)`:
  * membership guards of an idempotent insertion
      (`if x in s: continue` before `s.add(x)`)
  * emptiness guards (`if not any(...)`, `if len(x) == 0`) before an
      action that would do nothing for an empty item
A bypass under any other condition drops some items: rows of the label
table whose links are never recorded, chunks of the reference whose cells
are never counted, cells that get no CSV row.
"""
import ast

from ..core.cfg import cfg_of
from ..core.defuse import rd_of
from ..core.loader import unparse


def innermost_loop(n):
    p = getattr(n, '_parent', None)
    while p is not None and not isinstance(
            p, (ast.For, ast.While, ast.FunctionDef, ast.AsyncFunctionDef)):
        p = getattr(p, '_parent', None)
    return p if isinstance(p, (ast.For, ast.While)) else None


def contains(outer, inner):
    p = inner
    while p is not None:
        if p is outer:
            return True
        p = getattr(p, '_parent', None)
    return False


def is_emptiness_test(test):
    """`not any(...)`, `len(x) == 0`, `n == 0`, `not x`, `x.size == 0`"""
    t = test
    if isinstance(t, ast.UnaryOp) and isinstance(t.op, ast.Not):
        o = t.operand
        if isinstance(o, ast.Call) and isinstance(o.func, ast.Name) \
                and o.func.id == 'any':
            return True
        if isinstance(o, ast.Name):
            return True
        return False
    if isinstance(t, ast.Compare) and len(t.ops) == 1 and isinstance(
            t.ops[0], ast.Eq) and isinstance(
                t.comparators[0], ast.Constant) \
            and t.comparators[0].value == 0:
        l = t.left
        if isinstance(l, ast.Call) and isinstance(l.func, ast.Name) \
                and l.func.id == 'len':
            return True
        if isinstance(l, ast.Attribute) and l.attr in ('size',):
            return True
        if isinstance(l, ast.Name):
            return True
    return False


def is_membership_test(test):
    return isinstance(test, ast.Compare) and len(test.ops) == 1 \
        and isinstance(test.ops[0], ast.In)


def membership_skip_ok(test, edge, loop, receiver_text):
    """a membership guard may bypass an insertion if the container tested
    is the insertion's own target (`if x in s: continue; s.add(x)` --
    idempotent) or a container the loop does not modify (a fixed filter).
    A guard on a second container that the loop also fills (a "seen" set
    with a coarser key) can hide items that differ in what the key leaves
    out.  Returns True when the bypass edge is acceptable."""
    if not (isinstance(test, ast.Compare) and len(test.ops) == 1
            and isinstance(test.ops[0], (ast.In, ast.NotIn))):
        return False
    cont = test.comparators[0]
    txt = unparse(cont)
    if txt == receiver_text:
        return True
    base = cont
    while isinstance(base, (ast.Subscript, ast.Attribute)):
        base = base.value
    if not isinstance(base, ast.Name):
        return False
    # modified inside the loop?
    for n in ast.walk(loop):
        if isinstance(n, ast.Call) and isinstance(n.func, ast.Attribute) \
                and n.func.attr in ('add', 'append', 'update', 'setdefault',
                                    'extend', 'insert'):
            b = n.func.value
            while isinstance(b, (ast.Subscript, ast.Attribute)):
                b = b.value
            if isinstance(b, ast.Name) and b.id == base.id:
                return False
        if isinstance(n, (ast.Assign, ast.AugAssign)):
            tgs = n.targets if isinstance(n, ast.Assign) else [n.target]
            for tg in tgs:
                b = tg
                sub = False
                while isinstance(b, (ast.Subscript, ast.Attribute)):
                    sub = True
                    b = b.value
                if sub and isinstance(b, ast.Name) and b.id == base.id:
                    return False
    return True


def check_cover(ctx, fi, rule, key, loop, is_action, allow=None,
                what='item', consequence=''):
    """loop: ast.For/While node; is_action(cfg node) -> bool"""
    cfg = cfg_of(fi)
    rd = rd_of(fi)
    hdrs = [n for n in cfg.nodes_of(loop)
            if n.kind in ('for', 'while') and n.ast is loop
            and n.id in rd.live]
    if not hdrs:
        ctx.fail(rule, key, fi.loc(loop), 'loop header not found in the '
                 'control-flow graph')
        return
    hdr = hdrs[0]
    acts = {n.id for n in cfg.nodes if n.id in rd.live and n.ast is not None
            and contains(loop, n.ast) and is_action(n)}
    if not acts:
        ctx.fail(rule, key, fi.loc(loop),
                 f'the loop `{hdr.text()[:60]}` no longer performs the '
                 f'action on its {what}s')
        return
    allowed_edges = set()
    if allow is not None:
        inside0 = {n.id for n in cfg.nodes if n.ast is not None
                   and contains(loop, n.ast) and n.id != hdr.id}
        for n in cfg.nodes:
            if n.kind == 'if' and n.ast is not None and contains(
                    loop, n.ast):
                for (t, lab) in cfg.succ[n.id]:
                    if lab not in ('true', 'false'):
                        continue
                    # only an edge that can reach the next iteration
                    # without the action is a bypass; the other edge of
                    # the test is ordinary flow and is never cut
                    if t in acts:
                        continue
                    if t == hdr.id or t not in inside0:
                        bypass = True
                    else:
                        bypass = cfg.path(
                            t, {hdr.id} | {x.id for x in cfg.nodes
                                           if x.id not in inside0},
                            avoid=lambda x: x.id in acts,
                            edge_ok=lambda a, b, l2: l2 != 'exc') \
                            is not None
                    # ... and the other edge must lead to the action
                    # (otherwise this test is not what decides)
                    # `if not c:` on edge e is `if c:` on the other edge
                    tst, eff = n.ast.test, lab
                    while isinstance(tst, ast.UnaryOp) and isinstance(
                            tst.op, ast.Not):
                        tst = tst.operand
                        eff = 'false' if eff == 'true' else 'true'
                    if bypass and (allow(n.ast.test, lab)
                                   or (tst is not n.ast.test
                                       and allow(tst, eff))):
                        others = [t2 for (t2, l2) in cfg.succ[n.id]
                                  if l2 in ('true', 'false') and l2 != lab]
                        if all(t2 in acts or (t2 != hdr.id and cfg.path(
                                t2, acts,
                                avoid=lambda x: x.id == hdr.id,
                                edge_ok=lambda a, b, l3: l3
                                != 'exc') is not None) for t2 in others):
                            allowed_edges.add((n.id, lab))

    def edge_ok(a, b, lab):
        if lab == 'exc':
            return False
        if (a, lab) in allowed_edges:
            return False
        return True
    body_entries = [t for (t, lab) in cfg.succ[hdr.id] if lab == 'iter']
    # nodes after the loop: reaching one of them from inside the body
    # without the action is a `break`
    ok = True
    wit = None
    why = ''
    inside = {n.id for n in cfg.nodes if n.ast is not None
              and contains(loop, n.ast) and n.id != hdr.id}
    for be in body_entries:
        if be in acts:
            continue
        # targets: back to the header, or anywhere outside the loop
        stops = {hdr.id, cfg.exit}
        outside = {n.id for n in cfg.nodes if n.id not in inside
                   and n.id != hdr.id}
        okp, p = cfg.must_pass(be, stops | outside,
                               lambda x: x.id in acts, edge_ok=edge_ok)
        if not okp:
            ok = False
            wit = cfg.fmt_path(p)
            last = cfg.nodes[p[-1]] if p else None
            why = ('leaves the loop early' if last is not None
                   and last.id != hdr.id and last.id in outside
                   else 'goes on to the next one')
    # breaks after the action also cut the remaining items short
    brk = [n for n in cfg.nodes if n.kind == 'break' and n.id in rd.live
           and n.ast is not None and innermost_loop(n.ast) is loop]
    if ok and brk:
        ok = False
        why = 'leaves the loop early (`break`)'
        wit = [f'L{brk[0].lineno}: break']
    ctx.touch(fi)
    ctx.ob(rule, key, fi.loc(loop), ok,
           f'every iteration of `{hdr.text()[:50]}` performs the action '
           f'on its {what}' if ok else
           f'an iteration of `{hdr.text()[:50]}` can skip its {what} '
           f'({why}): {consequence}', witness=wit)
