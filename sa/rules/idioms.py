"""
R-IDIOM/shared-mutable: one object where one per key / slot was meant.

`dict.fromkeys(keys, {})`, `dict.fromkeys(keys, [])`, `[[]] * n`,
`[dict()] * n` create a single mutable object that every key / slot
refers to: what is stored for one key appears under all of them.  Used for
per-level tables (node -> code per taxonomy level) this merges the levels.
The rule is a plain syntactic one and expects zero instances.
"""
import ast

from ..core.loader import unparse


def _mutable_literal(e):
    if isinstance(e, (ast.Dict, ast.List, ast.Set)):
        return True
    if isinstance(e, ast.Call) and isinstance(e.func, ast.Name) \
            and e.func.id in ('dict', 'list', 'set') and not e.args \
            and not e.keywords:
        return True
    return False


def check_shared_mutable(ctx, fi, rule='R-IDIOM/shared-mutable'):
    n = 0
    for e in ast.walk(fi.node):
        bad = None
        if isinstance(e, ast.Call) and isinstance(e.func, ast.Attribute) \
                and e.func.attr == 'fromkeys' and len(e.args) == 2 \
                and _mutable_literal(e.args[1]):
            bad = e
        elif isinstance(e, ast.BinOp) and isinstance(e.op, ast.Mult):
            for side in (e.left, e.right):
                if isinstance(side, ast.List) and len(side.elts) == 1 \
                        and _mutable_literal(side.elts[0]):
                    bad = e
        if bad is not None:
            n += 1
            ctx.touch(fi)
            ctx.fail(rule, f'{fi.qual}:shared#{n - 1}', fi.loc(bad),
                     f'`{unparse(bad)[:60]}` makes every key / slot refer '
                     'to one and the same mutable object: what is stored '
                     'for one of them shows up under all')
    return n


# ----------------------------------------------------------------------
# R-DTYPE: results of arithmetic forced back into the element type of the
# input
# ----------------------------------------------------------------------

_ARITH_CALLS = {'sum', 'mean', 'log2', 'log', 'log10', 'sqrt', 'exp',
                'where', 'std', 'var', 'dot', 'cumsum', 'prod', 'average',
                'convert_to_cpm', 'true_divide', 'divide'}


def _is_arithmetic(fi, e, at=None):
    """the value of e is computed (not merely selected) from its inputs"""
    from ..core.slicing import backward_slice
    for sub in ast.walk(e):
        if isinstance(sub, ast.BinOp) and isinstance(
                sub.op, (ast.Div, ast.Mult, ast.Add, ast.Sub, ast.Pow)):
            return True
    sl = backward_slice(fi, e, at)
    if sl.call_names() & _ARITH_CALLS:
        return True
    for c in sl.calls:
        pass
    return False


def _dtype_of_other(e):
    """e is `<expr>.dtype` (or `.dtype.type`); returns <expr>"""
    if isinstance(e, ast.Attribute) and e.attr == 'type':
        e = e.value
    if isinstance(e, ast.Attribute) and e.attr == 'dtype':
        return e.value
    return None


def check_narrowing_cast(ctx, fi, rule='R-DTYPE/narrowing-cast'):
    """`computed.astype(raw.dtype)`: a sum, a quotient or a logarithm cast
    to the element type of the data it was computed from.  For data
    stored as small integers the value wraps around or is truncated; for
    float data nothing is gained.  (Allocating with `dtype=raw.dtype` and
    casting a *selection* of raw are fine and not matched.)"""
    from ..core.cfg import cfg_of
    from ..core.defuse import rd_of
    cfg = cfg_of(fi)
    rd = rd_of(fi)
    n = 0
    for c in ast.walk(fi.node):
        if not isinstance(c, ast.Call):
            continue
        recv = tgt = None
        f = c.func
        if isinstance(f, ast.Attribute) and f.attr == 'astype' and c.args:
            recv, tgt = f.value, _dtype_of_other(c.args[0])
        elif isinstance(f, ast.Attribute) and f.attr in (
                'array', 'asarray') and c.args:
            for kw in c.keywords:
                if kw.arg == 'dtype':
                    recv, tgt = c.args[0], _dtype_of_other(kw.value)
        if recv is None or tgt is None:
            continue
        ns = [x for x in cfg.node_of_expr(c) if x.id in rd.live]
        if not ns:
            continue
        if not _is_arithmetic(fi, recv, ns[0].id):
            continue
        n += 1
        ctx.touch(fi)
        ctx.fail(rule, f'{fi.qual}:cast#{n - 1}', fi.loc(c),
                 f'`{unparse(c)[:70]}` casts a computed value (a sum, '
                 'quotient, ...) to the element type of '
                 f'`{unparse(tgt)[:30]}`: for data stored as small '
                 'integers the value wraps around or is truncated')
    return n


def check_inplace_float_store(ctx, fi, rule='R-DTYPE/in-place-store'):
    """`buffer[:, :] = computed` where the buffer came from outside (an
    attribute or a parameter): numpy casts the computed values to the
    buffer's element type, so a logarithm stored into integer counts is
    truncated.  Re-binding the name keeps the computed type."""
    from ..core.cfg import cfg_of
    from ..core.defuse import rd_of
    cfg = cfg_of(fi)
    rd = rd_of(fi)
    n = 0
    for st in ast.walk(fi.node):
        if not (isinstance(st, ast.Assign) and len(st.targets) == 1
                and isinstance(st.targets[0], ast.Subscript)):
            continue
        tg = st.targets[0]
        sl = tg.slice
        parts = sl.elts if isinstance(sl, ast.Tuple) else [sl]
        if not all(isinstance(p, ast.Slice) and p.lower is None
                   and p.upper is None for p in parts):
            continue            # only whole-buffer overwrites
        base = tg.value
        outside = False
        if isinstance(base, ast.Attribute) and isinstance(
                base.value, ast.Name) and base.value.id == 'self':
            outside = True
        elif isinstance(base, ast.Name):
            ns = [x for x in cfg.nodes_of(st) if x.id in rd.live]
            if ns:
                ds = rd.reaching(base.id, ns[0].id)
                outside = bool(ds) and all(d.kind == 'param' for d in ds)
        if not outside:
            continue
        ns = [x for x in cfg.nodes_of(st) if x.id in rd.live]
        if not ns or not _is_arithmetic(fi, st.value, ns[0].id):
            continue
        n += 1
        ctx.touch(fi)
        ctx.fail(rule, f'{fi.qual}:store#{n - 1}', fi.loc(st),
                 f'`{unparse(st)[:70]}` writes a computed value into an '
                 'existing buffer: numpy casts it to the buffer\'s element '
                 'type (integer counts truncate a logarithm); re-bind the '
                 'name instead')
    return n


def check_abs_of_extremum(ctx, fi, rule='R-IDIOM/abs-of-extremum'):
    """`abs((a - b).max())`: the largest *signed* difference, made
    positive afterwards.  A tolerance test needs the largest absolute
    difference, `abs(a - b).max()`: with the absolute value outside, all
    deviations of one sign are invisible (a matrix whose entries all lie
    just below an integer has maximum difference 0)."""
    n = 0
    for c in ast.walk(fi.node):
        if not isinstance(c, ast.Call):
            continue
        f = c.func
        nm = f.attr if isinstance(f, ast.Attribute) else (
            f.id if isinstance(f, ast.Name) else None)
        if nm not in ('abs', 'absolute', 'fabs') or not c.args:
            continue
        inner = c.args[0]
        if not isinstance(inner, ast.Call):
            continue
        g = inner.func
        gn = g.attr if isinstance(g, ast.Attribute) else (
            g.id if isinstance(g, ast.Name) else None)
        if gn not in ('max', 'min', 'amax', 'amin', 'nanmax', 'nanmin'):
            continue
        operand = g.value if isinstance(g, ast.Attribute) and not (
            isinstance(g.value, ast.Name) and g.value.id in (
                'np', 'numpy')) else (inner.args[0] if inner.args
                                      else None)
        if operand is None or not any(
                isinstance(x, ast.BinOp) and isinstance(x.op, ast.Sub)
                for x in ast.walk(operand)):
            continue
        n += 1
        ctx.touch(fi)
        ctx.fail(rule, f'{fi.qual}:abs#{n - 1}', fi.loc(c),
                 f'`{unparse(c)[:60]}` takes the absolute value of the '
                 'largest signed difference; deviations of the other sign '
                 'are not seen (the largest absolute difference is '
                 '`abs(a - b).max()`)')
    return n


_POSITION_CALLS = {'index', 'find', 'rfind', 'argmax', 'argmin',
                   'searchsorted', 'bisect_left', 'bisect_right', 'bisect'}


def check_truthy_position(ctx, fi, rule='R-IDIOM/truthy-position'):
    """`if pos:` / `pos and ...` where pos is a position (the result of
    `.index(x)`, `.find(x)`, `argmax`, `searchsorted`, the counter of
    `enumerate`): position 0 is falsy, so the first element is treated as
    "not found".  A position is tested with `is not None`, `>= 0` or
    `!= -1`."""
    from ..core.cfg import cfg_of
    from ..core.defuse import rd_of
    cfg = cfg_of(fi)
    rd = rd_of(fi)

    def holds_positions(table):
        """every keyed store into the table puts a counter of
        `enumerate` (a column / row number) there"""
        stores = [st for st in ast.walk(fi.node)
                  if isinstance(st, ast.Assign) and len(st.targets) == 1
                  and isinstance(st.targets[0], ast.Subscript)
                  and isinstance(st.targets[0].value, ast.Name)
                  and st.targets[0].value.id == table]
        if not stores:
            return False
        for st in stores:
            if not isinstance(st.value, ast.Name):
                return False
            ok = False
            for lp in ast.walk(fi.node):
                if isinstance(lp, ast.For) and isinstance(
                        lp.iter, ast.Call) and isinstance(
                            lp.iter.func, ast.Name) \
                        and lp.iter.func.id == 'enumerate' \
                        and isinstance(lp.target, ast.Tuple) \
                        and isinstance(lp.target.elts[0], ast.Name) \
                        and lp.target.elts[0].id == st.value.id \
                        and any(x is st for x in ast.walk(lp)):
                    ok = True
            if not ok:
                return False
        return True

    def is_position(name_node, nid):
        ds = rd.reaching(name_node.id, nid)
        if not ds:
            return False
        for d in ds:
            v = getattr(d, 'value', None)
            if d.kind != 'assign' or v is None or d.path:
                return False
            if not (isinstance(v, ast.Call) and isinstance(
                    v.func, ast.Attribute)):
                return False
            if v.func.attr in _POSITION_CALLS:
                continue
            # table.get(k) of a table of positions (None when absent)
            if v.func.attr == 'get' and len(v.args) == 1 and isinstance(
                    v.func.value, ast.Name) and holds_positions(
                        v.func.value.id):
                continue
            return False
        return True

    n = 0
    for node in cfg.nodes:
        if node.id not in rd.live or node.kind not in ('if', 'while'):
            continue
        test = node.ast.test
        cands = []
        direct = []

        def collect(t):
            if isinstance(t, ast.Name):
                cands.append(t)
            elif isinstance(t, ast.Call) and isinstance(
                    t.func, ast.Attribute) \
                    and t.func.attr in _POSITION_CALLS:
                direct.append(t)
            elif isinstance(t, ast.Call) and isinstance(
                    t.func, ast.Attribute) and t.func.attr == 'get' \
                    and len(t.args) == 1 and isinstance(
                        t.func.value, ast.Name) and holds_positions(
                            t.func.value.id):
                direct.append(t)
            elif isinstance(t, ast.BoolOp):
                for v in t.values:
                    collect(v)
            elif isinstance(t, ast.UnaryOp) and isinstance(t.op, ast.Not):
                collect(t.operand)
        collect(test)
        for c in direct:
            n += 1
            ctx.touch(fi)
            ctx.fail(rule, f'{fi.qual}:{n - 1}', fi.loc(node.ast),
                     f'`{unparse(test)[:60]}` tests the position returned '
                     f'by `.{c.func.attr}(...)` for truth: position 0 (the '
                     'first element) counts as "not found"')
        for c in cands:
            if is_position(c, node.id):
                n += 1
                ctx.touch(fi)
                ctx.fail(rule, f'{fi.qual}:{n - 1}', fi.loc(node.ast),
                         f'`{unparse(test)[:60]}` tests the position '
                         f'`{c.id}` for truth: position 0 (the first '
                         'element) counts as "not found"')
    return n


def check_jump_in_finally(ctx, fi, rule='R-IDIOM/jump-in-finally'):
    """`return` / `break` / `continue` inside a `finally:` block discards
    an exception that is on its way out of the `try`: whatever the body
    raised -- a failed worker, an unwritable path -- the function returns
    normally."""
    n = 0
    for t in ast.walk(fi.node):
        if not isinstance(t, ast.Try) or not t.finalbody:
            continue
        for st in t.finalbody:
            for x in ast.walk(st):
                if isinstance(x, (ast.FunctionDef, ast.AsyncFunctionDef,
                                  ast.Lambda)):
                    continue
                bad = isinstance(x, ast.Return)
                if isinstance(x, (ast.Break, ast.Continue)):
                    # only if the loop it belongs to is outside the finally
                    p = getattr(x, '_parent', None)
                    inside = False
                    while p is not None and p is not t:
                        if isinstance(p, (ast.For, ast.While)):
                            inside = True
                        p = getattr(p, '_parent', None)
                    bad = not inside
                if bad:
                    n += 1
                    ctx.touch(fi)
                    ctx.fail(rule, f'{fi.qual}:{n - 1}', fi.loc(x),
                             f'`{unparse(x)[:40]}` inside `finally:` '
                             'swallows any exception raised in the `try` '
                             'body: the failure is not reported and the '
                             'function returns normally')
    return n


def check_diff_contiguity(ctx, fi, rule='R-IDIOM/contiguity-of-one'):
    """`delta = np.unique(np.diff(x)); if len(delta) != 1 or delta[0] != 1:
    raise` tests that x is a run of consecutive integers -- and rejects a
    run of length one, whose `diff` is empty.  A chunking that happens to
    end in a single item (n % chunk == 1) then fails although nothing is
    wrong.  The test has to let a single item through (`len(x) > 1 and
    ...`)."""
    from ..core.cfg import cfg_of
    from ..core.defuse import rd_of, Expander
    from ..core import terms as T
    from ..core.guards import facts_at
    cfg = cfg_of(fi)
    rd = rd_of(fi)
    ex = None
    n = 0
    for node in cfg.nodes:
        if node.kind != 'if' or node.id not in rd.live:
            continue
        test = node.ast.test
        hit = None
        for c in ast.walk(test):
            if isinstance(c, ast.Compare) and len(c.ops) == 1 \
                    and isinstance(c.ops[0], (ast.NotEq, ast.Gt, ast.Lt)) \
                    and isinstance(c.left, ast.Call) and isinstance(
                        c.left.func, ast.Name) and c.left.func.id == 'len' \
                    and c.left.args and isinstance(
                        c.comparators[0], ast.Constant) \
                    and c.comparators[0].value == 1 and isinstance(
                        c.ops[0], ast.NotEq):
                if ex is None:
                    ex = Expander(fi)
                t = ex.expand(c.left.args[0], node.id)
                inner = [x for x in T.subterms(t)
                         if x[0] == 'call' and T.call_name(x) == 'diff']
                if inner and any(T.call_name(x) == 'unique'
                                 for x in T.subterms(t) if x[0] == 'call'):
                    hit = (c, inner[0])
        if hit is None:
            continue
        # the taken branch raises?
        raises = any(isinstance(x, ast.Raise) for st in node.ast.body
                     for x in ast.walk(st))
        if not raises:
            continue
        n += 1
        src = hit[1][2][0] if hit[1][2] else None
        # a length test of the sequence itself, in the condition or on the
        # way to it
        guarded = False

        def is_len_gt_one(e):
            lf = None
            if isinstance(e, ast.Compare) and len(e.ops) == 1:
                l, r, op = e.left, e.comparators[0], e.ops[0]
                if isinstance(l, ast.Call) and isinstance(
                        l.func, ast.Name) and l.func.id == 'len' \
                        and isinstance(r, ast.Constant):
                    if (isinstance(op, ast.Gt) and r.value == 1) or (
                            isinstance(op, ast.GtE) and r.value == 2):
                        lf = l.args[0] if l.args else None
            return lf
        for e in ast.walk(test):
            a = is_len_gt_one(e)
            if a is not None and src is not None and ex.expand(
                    a, node.id) == src:
                guarded = True
        for (_g, t_, truth) in facts_at(cfg, rd, node.id):
            a = is_len_gt_one(t_)
            if a is not None and truth and src is not None \
                    and ex.expand(a, _g.id) == src:
                guarded = True
        ctx.touch(fi)
        ctx.ob(rule, f'{fi.qual}:{n - 1}', fi.loc(node.ast), guarded,
               'a run of a single item is let through' if guarded else
               f'`{unparse(test)[:70]}` also rejects a run of one item '
               '(its `diff` is empty, so the number of distinct steps is 0, '
               'not 1): a chunk that happens to hold a single item fails')
    return n


def _empty_display(e):
    if isinstance(e, (ast.List, ast.Tuple, ast.Set)) and not e.elts:
        return True
    if isinstance(e, ast.Dict) and not e.keys:
        return True
    if isinstance(e, ast.Call) and isinstance(e.func, ast.Name) \
            and e.func.id in ('list', 'tuple', 'dict', 'set') \
            and not e.args and not e.keywords:
        return True
    return False


def check_partially_empty_return(ctx, fi,
                                 rule='R-AGREE/partially-empty-return'):
    """A function that returns tuples of parallel sequences (one entry per
    cell, per row, ...) hands them to callers that iterate them together
    (`zip`, a common index).  A return in which one position is an empty
    display (`[]`, `()`, `list()`) while the other positions carry data --
    and in which a sibling return of the same function fills that position
    -- gives the caller sequences of different lengths: `zip` then stops at
    once and the entries are silently dropped.  Returns that are empty in
    every position ("nothing to do") and positions that are empty in every
    return are not judged."""
    from ..core.cfg import cfg_of
    from ..core.defuse import rd_of
    cfg = cfg_of(fi)
    rd = rd_of(fi)
    rets = []
    for node in cfg.nodes:
        if node.kind != 'return' or node.id not in rd.live \
                or node.ast is None or not isinstance(
                    node.ast.value, ast.Tuple):
            continue
        comps = []
        for e in node.ast.value.elts:
            v = e
            if isinstance(e, ast.Name):
                ds = rd.reaching(e.id, node.id)
                vals = [d.value for d in ds if d.kind == 'assign'
                        and not d.path and d.value is not None]
                if len(vals) == 1 and len(ds) == 1:
                    v = vals[0]
            comps.append(v)
        rets.append((node, comps))
    arities = {len(c) for (_n, c) in rets}
    if len(rets) < 2 or len(arities) != 1 or next(iter(arities)) < 2:
        return 0
    k = next(iter(arities))
    n = 0
    for (node, comps) in rets:
        empties = [i for i in range(k) if _empty_display(comps[i])]
        if not empties or len(empties) == k:
            continue
        scalars = [i for i in range(k) if isinstance(
            comps[i], ast.Constant)]
        if len(empties) + len(scalars) == k:
            continue
        for i in empties:
            filled = [n2 for (n2, c2) in rets if n2 is not node
                      and not _empty_display(c2[i])
                      and not (isinstance(c2[i], ast.Constant)
                               and c2[i].value is None)]
            if not filled:
                continue
            n += 1
            ctx.touch(fi)
            ctx.fail(rule, f'{fi.qual}:return@{i}', fi.loc(node.ast),
                     f'`{unparse(node.ast)[:70]}` returns an empty '
                     f'sequence in position {i} next to positions that '
                     f'carry data, while `{unparse(filled[0].ast)[:50]}` '
                     'fills that position: callers that walk the returned '
                     'sequences together stop at once and drop every '
                     'entry')
    return n


def check_sentinel_codes_gather(ctx, fi, rule='R-IDIOM/sentinel-code-gather'):
    """pandas marks a missing value of a categorical column with the code
    -1.  Using the codes as a gather index (`categories[codes]`) reads the
    *last* category for every missing value -- Python's negative index --
    so cells without a label silently get a label, and a tree built from
    those columns acquires parent-child links that occur nowhere in the
    table.  A gather whose index derives from `.codes` is accepted only if
    the same statement's value is masked on the sign of the codes
    (`np.where(codes >= 0, ..., missing)` / `codes != -1`)."""
    from ..core.slicing import backward_slice
    n = 0
    for st in ast.walk(fi.node):
        if not isinstance(st, (ast.Assign, ast.Return, ast.Expr,
                               ast.AugAssign)):
            continue
        v = getattr(st, 'value', None)
        if v is None:
            continue
        for s in ast.walk(v):
            if not (isinstance(s, ast.Subscript) and isinstance(
                    getattr(s, 'ctx', None), ast.Load)):
                continue
            idx = s.slice
            direct = any(isinstance(x, ast.Attribute) and x.attr == 'codes'
                         for x in ast.walk(idx))
            via = False
            if not direct:
                # through a local that was assigned the codes
                for x in ast.walk(idx):
                    if not isinstance(x, ast.Name):
                        continue
                    for d in ast.walk(fi.node):
                        if isinstance(d, ast.Assign) and len(
                                d.targets) == 1 and isinstance(
                                    d.targets[0], ast.Name) \
                                and d.targets[0].id == x.id and any(
                                    isinstance(y, ast.Attribute)
                                    and y.attr == 'codes'
                                    for y in ast.walk(d.value)):
                            via = True
            if not (direct or via):
                continue
            # masked on the sign of the codes in the same statement?
            masked = False
            for c in ast.walk(v):
                if isinstance(c, ast.Compare) and len(c.ops) == 1 \
                        and isinstance(c.ops[0], (ast.GtE, ast.Gt, ast.Lt,
                                                  ast.NotEq, ast.Eq)) \
                        and isinstance(c.comparators[0], (ast.Constant,
                                                          ast.UnaryOp)):
                    names = {x.attr for x in ast.walk(c.left)
                             if isinstance(x, ast.Attribute)}
                    lnames = {x.id for x in ast.walk(c.left)
                              if isinstance(x, ast.Name)}
                    inames = {x.id for x in ast.walk(idx)
                              if isinstance(x, ast.Name)}
                    if 'codes' in names or (lnames & inames):
                        masked = True
            n += 1
            ctx.touch(fi)
            ctx.ob(rule, f'{fi.qual}:gather#{n - 1}', fi.loc(s), masked,
                   'the gather by category codes is masked on their sign'
                   if masked else
                   f'`{unparse(s)[:60]}` gathers by pandas category codes '
                   'without treating the code -1 (missing value): every '
                   'missing label becomes the last category')
    return n


def check_falsy_numeric_default(ctx, fi, rule='R-IDIOM/falsy-numeric-default'):
    """`value or 5` replaces a missing value by a default -- and a value
    of 0 as well.  The run's numeric settings have 0 among their legal
    values (no runners-up, seed 0, no minimum), so a numeric setting is
    defaulted under an `is None` test, never with `or <number>`."""
    n = 0
    for e in ast.walk(fi.node):
        if not (isinstance(e, ast.BoolOp) and isinstance(e.op, ast.Or)
                and len(e.values) >= 2):
            continue
        last = e.values[-1]
        if not (isinstance(last, ast.Constant) and isinstance(
                last.value, (int, float)) and not isinstance(
                    last.value, bool) and last.value != 0):
            continue
        first = e.values[0]
        if isinstance(first, (ast.Compare, ast.BoolOp)) or (
                isinstance(first, ast.UnaryOp)
                and isinstance(first.op, ast.Not)):
            continue
        # used as a value (assigned, passed on), not as a test
        p_ = getattr(e, '_parent', None)
        if isinstance(p_, (ast.If, ast.While, ast.IfExp)) and getattr(
                p_, 'test', None) is e:
            continue
        n += 1
        ctx.touch(fi)
        ctx.fail(rule, f'{fi.qual}:or#{n - 1}', fi.loc(e),
                 f'`{unparse(e)[:60]}` falls back on {last.value} whenever '
                 f'`{unparse(first)[:40]}` is falsy: a requested value of 0 '
                 'is silently replaced as well')
    return n


SELECTORS = ('downsample', 'subset', 'cull', 'thin', 'mask_indptr',
             'select_rows', 'select_columns')


def check_returns_depend_alike(ctx, fi, rule='R-AGREE/returns-depend-alike'):
    """(applied to the functions that carry out a *selection* -- names
    starting with downsample / subset / cull / thin / mask_indptr -- where
    the selection has to shape every output.)  Sibling returns of one
    function answer the same question.  When a
    function returns tuples on several paths, position i is computed from
    the same inputs on each of them; a return in which position i no
    longer depends on a parameter that position i depends on in the main
    return -- a shortcut that copies an input through, say -- is right
    only under an assumption the shortcut does not check (that the
    selection was sorted, complete, contiguous).  Returns that are empty
    displays / constants in that position (nothing to do) and parameters
    the shortcut's own guard tests for None are not judged."""
    from ..core.cfg import cfg_of
    from ..core.defuse import rd_of
    from ..core.slicing import backward_slice
    cfg = cfg_of(fi)
    rd = rd_of(fi)
    if not fi.name.lstrip('_').startswith(SELECTORS):
        return 0
    rets = [n_ for n_ in cfg.nodes if n_.kind == 'return'
            and n_.id in rd.live and n_.ast is not None
            and isinstance(n_.ast.value, ast.Tuple)]
    if len(rets) < 2:
        return 0
    k = {len(r.ast.value.elts) for r in rets}
    if len(k) != 1:
        return 0
    k = k.pop()
    params = set(fi.params) - {'self', 'cls'}
    deps = []
    for r in rets:
        row = []
        for e in r.ast.value.elts:
            if isinstance(e, ast.Constant) or _empty_display(e):
                row.append(None)
                continue
            try:
                sl = backward_slice(fi, e, r.id)
            except Exception:
                row.append(None)
                continue
            row.append(set(sl.params) & params)
        deps.append(row)
    n = 0
    # the main return: the last one in the source
    main = max(range(len(rets)), key=lambda i: getattr(
        rets[i].ast, 'lineno', 0))
    for i, r in enumerate(rets):
        if i == main:
            continue
        for pos in range(k):
            a, b = deps[i][pos], deps[main][pos]
            if a is None or b is None:
                continue
            missing = b - a
            if not missing or not a:
                continue
            n += 1
            ctx.touch(fi)
            ctx.fail(rule, f'{fi.qual}:return@{pos}#{n - 1}',
                     fi.loc(r.ast),
                     f'`{unparse(r.ast)[:60]}`: position {pos} is computed '
                     f'without {sorted(missing)}, which it depends on in '
                     f'`{unparse(rets[main].ast)[:40]}`: the shortcut is '
                     'right only if those inputs make no difference '
                     '(sorted, complete, contiguous), which nothing checks')
    return n


def check_span_contiguity(ctx, fi, rule='R-ARITH/span-contiguity'):
    """"these sorted, distinct indexes form one block" is the test
    last - first == count - 1.  Wherever a comparison relates the span
    `x[-1] - x[0]` of a sequence to its length (in any spelling, through
    locals), the two sides must differ by exactly that one: with
    `== count` a list that skips one index passes for a block, and the
    skipped element is read in its place."""
    from ..core.cfg import cfg_of
    from ..core.defuse import rd_of, Expander
    from ..core import poly as P
    from ..core import terms as T
    cfg = cfg_of(fi)
    rd = rd_of(fi)
    ex = None
    n = 0

    def strip(t):
        while isinstance(t, tuple) and t and t[0] == 'call' and t[2] \
                and T.call_name(t) in ('array', 'asarray', 'unique', 'sort',
                                       'sorted', 'list', 'tuple', 'copy',
                                       'deepcopy'):
            t = t[2][0]
        return t

    raw = {}

    def distinct_sorted(t):
        if not (isinstance(t, tuple) and t and t[0] == 'call' and t[2]):
            return False
        nm = T.call_name(t)
        if nm == 'unique':
            return True
        if nm in ('sorted', 'sort'):
            a0 = t[2][0]
            return isinstance(a0, tuple) and a0 and a0[0] == 'call' \
                and T.call_name(a0) in ('set', 'unique', 'frozenset')
        if nm in ('array', 'asarray', 'list', 'tuple', 'copy'):
            return distinct_sorted(t[2][0])
        return False

    def merely_sorted(t):
        """in order, repeats possible: sort(y), sorted(y), y[argsort(y)]"""
        if not (isinstance(t, tuple) and t):
            return False
        if t[0] == 'call' and t[2]:
            nm = T.call_name(t)
            if nm in ('sorted', 'sort'):
                return True
            if nm in ('array', 'asarray', 'list', 'tuple', 'copy'):
                return merely_sorted(t[2][0])
            return False
        if t[0] == 'sub' and isinstance(t[2], tuple) and t[2] \
                and t[2][0] == 'call' and T.call_name(t[2]) == 'argsort' \
                and t[2][2] and strip(t[2][2][0]) == strip(t[1]):
            return True
        return False

    def atoms(t):
        if not (isinstance(t, tuple) and t):
            return None
        if t[0] == 'sub':
            raw.setdefault(strip(t[1]), []).append(t[1])
        if t[0] == 'sub' and isinstance(t[2], tuple) and t[2]:
            k = t[2]
            if k == ('const', '0'):
                return P.atom(('FIRST', strip(t[1])))
            if k == ('unop', 'USub', ('const', '1')) or k == ('const',
                                                               '-1'):
                return P.atom(('LAST', strip(t[1])))
            # x.shape[0]
            if t[1][0] == 'attr' and t[1][2] == 'shape' \
                    and k == ('const', '0'):
                return P.atom(('LEN', strip(t[1][1])))
        if t[0] == 'call' and T.call_name(t) == 'len' and t[2]:
            return P.atom(('LEN', strip(t[2][0])))
        if t[0] == 'attr' and t[2] == 'size':
            return P.atom(('LEN', strip(t[1])))
        return None

    for node in cfg.nodes:
        if node.id not in rd.live or node.ast is None:
            continue
        roots = [node.ast.test] if node.kind in ('if', 'while') else (
            [node.ast] if node.kind in ('stmt', 'return') else [])
        for root in roots:
            for c in ast.walk(root):
                if not (isinstance(c, ast.Compare) and len(c.ops) == 1
                        and isinstance(c.ops[0], (ast.Eq, ast.NotEq))):
                    continue
                if ex is None:
                    ex = Expander(fi)
                try:
                    a = P.poly(ex.expand(c.left, node.id), atoms)
                    b = P.poly(ex.expand(c.comparators[0], node.id), atoms)
                except Exception:
                    continue
                d = P._add(a, b, -1)
                firsts = {}
                lasts = {}
                lens = {}
                for mono, co in d.items():
                    if len(mono) == 1 and mono[0][1] == 1 and isinstance(
                            mono[0][0], tuple):
                        kind = mono[0][0][0]
                        if kind == 'FIRST':
                            firsts[mono[0][0][1]] = co
                        elif kind == 'LAST':
                            lasts[mono[0][0][1]] = co
                        elif kind == 'LEN':
                            lens[mono[0][0][1]] = co
                for x in set(firsts) & set(lasts) & set(lens):
                    if lasts[x] != -firsts[x] or abs(lasts[x]) != 1:
                        continue
                    n += 1
                    s_ = lasts[x]
                    want = {
                        ((('LAST', x), 1),): s_,
                        ((('FIRST', x), 1),): -s_,
                        ((('LEN', x), 1),): -s_,
                        (): s_,
                    }
                    ok = d == {k_: P.Fraction(v_) for k_, v_ in
                               want.items()}
                    ctx.touch(fi)
                    if ok and not all(distinct_sorted(r)
                                      for r in raw.get(x, [])):
                        # the endpoints and the count say nothing about
                        # what lies between unless the sequence is sorted
                        # and free of repeats -- or its steps are looked at
                        par = c
                        from ..core.loader import parent as _parent
                        while isinstance(_parent(par), ast.BoolOp):
                            par = _parent(par)
                        def _names(fn_names):
                            return any(
                                isinstance(k, ast.Call)
                                and (k.func.attr if isinstance(
                                    k.func, ast.Attribute) else getattr(
                                        k.func, 'id', '')) in fn_names
                                for k in ast.walk(par))
                        steps = _names(('diff', 'ediff1d'))
                        # in order by construction, and the same test
                        # counts its distinct values
                        if not steps and all(
                                merely_sorted(r) or distinct_sorted(r)
                                for r in raw.get(x, [])) \
                                and _names(('unique',)):
                            steps = True
                        if not steps:
                            ctx.ob(rule, f'{fi.qual}:span#{n - 1}',
                                   fi.loc(c), False,
                                   f'`{unparse(c)[:60]}` decides from the '
                                   'first element, the last element and the '
                                   'count that the indexes are one block, '
                                   'but nothing makes them sorted and '
                                   'distinct here: 1,3,2,4 passes, and its '
                                   'rows are then returned in file order, '
                                   'not in the order asked for')
                            continue
                    ctx.ob(rule, f'{fi.qual}:span#{n - 1}', fi.loc(c), ok,
                           'the span is compared with count - 1' if ok else
                           f'`{unparse(c)[:60]}` compares the span of the '
                           'indexes with their count, but not as last - '
                           'first == count - 1: a list with one index '
                           'missing (or one too many) passes for a '
                           'contiguous block')
    return n


def check_alias_edited_in_place(ctx, fi, rule='R-ALIAS/edited-through-alias'):
    """`a = b` binds a second name to the same array.  Storing into `a[...]`
    (or `a[...] op= v`) afterwards changes what `b` denotes as well; if `b`
    is read later for its own sake, it no longer holds what it was computed
    to hold.  (`denom = q1; denom[denom <= 0] = 1.0; return q1, d / denom`
    returns the patched denominator as q1.)  Judged where both names keep
    the bindings of the `a = b` statement up to the store and the later
    read."""
    from ..core.cfg import cfg_of
    from ..core.defuse import rd_of
    cfg = cfg_of(fi)
    rd = rd_of(fi)
    n = 0

    def base(e):
        while isinstance(e, ast.Subscript):
            e = e.value
        return e.id if isinstance(e, ast.Name) else None

    aliases = []
    for d in rd.defs:
        if d.kind == 'assign' and not d.path and isinstance(
                d.value, ast.Name) and d.node in rd.live \
                and d.value.id != d.name:
            src = rd.reaching(d.value.id, d.node)
            # only data: a name bound to an array / list / dict value, not
            # to None / a number / a string constant
            if not src or any(isinstance(getattr(s, 'value', None),
                                         ast.Constant) for s in src):
                continue
            aliases.append((d, {s.id for s in src}))
    for d, src_ids in aliases:
        a, b = d.name, d.value.id
        for node in cfg.nodes:
            if node.id not in rd.live or node.kind != 'stmt' \
                    or node.ast is None:
                continue
            st = node.ast
            tgt = None
            if isinstance(st, ast.Assign) and isinstance(
                    st.targets[0], ast.Subscript):
                tgt = st.targets[0]
            elif isinstance(st, ast.AugAssign) and isinstance(
                    st.target, ast.Subscript):
                tgt = st.target
            if tgt is None:
                continue
            edited = base(tgt)
            if edited not in (a, b):
                continue
            other = b if edited == a else a
            # both names still as bound at the alias statement
            if {x.id for x in rd.reaching(a, node.id)} != {d.id}:
                continue
            if {x.id for x in rd.reaching(b, node.id)} != src_ids:
                continue
            # a store of the other name's own data into itself is no edit
            # `a[i] = b[i]`
            # is the other name read afterwards, still bound as before?
            later = None
            for m in cfg.reachable(node.id):
                mn = cfg.nodes[m] if isinstance(m, int) else m
                if mn.id == node.id or mn.id not in rd.live:
                    continue
                want = src_ids if other == b else {d.id}
                if {x.id for x in rd.reaching(other, mn.id)} != want:
                    continue
                for root in mn.exprs:
                    if root is None:
                        continue
                    for x in ast.walk(root):
                        if isinstance(x, ast.Name) and x.id == other \
                                and isinstance(x.ctx, ast.Load):
                            later = mn
                            break
                    if later:
                        break
                if later:
                    break
            n += 1
            ok = later is None
            ctx.touch(fi)
            ctx.ob(rule, f'{fi.qual}:{a}={b}:{edited}', fi.loc(st), ok,
                   'the other name is not read after the store' if ok else
                   f'`{unparse(st)[:50]}` stores into `{edited}`, which is '
                   f'the same object as `{other}` since `{a} = {b}` '
                   f'(line {d.value.lineno}); `{other}` is read again at '
                   f'line {later.lineno} and no longer holds what it was '
                   'computed to hold')
    return n


def check_merge_default_overwrites(ctx, fi,
                                   rule='R-COVER/merge-keeps-earlier'):
    """a table that is put together over several rounds of an outer loop
    (one round per file, per worker, per chunk) keeps what earlier rounds
    stored: a round stores entries only for the keys *it* has.  `T[k] =
    this.get(k, default)` with k ranging over something wider than `this`
    stores the default for every key this round knows nothing about, and
    thereby wipes what an earlier round found for it."""
    n = 0
    for outer in ast.walk(fi.node):
        if not isinstance(outer, ast.For):
            continue
        for inner in ast.walk(outer):
            if not isinstance(inner, ast.For) or inner is outer:
                continue
            tvars = {x.id for x in ast.walk(inner.target)
                     if isinstance(x, ast.Name)}
            for st in ast.walk(inner):
                if not (isinstance(st, ast.Assign) and len(st.targets) == 1
                        and isinstance(st.targets[0], ast.Subscript)
                        and isinstance(st.targets[0].value, ast.Name)):
                    continue
                table = st.targets[0].value.id
                # the table lives across the rounds of the outer loop
                if any(isinstance(x, ast.Assign) and any(
                        isinstance(t, ast.Name) and t.id == table
                        for t in x.targets) for x in ast.walk(outer)):
                    continue
                v = st.value
                if not (isinstance(v, ast.Call) and isinstance(
                        v.func, ast.Attribute) and v.func.attr == 'get'
                        and len(v.args) == 2 and isinstance(
                            v.func.value, ast.Name)):
                    continue
                src = v.func.value.id
                # src is a product of this round
                if not any(isinstance(x, ast.Assign) and any(
                        isinstance(t, ast.Name) and t.id == src
                        for t in x.targets) for x in ast.walk(outer)):
                    continue
                # the key is computed from the inner loop variable
                knames = {x.id for x in ast.walk(st.targets[0].slice)
                          if isinstance(x, ast.Name)}
                derived = set(tvars)
                for x in ast.walk(inner):
                    if isinstance(x, ast.Assign) and isinstance(
                            x.targets[0], ast.Name) and any(
                                isinstance(y, ast.Name) and y.id in derived
                                for y in ast.walk(x.value)):
                        derived.add(x.targets[0].id)
                if not (knames & derived):
                    continue
                it_names = {x.id for x in ast.walk(inner.iter)
                            if isinstance(x, ast.Name)}
                n += 1
                ok = src in it_names
                ctx.touch(fi)
                ctx.ob(rule, f'{fi.qual}:{table}[{unparse(st.targets[0].slice)[:20]}]',
                       fi.loc(st), ok,
                       'the keys stored are keys of this round' if ok else
                       f'`{unparse(st)[:60]}` runs for every element of '
                       f'`{unparse(inner.iter)[:40]}`, not for the keys of '
                       f'`{src}`: for a key this round does not have it '
                       f'stores the default over what an earlier round of '
                       f'`for {unparse(outer.target)[:20]} in ...` stored '
                       f'in `{table}`')
    return n
