"""
R-IDIOM/shared-mutable: one object where one per key / slot was meant.

`dict.fromkeys(keys, {})`, `dict.fromkeys(keys, [])`, `[[]] * n`,
`[dict()] * n` create a single mutable object that every key / slot
refers to: what is stored for one key appears under all of them.  Used for
per-level tables (node -> code per taxonomy level) this merges the levels.
The rule is a plain syntactic one and expects zero instances.
"""
import ast

from ..core.loader import unparse


def _mutable_literal(e):
    if isinstance(e, (ast.Dict, ast.List, ast.Set)):
        return True
    if isinstance(e, ast.Call) and isinstance(e.func, ast.Name) \
            and e.func.id in ('dict', 'list', 'set') and not e.args \
            and not e.keywords:
        return True
    return False


def check_shared_mutable(ctx, fi, rule='R-IDIOM/shared-mutable'):
    n = 0
    for e in ast.walk(fi.node):
        bad = None
        if isinstance(e, ast.Call) and isinstance(e.func, ast.Attribute) \
                and e.func.attr == 'fromkeys' and len(e.args) == 2 \
                and _mutable_literal(e.args[1]):
            bad = e
        elif isinstance(e, ast.BinOp) and isinstance(e.op, ast.Mult):
            for side in (e.left, e.right):
                if isinstance(side, ast.List) and len(side.elts) == 1 \
                        and _mutable_literal(side.elts[0]):
                    bad = e
        if bad is not None:
            n += 1
            ctx.touch(fi)
            ctx.fail(rule, f'{fi.qual}:shared#{n - 1}', fi.loc(bad),
                     f'`{unparse(bad)[:60]}` makes every key / slot refer '
                     'to one and the same mutable object: what is stored '
                     'for one of them shows up under all')
    return n
