"""
C2 (light): index-space roles for the per-run marker cache.

Datasets of the cache carry a role:
   query_gene_names -> QNames        reference_gene_names -> RNames
   <grp>/query, all_query_markers      -> QIdx (positions in QNames)
   <grp>/reference, all_reference_markers -> RIdx (positions in RNames)
Readers must index QNames with QIdx and RNames with RIdx only; the writer
must fill QIdx datasets from the query name->position map and RIdx
datasets from the reference map, and store each name list under its own
key.  Shared by C02, C07 and C08.
"""
import ast

from ..core.cfg import cfg_of
from ..core.defuse import rd_of
from ..core.slicing import backward_slice
from ..core.loader import unparse

NAME_KEYS = {'query_gene_names': 'Q', 'reference_gene_names': 'R'}
IDX_KEYS = {'query': 'Q', 'all_query_markers': 'Q',
            'reference': 'R', 'all_reference_markers': 'R'}


def _roles_of(fi, expr, nid, table):
    sl = backward_slice(fi, expr, nid)
    return {table[c] for c in sl.consts if c in table}, sl


def check_reader_roles(ctx, fi, rule='R-ROLE/cache-index-space'):
    """every NAMES[i] in fi where NAMES comes from a gene-name dataset of
    the cache and i from an index dataset: roles agree"""
    ctx.touch(fi)
    cfg = cfg_of(fi)
    rd = rd_of(fi)
    n = 0
    for node in ast.walk(fi.node):
        if not isinstance(node, (ast.ListComp, ast.GeneratorExp)):
            continue
        elt = node.elt
        while isinstance(elt, ast.Call) and isinstance(
                elt.func, ast.Name) and elt.func.id in (
                    'str', 'int', 'bytes') and len(elt.args) == 1:
            elt = elt.args[0]
        if not (isinstance(elt, ast.Subscript) and len(
                node.generators) == 1):
            continue
        g = node.generators[0]
        if not (isinstance(elt.slice, ast.Name) and isinstance(
                g.target, ast.Name) and elt.slice.id == g.target.id):
            continue
        ns = [x for x in cfg.node_of_expr(node) if x.id in rd.live]
        nid = ns[0].id if ns else None
        name_roles, _ = _roles_of(fi, elt.value, nid, NAME_KEYS)
        idx_roles, _ = _roles_of(fi, g.iter, nid, IDX_KEYS)
        if not name_roles or not idx_roles:
            continue
        n += 1
        ok = (len(name_roles) == 1 and name_roles == idx_roles)
        key = f'{fi.qual}:{unparse(node)[:50]}'
        side = {'Q': 'query', 'R': 'reference'}
        ctx.ob(rule, key, fi.loc(node), ok,
               f'{side[next(iter(name_roles))]} names are indexed by '
               f'{side[next(iter(idx_roles))]} positions' if ok else
               f'`{unparse(node)[:70]}` indexes the '
               f'{"/".join(side[r] for r in sorted(name_roles))} gene '
               f'names with {"/".join(side[r] for r in sorted(idx_roles))} '
               'positions: the two files never share a column order, so '
               'the wrong genes are selected')
    return n


def check_writer_roles(ctx, fi, rule='R-ROLE/cache-writer'):
    """write_query_markers_to_h5: each dataset is filled from its own
    index space"""
    ctx.touch(fi)
    cfg = cfg_of(fi)
    rd = rd_of(fi)
    want = {
        'query_gene_names': ({'query_gene_names'}, {'reference_gene_names'}),
        'reference_gene_names': ({'reference_gene_names'},
                                 {'query_gene_names'}),
        'query': ({'query_gene_names'}, {'reference_gene_names'}),
        'reference': ({'reference_gene_names'}, {'query_gene_names'}),
        'all_query_markers': ({'query_gene_names'},
                              {'reference_gene_names'}),
        'all_reference_markers': ({'reference_gene_names'},
                                  {'query_gene_names'}),
    }
    n = 0
    for node in cfg.nodes:
        if node.id not in rd.live:
            continue
        for c in cfg.calls_in(node):
            if not (isinstance(c.func, ast.Attribute)
                    and c.func.attr == 'create_dataset' and c.args
                    and isinstance(c.args[0], ast.Constant)):
                continue
            k = c.args[0].value
            if k not in want:
                continue
            data = None
            for kw in c.keywords:
                if kw.arg == 'data':
                    data = kw.value
            if data is None:
                continue
            n += 1
            sl = backward_slice(fi, data, node.id)
            must, must_not = want[k]
            # for index datasets the co-sort legitimately makes the query
            # positions depend on the reference positions (one
            # permutation for both); what must not happen is that a
            # dataset lacks its own space
            ok = must <= sl.params
            if k in ('query_gene_names', 'reference_gene_names',
                     'all_query_markers', 'all_reference_markers'):
                ok = ok and not (must_not & sl.params)
            ctx.ob(rule, f'{fi.qual}:{k}', fi.loc(c), ok,
                   f"'{k}' is derived from {sorted(must)}" if ok else
                   f"dataset '{k}' is filled from {sorted(sl.params)}: it "
                   f'must hold {"positions in" if k not in must else ""} '
                   f'{sorted(must)}')
    return n


def check_cosort(ctx, fi, rule='R-ROLE/co-permutation'):
    """the two index arrays of a cache group are permuted by one and the
    same permutation"""
    ctx.touch(fi)
    perms = dict()
    for n in ast.walk(fi.node):
        if isinstance(n, ast.Assign) and len(n.targets) == 1 \
                and isinstance(n.targets[0], ast.Name) and isinstance(
                    n.value, ast.Subscript) and isinstance(
                        n.value.value, ast.Name) \
                and n.targets[0].id == n.value.value.id \
                and isinstance(n.value.slice, ast.Name):
            perms[n.targets[0].id] = (n.value.slice.id, n)
    ref = [k for k in perms if 'ref' in k]
    qry = [k for k in perms if 'quer' in k]
    if not ref and not qry:
        ctx.ok(rule, f'{fi.qual}', fi.loc(),
               'the index arrays are not re-ordered', nontrivial=False)
        return
    ok = bool(ref) and bool(qry) and perms[ref[0]][0] == perms[qry[0]][0]
    site = perms[(ref or qry)[0]][1]
    ctx.ob(rule, f'{fi.qual}', fi.loc(site), ok,
           'reference and query positions are re-ordered by the same '
           f'permutation `{perms[ref[0]][0]}`' if ok else
           'the reference and query position arrays of a group are not '
           'permuted together ('
           + ', '.join(f'{k}[{v[0]}]' for k, v in sorted(perms.items()))
           + '): column i of the query no longer is the gene of column i '
           'of the reference')
