"""
C2 (light): index-space roles for the per-run marker cache.

Datasets of the cache carry a role:
   query_gene_names -> QNames        reference_gene_names -> RNames
   <grp>/query, all_query_markers      -> QIdx (positions in QNames)
   <grp>/reference, all_reference_markers -> RIdx (positions in RNames)
Readers must index QNames with QIdx and RNames with RIdx only; the writer
must fill QIdx datasets from the query name->position map and RIdx
datasets from the reference map, and store each name list under its own
key.  Shared by C02, C07 and C08.
"""
import ast

from ..core.cfg import cfg_of
from ..core.defuse import rd_of
from ..core.slicing import backward_slice
from ..core.loader import unparse

NAME_KEYS = {'query_gene_names': 'Q', 'reference_gene_names': 'R'}
IDX_KEYS = {'query': 'Q', 'all_query_markers': 'Q',
            'reference': 'R', 'all_reference_markers': 'R'}


def _roles_of(fi, expr, nid, table):
    sl = backward_slice(fi, expr, nid)
    return {table[c] for c in sl.consts if c in table}, sl


def check_reader_roles(ctx, fi, rule='R-ROLE/cache-index-space'):
    """every NAMES[i] in fi where NAMES comes from a gene-name dataset of
    the cache and i from an index dataset: roles agree"""
    ctx.touch(fi)
    cfg = cfg_of(fi)
    rd = rd_of(fi)
    n = 0
    for node in ast.walk(fi.node):
        if not isinstance(node, (ast.ListComp, ast.GeneratorExp)):
            continue
        elt = node.elt
        while isinstance(elt, ast.Call) and isinstance(
                elt.func, ast.Name) and elt.func.id in (
                    'str', 'int', 'bytes') and len(elt.args) == 1:
            elt = elt.args[0]
        if not (isinstance(elt, ast.Subscript) and len(
                node.generators) == 1):
            continue
        g = node.generators[0]
        if not (isinstance(elt.slice, ast.Name) and isinstance(
                g.target, ast.Name) and elt.slice.id == g.target.id):
            continue
        ns = [x for x in cfg.node_of_expr(node) if x.id in rd.live]
        nid = ns[0].id if ns else None
        name_roles, _ = _roles_of(fi, elt.value, nid, NAME_KEYS)
        idx_roles, _ = _roles_of(fi, g.iter, nid, IDX_KEYS)
        if not name_roles or not idx_roles:
            continue
        n += 1
        ok = (len(name_roles) == 1 and name_roles == idx_roles)
        key = f'{fi.qual}:{unparse(node)[:50]}'
        side = {'Q': 'query', 'R': 'reference'}
        ctx.ob(rule, key, fi.loc(node), ok,
               f'{side[next(iter(name_roles))]} names are indexed by '
               f'{side[next(iter(idx_roles))]} positions' if ok else
               f'`{unparse(node)[:70]}` indexes the '
               f'{"/".join(side[r] for r in sorted(name_roles))} gene '
               f'names with {"/".join(side[r] for r in sorted(idx_roles))} '
               'positions: the two files never share a column order, so '
               'the wrong genes are selected')
    return n


def check_writer_roles(ctx, fi, rule='R-ROLE/cache-writer'):
    """write_query_markers_to_h5: each dataset is filled from its own
    index space"""
    ctx.touch(fi)
    cfg = cfg_of(fi)
    rd = rd_of(fi)
    want = {
        'query_gene_names': ({'query_gene_names'}, {'reference_gene_names'}),
        'reference_gene_names': ({'reference_gene_names'},
                                 {'query_gene_names'}),
        'query': ({'query_gene_names'}, {'reference_gene_names'}),
        'reference': ({'reference_gene_names'}, {'query_gene_names'}),
        'all_query_markers': ({'query_gene_names'},
                              {'reference_gene_names'}),
        'all_reference_markers': ({'reference_gene_names'},
                                  {'query_gene_names'}),
    }
    n = 0
    for node in cfg.nodes:
        if node.id not in rd.live:
            continue
        for c in cfg.calls_in(node):
            if not (isinstance(c.func, ast.Attribute)
                    and c.func.attr == 'create_dataset' and c.args
                    and isinstance(c.args[0], ast.Constant)):
                continue
            k = c.args[0].value
            if k not in want:
                continue
            data = None
            for kw in c.keywords:
                if kw.arg == 'data':
                    data = kw.value
            if data is None:
                continue
            n += 1
            sl = backward_slice(fi, data, node.id)
            must, must_not = want[k]
            # for index datasets the co-sort legitimately makes the query
            # positions depend on the reference positions (one
            # permutation for both); what must not happen is that a
            # dataset lacks its own space
            ok = must <= sl.params
            if k in ('query_gene_names', 'reference_gene_names',
                     'all_query_markers', 'all_reference_markers'):
                ok = ok and not (must_not & sl.params)
            ctx.ob(rule, f'{fi.qual}:{k}', fi.loc(c), ok,
                   f"'{k}' is derived from {sorted(must)}" if ok else
                   f"dataset '{k}' is filled from {sorted(sl.params)}: it "
                   f'must hold {"positions in" if k not in must else ""} '
                   f'{sorted(must)}')
    return n


def _dataset_data(fi, name):
    """[(call, data expression)] of create_dataset(<name>, data=...)"""
    out = []
    for c in ast.walk(fi.node):
        if isinstance(c, ast.Call) and isinstance(c.func, ast.Attribute) \
                and c.func.attr == 'create_dataset' and c.args \
                and isinstance(c.args[0], ast.Constant) \
                and c.args[0].value == name:
            for kw in c.keywords:
                if kw.arg == 'data':
                    out.append((c, kw.value))
    return out


def _gather_chain(fi, expr, at):
    """follow a value back through `x = x[perm]`, `x = np.array(x)` to the
    point where it is built; returns (perms, orderings, root defs) where
    perms is the list of (identity of the permutation variable) applied,
    and orderings the expressions that decide an order on the way
    (arguments of argsort / sorted / .sort)"""
    from ..core.cfg import cfg_of
    from ..core.defuse import rd_of
    cfg = cfg_of(fi)
    rd = rd_of(fi)
    perms = set()
    orderings = []
    seen = set()
    work = [(expr, at)]
    while work:
        e, nid = work.pop()
        if e is None or id(e) in seen:
            continue
        seen.add(id(e))
        if isinstance(e, ast.Call):
            nm = e.func.attr if isinstance(e.func, ast.Attribute) else (
                e.func.id if isinstance(e.func, ast.Name) else None)
            if nm in ('array', 'asarray', 'list', 'copy') and e.args:
                work.append((e.args[0], nid))
                continue
            if nm in ('sorted', 'sort', 'argsort') and e.args:
                orderings.append((e, e.args[0], nid))
                work.append((e.args[0], nid))
                continue
            continue
        if isinstance(e, (ast.ListComp, ast.GeneratorExp)):
            for g in e.generators:
                work.append((g.iter, nid))
            continue
        if isinstance(e, ast.Subscript) and isinstance(e.slice, ast.Name):
            ds = frozenset(d.id for d in rd.reaching(e.slice.id, nid))
            perms.add(ds)
            for d in rd.reaching(e.slice.id, nid):
                v = getattr(d, 'value', None)
                if isinstance(v, ast.Call):
                    nm = v.func.attr if isinstance(
                        v.func, ast.Attribute) else (
                        v.func.id if isinstance(v.func, ast.Name) else None)
                    if nm in ('argsort', 'sorted') and v.args:
                        orderings.append((v, v.args[0], d.node))
            work.append((e.value, nid))
            continue
        if isinstance(e, ast.Name):
            for d in rd.reaching(e.id, nid):
                v = getattr(d, 'value', None)
                if v is not None and d.kind == 'assign':
                    work.append((v, d.node))
            # in-place sorts of this name
            for (mn, astn, how) in rd.mutations(e.id):
                if how == 'sort' and isinstance(astn, ast.Call):
                    orderings.append((astn, e, mn))
            continue
    return perms, orderings


def check_cosort(ctx, fi, rule='R-ROLE/co-permutation'):
    """the 'reference' and 'query' index arrays of a cache group are
    permuted by one and the same permutation(s), and whatever decides the
    order of the marker columns does not depend on where the genes sit in
    the query (the mapping must not change when the query's columns are
    permuted together with their names)"""
    from ..core.cfg import cfg_of
    from ..core.defuse import rd_of
    from ..core.slicing import backward_slice
    ctx.touch(fi)
    cfg = cfg_of(fi)
    rd = rd_of(fi)
    ref = _dataset_data(fi, 'reference')
    qry = _dataset_data(fi, 'query')
    if not ref or not qry:
        ctx.fail(rule, f'{fi.qual}', fi.loc(),
                 "the writer of the per-parent 'reference' / 'query' "
                 'datasets was not found')
        return
    chains = {}
    for nm, lst in (('reference', ref), ('query', qry)):
        c, e = lst[0]
        ns = [x for x in cfg.node_of_expr(c) if x.id in rd.live]
        chains[nm] = _gather_chain(fi, e, ns[0].id if ns else None)
    pr, pq = chains['reference'][0], chains['query'][0]
    ok = pr == pq
    ctx.ob(rule, f'{fi.qual}', fi.loc(ref[0][0]), ok,
           'reference and query positions are re-ordered by the same '
           f'permutation ({len(pr)} gather step(s))' if ok else
           'the reference and query position arrays of a group are not '
           'permuted together: column i of the query no longer is the '
           'gene of column i of the reference')
    # what decides the order
    bad = None
    n_ord = 0
    for nm in ('reference', 'query'):
        for (site, keyexpr, nid) in chains[nm][1]:
            n_ord += 1
            sl = backward_slice(fi, keyexpr, nid)
            if 'query_gene_names' in sl.params:
                bad = (site, keyexpr)
    ctx.ob('R-PROV/marker-order-independent-of-query', f'{fi.qual}',
           fi.loc(bad[0] if bad else ref[0][0]), bad is None,
           f'the {n_ord} ordering step(s) on the way to the cache sort by '
           'reference position / name only' if bad is None else
           f'`{unparse(bad[0])[:70]}` orders the marker columns by a key '
           'that depends on the positions of the genes in the query: '
           'permuting the query columns (with their names) changes which '
           'markers a bootstrap draw selects, hence the mapping')


def check_positions_not_fancy_indexed_raw(
        ctx, fi, rule='R-ROLE/positions-as-stored'):
    """the writer stores each group's positions as `np.array(list)`: for a
    parent without markers (every single-child parent, a root with one
    child) that is an *empty float64* array.  Readers may walk such an
    array (`NAMES[i] for i in IDX`), but `NAMES[IDX]` -- a fancy index --
    is refused by numpy for a float array even when it is empty, and the
    run ends with an IndexError for a perfectly valid tree.  A position
    dataset of the cache used as a fancy index must have been given an
    integer type first (`astype(int)`, `np.asarray(.., dtype=int)`)."""
    cfg = cfg_of(fi)
    rd = rd_of(fi)
    n = 0
    for node in cfg.nodes:
        if node.id not in rd.live or node.ast is None or node.kind not in (
                'stmt', 'return'):
            continue
        for s in ast.walk(node.ast):
            if not (isinstance(s, ast.Subscript) and isinstance(
                    getattr(s, 'ctx', None), ast.Load)
                    and isinstance(s.slice, ast.Name)):
                continue
            idx_roles, sl = _roles_of(fi, s.slice, node.id, IDX_KEYS)
            if not idx_roles:
                continue
            # a scalar loop element is not a fancy index
            ds = rd.reaching(s.slice.id, node.id)
            if any(d.kind == 'for' for d in ds):
                continue
            name_roles, sl2 = _roles_of(fi, s.value, node.id, NAME_KEYS)
            if not name_roles:
                continue
            n += 1
            typed = bool({'astype', 'int64', 'intp'} & sl.call_names()) \
                or any(isinstance(c, ast.Call) and any(
                    kw.arg == 'dtype' for kw in c.keywords)
                    for c in sl.calls)
            ctx.touch(fi)
            ctx.ob(rule, f'{fi.qual}:{unparse(s)[:40]}', fi.loc(s), typed,
                   'the positions are given an integer type before they '
                   'index the names' if typed else
                   f'`{unparse(s)[:60]}` indexes the gene names with a '
                   'position dataset as read from the cache: for a parent '
                   'without markers that dataset is an empty float64 '
                   'array, numpy refuses it as an index, and a valid '
                   'taxonomy with a single-child parent cannot be mapped')
    return n


def _selection_atoms(term):
    """what a selection is computed from: the dataset reads (the innermost
    string key of every subscript chain with one), else the parameters"""
    reads = set()
    params = set()

    def walk(t):
        if isinstance(t, frozenset):
            for x in t:
                walk(x)
            return
        if not isinstance(t, tuple) or not t:
            return
        if t[0] == 'sub' and len(t) == 3 and isinstance(t[2], tuple) \
                and t[2] and t[2][0] == 'const' and isinstance(
                    t[2][1], str) and t[2][1][:1] in ('"', "'"):
            reads.add(t[2][1].strip('\'"'))
        if t[0] == 'param' and len(t) == 2 and t[1] not in ('self', 'cls'):
            params.add(t[1])
        for x in (t[1:] if isinstance(t[0], str) else t):
            if isinstance(x, (tuple, frozenset)):
                walk(x)
    walk(term)
    return reads, params


def check_columns_and_names_selected_together(
        ctx, fi, rule='R-ROLE/columns-and-names-together'):
    """a matrix object is built from `data=M[:, I]` and a list of gene
    names N: column k of the data is gene N[k] only if I and N are two
    views of one selection -- they are computed from a common dataset read
    (or, where no file is involved, a common parameter).  Positions looked
    up in one table and names taken through another label the columns with
    the wrong genes, and no name comparison downstream can notice."""
    from ..core.cfg import cfg_of
    from ..core.defuse import rd_of, Expander
    cfg = cfg_of(fi)
    rd = rd_of(fi)
    ex = None
    n = 0
    for node in cfg.nodes:
        if node.id not in rd.live:
            continue
        for c in cfg.calls_in(node):
            nm = getattr(c.func, 'id', getattr(c.func, 'attr', None))
            if nm != 'CellByGeneMatrix':
                continue
            kw = {k.arg: k.value for k in c.keywords if k.arg}
            d, g = kw.get('data'), kw.get('gene_identifiers')
            if d is None or g is None:
                continue
            if ex is None:
                ex = Expander(fi)
            td = ex.expand(d, node.id)
            # data = M[:, I], directly or through a local
            if not (isinstance(td, tuple) and td and td[0] == 'sub'
                    and isinstance(td[2], tuple) and td[2]
                    and td[2][0] == 'tuple' and len(td[2][1]) == 2
                    and td[2][1][0][0] == 'slice'
                    and td[2][1][1][0] != 'slice'):
                continue
            ti = td[2][1][1]
            col = d.slice.elts[1] if isinstance(d, ast.Subscript) \
                and isinstance(d.slice, ast.Tuple) else d
            tn = ex.expand(g, node.id)
            ri, pi_ = _selection_atoms(ti)
            rn, pn = _selection_atoms(tn)
            n += 1
            if ri or rn:
                ok = bool(ri & rn)
                what = (f'positions from {sorted(ri) or "no dataset"}, '
                        f'names from {sorted(rn) or "no dataset"}')
            else:
                ok = bool(pi_ & pn) or not (pi_ and pn)
                what = (f'positions from {sorted(pi_)}, names from '
                        f'{sorted(pn)}')
            ctx.touch(fi)
            ctx.ob(rule, f'{fi.qual}:CellByGeneMatrix#{n - 1}', fi.loc(c),
                   ok, 'columns and names come from one selection' if ok
                   else f'the columns are gathered by `{unparse(col)[:40]}` '
                   f'and labelled with `{unparse(g)[:40]}` ({what}): '
                   'nothing ties position k of the one to element k of the '
                   'other, so a column can carry the name of another gene')
    return n
