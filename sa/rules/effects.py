"""
C3: path origins and file effects, with interprocedural summaries.

For every function we compute which *roots* (a parameter, or a constant-key
subscript chain on a parameter such as config['query_path']) each local
path-valued variable may denote ("same" file, or a path "under" that
directory), and the file-system effects the function (with its callees) has
on those roots:

    read    opened for reading
    write   opened with a writing mode / destination of copy, move, to_csv..
    remove  unlink / rmtree / source of a move
    list    directory listing
    mkd     a fresh directory or file is created under it (mkdtemp/mkstemp)

The analysis is flow-insensitive within a function (may-effects) and
context-insensitive across calls, which is the right polarity for
"no write effect on an input": a reported effect names the call chain.
"""
import ast

from ..core.loader import FunctionInfo, ClassInfo, unparse
from ..core.resolve import (resolve_callee, ext_name, bind_args,
                            local_types, process_target)

IDENTITY_CALLS = {'pathlib.Path', 'str', 'os.path.abspath', 'os.fspath',
                  'os.path.realpath', 'os.path.expanduser',
                  'pathlib.PosixPath', 'os.path.normpath'}
IDENTITY_METHODS = {'resolve', 'absolute', 'expanduser', 'as_posix',
                    '__str__', '__fspath__'}
CHILD_METHODS = {'joinpath', 'with_name', 'with_suffix'}
NON_PATH_ATTRS = {'name', 'suffix', 'stem', 'parts', 'suffixes'}

WRITE_MODES = set('wax+')

# repo functions that hand back (possibly) the very file they were given:
# FileTracker.real_location is the identity when no scratch dir is used
PATH_IDENTITY_FUNCS = {
    'file_tracker.file_tracker:FileTracker.real_location'}


class Effect(object):
    __slots__ = ('kind', 'root', 'rel', 'site', 'fi', 'via')

    def __init__(self, kind, root, rel, site, fi, via=()):
        self.kind = kind
        self.root = root
        self.rel = rel
        self.site = site
        self.fi = fi
        self.via = via

    def key(self):
        return (self.kind, self.root, self.rel)

    def chain(self):
        out = [f'{self.fi.qual} L{getattr(self.site, "lineno", 0)}: '
               f'{_short(self.site)}']
        for (fi, site) in self.via:
            out.append(f'called from {fi.qual} L{site.lineno}: '
                       f'{_short(site)}')
        return out


def _short(n):
    t = unparse(n).replace('\n', ' ')
    return t if len(t) < 90 else t[:87] + '...'


def _const_str(e):
    if isinstance(e, ast.Constant) and isinstance(e.value, str):
        return e.value
    return None


def subscript_chain(e):
    """config['a']['b'] -> ('config', ('a','b')) ; self.args['k'] ->
    ('self.args', ('k',)); else None"""
    keys = []
    n = e
    while isinstance(n, ast.Subscript):
        k = _const_str(n.slice)
        if k is None:
            return None
        keys.append(k)
        n = n.value
    if not keys:
        return None
    keys.reverse()
    if isinstance(n, ast.Name):
        return n.id, tuple(keys)
    if isinstance(n, ast.Attribute) and isinstance(n.value, ast.Name) \
            and n.value.id == 'self':
        return f'self.{n.attr}', tuple(keys)
    return None


def root_str(base, keys=()):
    return base + ''.join(f"['{k}']" for k in keys)


class PathAnalysis(object):

    def __init__(self, db, cg):
        self.db = db
        self.cg = cg
        self._origins = dict()       # id(fi) -> {var: set((root, rel))}
        self._summary = dict()       # id(fi) -> list[Effect]
        self._ret = dict()           # id(fi) -> set((root, rel))
        self._inprogress = set()
        self._defmemo = dict()
        self.mode_notes = []

    # ------------------------------------------------------------------
    def var_origins(self, fi):
        """
        env for the flow-insensitive parts: `self.attr` stores and
        containers filled by append / item stores.  Plain local names are
        resolved flow-sensitively through reaching definitions (see
        _name_origins), so that `tmp_dir = mkdtemp(dir=tmp_dir)` does not
        conflate the parameter with the fresh directory.
        """
        key = id(fi)
        if key in self._origins:
            return self._origins[key]
        env = dict()
        self._origins[key] = env
        changed = True
        guard = 0
        while changed and guard < 6:
            guard += 1
            changed = False
            for node in ast.walk(fi.node):
                if isinstance(node, ast.Assign):
                    for t in node.targets:
                        if isinstance(t, ast.Attribute) and isinstance(
                                t.value, ast.Name) and t.value.id == 'self':
                            o = self.origins(fi, node.value, env)
                            changed |= self._bind(env, t, o)
                        elif isinstance(t, ast.Subscript) and isinstance(
                                t.value, ast.Name):
                            o = set(self.origins(fi, node.value, env))
                            # keys of a dict may be paths as well; they are
                            # kept apart from the values ('key:' relation)
                            o |= {(r, 'key:' + rel) for (r, rel) in
                                  self.origins(fi, t.slice, env)
                                  if not rel.startswith('key:')}
                            if o:
                                nm = '#' + t.value.id
                                before = len(env.get(nm, ()))
                                env.setdefault(nm, set()).update(o)
                                changed |= len(env[nm]) != before
                elif isinstance(node, ast.Call) and isinstance(
                        node.func, ast.Attribute) and node.func.attr in (
                            'append', 'add', 'extend', 'insert') \
                        and isinstance(node.func.value, ast.Name) \
                        and node.args:
                    o = self.origins(fi, node.args[-1], env)
                    if o:
                        nm = '#' + node.func.value.id
                        before = len(env.get(nm, ()))
                        env.setdefault(nm, set()).update(o)
                        changed |= len(env[nm]) != before
        return env

    def _bind(self, env, target, o):
        changed = False
        if isinstance(target, ast.Attribute) and isinstance(
                target.value, ast.Name) and target.value.id == 'self':
            nm = f'self.{target.attr}'
            if o:
                before = len(env.get(nm, ()))
                env.setdefault(nm, set()).update(o)
                changed = len(env[nm]) != before
        return changed

    def _name_origins(self, fi, name_node, env):
        """origins of a local name at this use, through reaching defs"""
        from ..core.defuse import rd_of
        rd = rd_of(fi)
        key = id(fi)
        memo = self._defmemo.setdefault(key, dict())
        defs = rd.reaching_at_expr(name_node)
        out = set()
        if not defs:
            # comprehension variable or global
            comp = self._comp_binding(name_node)
            if comp is not None:
                return self.origins(fi, comp, env)
            return out
        for d in defs:
            out |= self._def_origins(fi, d, env, memo)
        # containers filled by append / item store
        out |= env.get('#' + name_node.id, set())
        return out

    def _comp_binding(self, name_node):
        n = getattr(name_node, '_parent', None)
        while n is not None and not isinstance(n, (ast.FunctionDef,
                                                   ast.AsyncFunctionDef)):
            if isinstance(n, (ast.ListComp, ast.SetComp, ast.GeneratorExp,
                              ast.DictComp)):
                for g in n.generators:
                    for sub in ast.walk(g.target):
                        if isinstance(sub, ast.Name) \
                                and sub.id == name_node.id:
                            return g.iter
            n = getattr(n, '_parent', None)
        return None

    def _def_origins(self, fi, d, env, memo):
        if d.id in memo:
            return memo[d.id]
        memo[d.id] = set()
        if d.kind == 'param':
            res = {(d.name, 'same')}
        elif d.kind == 'for':
            res = self._iter_origins(fi, d.value, d.path, env)
        elif d.kind in ('assign', 'walrus', 'with', 'aug'):
            res = self.origins(fi, d.value, env)
        else:
            res = set()
        memo[d.id] = res
        return res

    def _iter_origins(self, fi, it, path, env):
        """origins of the loop variable of `for <target> in it`"""
        which = 'auto'
        base = it
        if isinstance(it, ast.Call) and isinstance(it.func, ast.Attribute) \
                and not it.args:
            if it.func.attr == 'items':
                base = it.func.value
                first = path[0] if path else None
                which = 'keys' if first == 0 else (
                    'values' if first == 1 else 'both')
            elif it.func.attr == 'keys':
                base = it.func.value
                which = 'keys'
            elif it.func.attr == 'values':
                base = it.func.value
                which = 'values'
        o = self.origins(fi, base, env)
        keys = {(r, rel[4:]) for (r, rel) in o if rel.startswith('key:')}
        vals = {(r, rel) for (r, rel) in o if not rel.startswith('key:')}
        if which == 'keys':
            return keys
        if which == 'values':
            return vals
        if which == 'both':
            return keys | vals
        # plain iteration: a dict yields its keys, a list its elements
        if keys:
            return keys
        return vals

    def origins(self, fi, e, env=None):
        """set of (root, rel) the expression may denote"""
        if env is None:
            env = self.var_origins(fi)
        if e is None:
            return set()
        if isinstance(e, ast.Name):
            return self._name_origins(fi, e, env)
        if isinstance(e, ast.Constant):
            return set()
        ch = subscript_chain(e)
        if ch is not None:
            base, keys = ch
            out = set()
            if base.startswith('self.'):
                srcs = env.get(base)
                if srcs:
                    for (r, rel) in srcs:
                        out.add((root_str(r, keys), rel))
                else:
                    out.add((root_str(base, keys), 'same'))
                return out
            n = e
            while isinstance(n, ast.Subscript):
                n = n.value
            srcs = self._name_origins(fi, n, env)
            for (r, rel) in srcs:
                out.add((root_str(r, keys), rel))
            return out
        if isinstance(e, ast.Subscript):
            # element of a list / dict of paths, or tuple from mkstemp
            return {(r, rel) for (r, rel) in
                    self.origins(fi, e.value, env)
                    if not rel.startswith('key:')}
        if isinstance(e, ast.Attribute):
            if isinstance(e.value, ast.Name) and e.value.id == 'self':
                got = env.get(f'self.{e.attr}')
                if got:
                    return set(got)
                return {(f'self.{e.attr}', 'same')}
            if e.attr in NON_PATH_ATTRS:
                return set()
            if e.attr == 'parent':
                return {(r, 'parent') for (r, rel) in
                        self.origins(fi, e.value, env) if rel == 'same'}
            return set()
        if isinstance(e, ast.BinOp) and isinstance(e.op, ast.Div):
            return {(r, _child(rel))
                    for (r, rel) in self.origins(fi, e.left, env)}
        if isinstance(e, ast.BinOp) and isinstance(e.op, ast.Add):
            return {(r, 'sibling' if rel == 'same' else rel)
                    for (r, rel) in self.origins(fi, e.left, env)}
        if isinstance(e, ast.IfExp):
            return self.origins(fi, e.body, env) | self.origins(
                fi, e.orelse, env)
        if isinstance(e, (ast.List, ast.Tuple, ast.Set)):
            out = set()
            for x in e.elts:
                out |= self.origins(fi, x, env)
            return out
        if isinstance(e, (ast.ListComp, ast.SetComp, ast.GeneratorExp)):
            return self.origins(fi, e.elt, env)
        if isinstance(e, ast.JoinedStr):
            return set()
        if isinstance(e, ast.Call):
            return self._call_origins(fi, e, env)
        return set()

    def _call_origins(self, fi, call, env):
        t = resolve_callee(self.db, fi, call)
        name = ext_name(t)
        f = call.func
        if name in IDENTITY_CALLS and call.args:
            return self.origins(fi, call.args[0], env)
        if name == 'os.path.join' and call.args:
            return {(r, _child(rel)) for (r, rel) in
                    self.origins(fi, call.args[0], env)}
        if name in ('tempfile.mkdtemp', 'tempfile.mkstemp'):
            d = _kwarg(call, 'dir', 2)
            return {(r, 'fresh') for (r, rel) in self.origins(fi, d, env)}
        if name in ('sorted', 'list', 'tuple', 'set', 'reversed') \
                and call.args:
            return self.origins(fi, call.args[0], env)
        if isinstance(f, ast.Attribute):
            if f.attr in IDENTITY_METHODS:
                return self.origins(fi, f.value, env)
            if f.attr in CHILD_METHODS:
                return {(r, _child(rel)) for (r, rel) in
                        self.origins(fi, f.value, env)}
            if f.attr in ('iterdir', 'glob', 'rglob'):
                return {(r, _child(rel)) for (r, rel) in
                        self.origins(fi, f.value, env)}
        if isinstance(t, ClassInfo):
            return set()
        if isinstance(t, FunctionInfo) and t.qual in PATH_IDENTITY_FUNCS:
            mapping, _ = bind_args(t, call)
            out = set()
            for a in mapping.values():
                out |= self.origins(fi, a, env)
            return out
        if isinstance(t, FunctionInfo):
            ret = self.return_origins(t)
            if not ret:
                return set()
            mapping, _ = bind_args(t, call)
            out = set()
            for (root, rel) in ret:
                base, chain = _split_root(root)
                if base.startswith('self.'):
                    # method on a typed receiver: state of the object
                    if isinstance(f, ast.Attribute):
                        for (r0, rel0) in self._receiver_attr(
                                fi, f.value, base, env):
                            out.add((r0 + chain, _combine(rel0, rel)))
                    continue
                a = mapping.get(base)
                if a is None:
                    continue
                for (r0, rel0) in self.origins(fi, a, env):
                    out.add((r0 + chain, _combine(rel0, rel)))
            return out
        return set()

    def _receiver_attr(self, fi, recv, attr, env):
        # origins stored on an object are not tracked across functions,
        # except for `self`
        if isinstance(recv, ast.Name) and recv.id == 'self':
            return env.get(attr) or {(attr, 'same')}
        return set()

    def return_origins(self, fi):
        key = id(fi)
        if key in self._ret:
            return self._ret[key]
        self._ret[key] = set()
        env = self.var_origins(fi)
        out = set()
        for node in ast.walk(fi.node):
            if isinstance(node, ast.Return) and node.value is not None:
                out |= self.origins(fi, node.value, env)
        self._ret[key] = out
        return out

    # ------------------------------------------------------------------
    def effects(self, fi):
        """list of Effect of fi including callees (summary)"""
        key = id(fi)
        if key in self._summary:
            return self._summary[key]
        if key in self._inprogress:
            return []
        self._inprogress.add(key)
        env = self.var_origins(fi)
        out = []
        seen = set()

        def add(kind, arg, site, via=(), chain='', rel2='same',
                from_fi=None):
            if isinstance(arg, set):
                srcs = arg
            else:
                srcs = self.origins(fi, arg, env)
            for (r, rel) in srcs:
                if rel.startswith('key:'):
                    continue
                root = r + chain
                rel_c = _combine(rel, rel2)
                k = (kind, root, rel_c, id(site),
                     tuple(id(v[1]) for v in via))
                if k in seen:
                    continue
                seen.add(k)
                out.append(Effect(kind, root, rel_c, site,
                                  from_fi or fi, via))

        for node in self._own_calls(fi):
            self._call_effects(fi, node, add, env)
        if fi.name == '__init__' and fi.cls is not None:
            # the lifetime effects of the object are attributed to its
            # construction: effects of the other methods on self.<attr>
            # roots, mapped through what __init__ stored there
            for meth in fi.cls.methods.values():
                if meth is fi:
                    continue
                for eff in self.effects(meth):
                    base, chain = _split_root(eff.root)
                    if not base.startswith('self.'):
                        continue
                    srcs = env.get(base)
                    if not srcs:
                        continue
                    add(eff.kind, set(srcs), eff.site,
                        via=eff.via + ((meth, meth.node),), chain=chain,
                        rel2=eff.rel, from_fi=eff.fi)
        self._inprogress.discard(key)
        self._summary[key] = out
        return out

    def _own_calls(self, fi):
        stack = list(ast.iter_child_nodes(fi.node))
        while stack:
            n = stack.pop()
            if isinstance(n, (ast.FunctionDef, ast.AsyncFunctionDef,
                              ast.ClassDef)):
                continue
            if isinstance(n, ast.Call):
                yield n
            stack.extend(ast.iter_child_nodes(n))

    def open_mode(self, fi, call, pos, default='r'):
        """constant mode strings a file-open call may use"""
        m = _kwarg(call, 'mode', pos)
        if m is None:
            return {default}
        s = _const_str(m)
        if s is not None:
            return {s}
        vals = self._possible_strings(fi, m)
        if vals is None:
            self.mode_notes.append(
                f'{fi.qual} L{call.lineno}: open mode `{unparse(m)}` not '
                'constant; treated as writing')
            return {'?w'}
        return vals

    def _possible_strings(self, fi, e, depth=0):
        if depth > 3:
            return None
        s = _const_str(e)
        if s is not None:
            return {s}
        if isinstance(e, ast.Attribute) and isinstance(e.value, ast.Name) \
                and e.value.id == 'self' and fi.cls is not None:
            vals = set()
            for meth in fi.cls.methods.values():
                for n in ast.walk(meth.node):
                    if isinstance(n, ast.Assign):
                        for t in n.targets:
                            if isinstance(t, ast.Attribute) and isinstance(
                                    t.value, ast.Name) and \
                                    t.value.id == 'self' \
                                    and t.attr == e.attr:
                                v = self._possible_strings(meth, n.value,
                                                           depth+1)
                                if v is None:
                                    return None
                                vals |= v
            return vals or None
        if isinstance(e, ast.Name):
            vals = set()
            if e.id in fi.params:
                d = fi.defaults.get(e.id)
                if d is not None:
                    s = _const_str(d)
                    if s is None:
                        return None
                    vals.add(s)
                # constants passed by callers
                target = fi
                callers = self.cg.callers(fi.qual)
                if fi.name == '__init__' and fi.cls is not None:
                    callers = self.cg.callers(fi.qual)
                for (q, c) in callers:
                    cfi = self.db.functions.get(q)
                    if cfi is None:
                        continue
                    mapping, _ = bind_args(target, c)
                    a = mapping.get(e.id)
                    if a is None:
                        continue
                    v = self._possible_strings(cfi, a, depth+1)
                    if v is None:
                        return None
                    vals |= v
                return vals or None
            # local constant assignments
            found = False
            for n in ast.walk(fi.node):
                if isinstance(n, ast.Assign):
                    for t in n.targets:
                        if isinstance(t, ast.Name) and t.id == e.id:
                            found = True
                            v = self._possible_strings(fi, n.value, depth+1)
                            if v is None:
                                return None
                            vals |= v
            return vals if found else None
        if isinstance(e, ast.IfExp):
            a = self._possible_strings(fi, e.body, depth+1)
            b = self._possible_strings(fi, e.orelse, depth+1)
            if a is None or b is None:
                return None
            return a | b
        return None

    def _call_effects(self, fi, call, add, env):
        db = self.db
        t = resolve_callee(db, fi, call)
        name = ext_name(t)
        f = call.func

        def mode_kind(modes):
            kinds = set()
            for m in modes:
                if m == '?w' or (WRITE_MODES & set(m)):
                    kinds.add('write')
                if 'r' in m or m == '?w' or '+' in m or 'a' in m:
                    kinds.add('read')
            return kinds

        if name == 'h5py.File':
            p = _kwarg(call, 'name', 0)
            for k in mode_kind(self.open_mode(fi, call, 1)):
                add(k, p, call)
            return
        if name in ('open', 'io.open', 'gzip.open'):
            p = _kwarg(call, 'file', 0)
            for k in mode_kind(self.open_mode(fi, call, 1)):
                add(k, p, call)
            return
        if name in ('shutil.copy', 'shutil.copyfile', 'shutil.copy2',
                    'shutil.copytree'):
            add('read', _kwarg(call, 'src', 0), call)
            add('write', _kwarg(call, 'dst', 1), call)
            return
        if name == 'shutil.move':
            add('remove', _kwarg(call, 'src', 0), call)
            add('write', _kwarg(call, 'dst', 1), call)
            return
        if name in ('os.remove', 'os.unlink', 'shutil.rmtree', 'os.rmdir',
                    'os.removedirs'):
            add('remove', call.args[0] if call.args else None, call)
            return
        if name in ('os.rename', 'os.replace'):
            add('remove', _kwarg(call, 'src', 0), call)
            add('write', _kwarg(call, 'dst', 1), call)
            return
        if name in ('os.listdir', 'os.scandir', 'glob.glob', 'os.walk'):
            add('list', call.args[0] if call.args else None, call)
            return
        if name in ('tempfile.mkdtemp', 'tempfile.mkstemp'):
            add('mkd', _kwarg(call, 'dir', 2), call)
            return
        if name in ('os.makedirs', 'os.mkdir'):
            add('write', call.args[0] if call.args else None, call)
            return
        if name in ('anndata.read_h5ad', 'anndata.io.read_h5ad',
                    'pandas.read_csv', 'numpy.load', 'json.load',
                    'anndata.read'):
            add('read', call.args[0] if call.args else None, call)
            return
        if name in ('numpy.save', 'numpy.savez', 'numpy.savetxt',
                    'numpy.savez_compressed'):
            add('write', call.args[0] if call.args else None, call)
            return
        if isinstance(f, ast.Attribute):
            a = f.attr
            if a in ('unlink', 'rmdir'):
                add('remove', f.value, call)
                return
            if a in ('write_text', 'write_bytes', 'touch', 'mkdir'):
                add('write', f.value, call)
                return
            if a in ('iterdir', 'glob', 'rglob'):
                add('list', f.value, call)
                return
            if a in ('read_text', 'read_bytes'):
                add('read', f.value, call)
                return
            if a == 'open' and not isinstance(t, FunctionInfo):
                for k in mode_kind(self.open_mode(fi, call, 0)):
                    add(k, f.value, call)
                return
            if a in ('to_csv', 'write_h5ad', 'write', 'to_hdf', 'to_json',
                     'savefig', 'write_csvs', 'write_loom', 'write_zarr') \
                    and not isinstance(t, FunctionInfo) and call.args:
                # destination argument, when it is a path we know
                add('write', call.args[0], call)
                # fall through: nothing else
                return
            if a == 'rename' and not isinstance(t, FunctionInfo) \
                    and self.origins(fi, f.value, env):
                add('remove', f.value, call)
                if call.args:
                    add('write', call.args[0], call)
                return
        # worker processes: effects of the target with its kwargs
        pt = process_target(db, fi, call)
        if pt is not None and pt[0] is not None and isinstance(pt[1], dict):
            tgt = pt[0]
            for eff in self.effects(tgt):
                base, chain = _split_root(eff.root)
                arg = pt[1].get(base)
                if arg is not None:
                    add(eff.kind, arg, eff.site,
                        via=eff.via + ((fi, call),), chain=chain,
                        rel2=eff.rel, from_fi=eff.fi)
            return
        callee = None
        if isinstance(t, FunctionInfo):
            callee = t
        elif isinstance(t, ClassInfo):
            callee = db.find_method(t, '__init__')
        if callee is None:
            return
        mapping, _ = bind_args(callee, call)
        for eff in self.effects(callee):
            base, chain = _split_root(eff.root)
            if base.startswith('self.'):
                if isinstance(f, ast.Attribute) and isinstance(
                        f.value, ast.Name) and f.value.id == 'self':
                    srcs = env.get(base) or {(base, 'same')}
                    add(eff.kind, set(srcs), eff.site,
                        via=eff.via + ((fi, call),), chain=chain,
                        rel2=eff.rel, from_fi=eff.fi)
                continue
            arg = mapping.get(base)
            if arg is None:
                # default value of the parameter
                continue
            add(eff.kind, arg, eff.site, via=eff.via + ((fi, call),),
                chain=chain, rel2=eff.rel, from_fi=eff.fi)

    # ------------------------------------------------------------------
    def effects_on(self, fi, root, kinds=('write', 'remove'),
                   rels=('same',)):
        return [e for e in self.effects(fi)
                if e.root == root and e.kind in kinds and e.rel in rels]


def _split_root(root):
    i = root.find('[')
    if i < 0:
        return root, ''
    return root[:i], root[i:]


def _child(rel):
    if rel == 'fresh':
        return 'fresh'
    if rel == 'parent':
        return 'sibling'
    return 'under'


def _combine(a, b):
    """relation of (x rel-a root) seen through (y rel-b x)"""
    if a == 'same':
        return b
    if b == 'same':
        return a
    if 'fresh' in (a, b):
        # anything at or below a freshly created directory is fresh
        return 'fresh'
    if 'under' in (a, b):
        return 'under'
    return a


def _kwarg(call, name, pos):
    for kw in call.keywords:
        if kw.arg == name:
            return kw.value
    if pos is not None and pos < len(call.args):
        a = call.args[pos]
        if not isinstance(a, ast.Starred):
            return a
    return None
